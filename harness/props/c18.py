"""C18 - message log: filters mean what they say and the view equals the filtered log.

Model: coq/theories/Log/Filter.v (filter language + leaf semantics), Log/LogView.v (logger), Log/FilterSyntax.v (grammar + printer).
Tie: generated filter ASTs are printed to the concrete syntax, compiled with the real
compile_filter (node tree compared with the AST), evaluated against real LLUDP / EQ / HTTP log
entries with both short_circuit values and diffed against the extracted model; logger operation
sequences (maxlen 1..3) are run on the real FilteringMessageLogger and on the extracted model.
Export/import and freeze/thaw: Log/Export.v (Message.to_dict/from_dict, entry to_dict/from_dict, export/import, freeze state
machine) over C12's LLSD notation model; the extracted functions are compared with the real classes on generated messages,
malformed dicts, values, entry lists and freeze scripts (suites correspond_x_*), next to the implementation-level oracle.
"""
import itertools
import json
import math

from harness.common.framework import CorrResult

PROP_ID = "C18"
COQ_PROPS = "theories/Props/C18.v"
EXTRACT = ("theories/Extract/ExC18.v", "c18_driver.ml")
EXTRACT_Z = True
TRUSTED = [
    "modelled by hand (Log/Filter.v): UnaryNot/And/Or/MessageFilterNode.match + MatchResult truthiness, "
    "AbstractMessageLogEntry._base_matches/_val_matches/_apply_operator/_packet_root_matches, LLUDPMessageLogEntry.matches/_get_meta, "
    "HTTPMessageLogEntry._get_meta, the comparison dunders of TupleCoord and JankStringyBytes, and the CPython semantics of "
    "== != < <= > >= in startswith endswith & on None/bool/int/float/str/bytes/tuple (floats as exact rationals; NaN/inf are "
    "not generated; fnmatch restricted to '*', the only wildcard the "
    "identifier grammar admits; str.lower on ASCII)",
    "modelled by hand (Log/LogView.v): FilteringMessageLogger.add_log_entry/set_filter/set_paused/clear, deque(maxlen).append; "
    "set_filter evaluates the new filter on everything before it changes any state (a raising match leaves the logger unchanged); "
    "entries are identified by object identity",
    "supplied as data by the harness (not modelled): str() of UUID/TupleCoord/JankStringyBytes/dict objects, Block.deserialize_var (subfield "
    "serializers, C08/C09), resolution of EnumFieldSpecifier in hippolyzer.lib.proxy.templates, construction of log entries",
    "concrete syntax (Log/FilterSyntax.v): the PEG grammar of message_filter.py, MessageFilterVisitor and compile_filter's wrapper are "
    "modelled by hand as a recursive-descent parser (ordered choice with backtracking, whitespace skipped before every terminal, "
    "StrMatch keywords as plain prefixes, operator and connective lists in the coded order, ZeroOrMore of (connective, expression) as at "
    "most one iteration - the argument is in the file header) and proved to read back every printed well-formed filter "
    "(C18_parse_print) and every re-spaced / re-parenthesised rendering of it (C18_parse_rendering); printed filters therefore no "
    "longer rely on the real grammar as an oracle of what a text means.  The model is tied to the real parser by correspondence only "
    "(suite 'concrete syntax': accept/reject and the whole tree on printed, mutated, random-token, random-number and hand-written "
    "texts; the harness printer is compared character by character with the extracted FilterSyntax.print).  arpeggio itself "
    "(ParserPython, Sequence/OrderedChoice/Optional/ZeroOrMore/OneOrMore backtracking, Match.parse whitespace skipping, the "
    "suppression of StrMatch terminals inside a Sequence, visit_parse_tree), Python's re engine on the three literal regular "
    "expressions and ast.literal_eval (string escapes, leading-zero rule, decimal -> binary64 rounding, modelled by sbody / eval_dec / "
    "b64_of_dec) remain oracles",
    "concrete syntax, not modelled (texts with these features are left out of the comparison and counted under outside_fragment): "
    "triple-quoted literals, the \\N{name} escape, control characters other than tab / newline / return, a carriage return inside a "
    "str / bytes literal, float literals that overflow to inf, code points above 255 in the filter text (escapes \\u / \\U that "
    "produce them are modelled), texts longer than 1500 characters.  A literal that matches its regular expression but is rejected by "
    "ast.literal_eval makes the model's literal alternative fail instead of raising after the parse (both reject; argument in the file "
    "header).  What an EnumFieldSpecifier resolves to is data: the parser takes a resolver and C18_parse_print assumes the tree carries "
    "the resolver's answers (enums_by)",
    "concrete syntax, float literals: the printer's float case searches for the fewest fraction digits whose nearest decimal reads "
    "back (through the model's own rounding) as the same float, so C18_parse_print holds for floats by construction of the printer; "
    "that this is what repr(float) prints and that b64_of_dec is float() is checked by correspondence only (generated ASTs, 400+ "
    "random decimal literals per quick run including halfway cases)",
    "export/import and freeze/thaw clause, modelled by hand (Log/Export.v) and proved (Log/ExportProofs.v, Props/C18.v "
    "C18_dict_roundtrip .. C18_frozen_export): Message.to_dict(extended)/from_dict, Block(**kwargs)/finalize as far as from_dict uses "
    "them, the exact-type dispatch of HippoLLSDNotationFormatter._generate (type_map + the iter() fallback for bytearray) as `tree_of`, "
    "the Python objects the notation parser builds as `pv_of`, LLUDPMessageLogEntry._restore_value_classes (fix 23066bc) as "
    "`restore_msg`, AbstractMessageLogEntry.__init__'s meta dict for region = session = None, "
    "to_dict / apply_dict (str(UUID) / UUID(str) of the three UUID-valued meta keys, only the 8-4-4-4-12 spelling), the region_name / "
    "summary properties, LLUDPMessageLogEntry / EQMessageLogEntry to_dict / from_dict, export_log_entries / import_log_entries, "
    "LLUDPMessageLogEntry.freeze / message / name / method / seq (live message = shared mutable object in an explicit heap).  The "
    "notation formatter and parser themselves are property C12's model (Llsd/LlsdNotation.v, LlsdNotationParse.v) and its proved "
    "round trip (parse_not_fmt = C12_not_roundtrip) is reused under exactly its hypotheses (wfn + oracles_ok of the exported tree, "
    "the two lexical hypotheses on repr(float) and the date string)",
    "export/import, the message template: what _restore_value_classes reads off it (per (message, block, variable): the coordinate "
    "class _COORD_CLASSES gives the variable's type, or 'Fixed / Variable and not probably_binary') is a PARAMETER `tk` of the model "
    "and of every theorem (forall tk); it is tied by correspondence, not by a generated table: with every case the harness reads the "
    "facts of every variable met off the LIVE DEFAULT_TEMPLATE_DICT and the live _COORD_CLASSES (template_kind in this file) and "
    "hands them to the extracted model; every wire-decoded message of every run must satisfy the hypothesis `deser_classes tk m` of "
    "the exact theorem (checked, a failure is a disagreement), and whenever the model says deser_classes the REAL "
    "Message.__eq__(restored, logged) must hold",
    "export/import, oracles (explicit premises of the theorems, never assumed globally): repr / ast.literal_eval and gzip are "
    "assumed inverse on the ONE exported value, pickle.loads(pickle.dumps(x)) == x and a non-empty pickle on the objects actually "
    "pickled, repr(float) / float() and Message.to_summary as functions.  All of them are exercised unabstracted by the suite "
    "'entry export / import' (the real import_log_entries(export_log_entries(list)) against norm_entry) and 'freeze / thaw machine'",
    "export/import, what is proved: for a standard entry around a message with the deserializer's classes (C18_export_import_exact, "
    "C18_import_exact) import(export e) = e EXACTLY up to the cached summary, extra as bytes and acks as a list (neither is read by "
    "Message.__eq__), and the imported entry is a fixed point (C18_export_import_stable); for arbitrary hand-built messages only the "
    "normal form (C18_export_import, C18_dict_roundtrip): the dict / notation leg loses the class of Vector2/3/4 / Quaternion, "
    "JankStringyBytes / RawBytes, bytearray, tuple, hippolyzer UUID (C18_dict_classes_lost_refuted, C18_value_fixed_iff_plain) and "
    "the restoration brings back only what the template knows.  The impl-level oracle ('freeze/thaw + export/import') now ASSERTS for "
    "every wire-decoded message: Message.__eq__(imported, logged), identical value classes, and equal answers of `== (x, y, z)` / "
    "`< (..)` / `== 'text'` filters on the logged and the imported entry (classes export-import-message-eq / -value-classes / "
    "-filter-differs, entry-dict-*); hand-built messages outside the template are compared modulo the lost classes as before",
    "export/import, freeze(): the model carries one flag, repickle = 'freeze() pickles the message it has just resolved' = the code "
    "since fix e4edfe3 (C18_freeze_idempotent is the headline; C18_hist_freeze_twice_refuted keeps the old behaviour as history); the "
    "harness probes the live code and drives the model with the value found; the impl-level oracle asserts that freezing twice keeps "
    "the message (class freeze-twice)",
    "export/import, restoration outside the model (cases left out of that one comparison, counted as restore_outside_model): a "
    "coordinate variable holding an array with a component that is not a float (float() of it) and a Quaternion variable holding "
    "fewer than four components (W computed with sqrt); an array longer than the class raises in code and model alike",
    "export/import, not modelled: HTTPMessageLogEntry (mitmproxy flow state: impl-level oracle only), datetime values inside "
    "event-queue events (no generated case; the model has the constructor), lazy parsing of the logged message (to_dict calls "
    "ensure_parsed first; C02) - lazily decoded messages are part of every suite -, Message.offset / body_boundaries / queued / "
    "finalized / sender (not read by to_dict), weak references to region and session, UUID spellings other than str(UUID), "
    "keyword names Block() cannot carry (ending in '_' or 'fill_missing': from_dict refuses them in the model, wf_msg excludes them)",
    "export/import, trusted glue: the typed text encoding of Python objects by exact type (y_enc / msg_enc / entry_enc in this "
    "file) and its printer / reader in coq/ocaml/c18_driver.ml; the pickle of the driver is an index into the case's message versions",
    "compile_filter is memoised by the harness during logger sequences (filter nodes are immutable)",
    "filter / view clauses, nothing is unproved or partial: C18_never_error quantifies over well-formed filters (`safe`: every expected value is a literal, "
    "a single-level Meta reference or an enum reference that resolves - an ill-formed reference raises by design when it is resolved, "
    "C18_ill_formed_raises) and C18_view_invariant needs no no-raise hypothesis; the seven defects found earlier "
    "(ee20324, 7c352a5, 2a50dc8, d24ac43, 85c28f0 and before them 70311e8, e2d67fe) are fixed in /repo and kept as corpus regressions",
    "not modelled: HTTPMessageLogEntry/EQMessageLogEntry request/summary formatting, WrappingMessageLogger, Qt model hooks "
    "(_begin_insert/_begin_reset), time-varying Meta values (CurrentSelected*, message attributes changed after logging)",
]

OPS = ["==", "!=", "^=", "$=", "~=", "<", "<=", ">", ">=", "&"]

OBJECT_UPDATE = (
    b'\xc0\x00\x00\x00Q\x00\x0c\x00\x01\xea\x03\x00\x02\xe6\x03\x00\x01\xbe\xff\x01\x06\xbc\x8e\x0b\x00'
    b'\x01i\x94\x8cjM"\x1bf\xec\xe4\xac1c\x93\xcbKW\x89\x98\x01\t\x03\x00\x01Q@\x88>Q@\x88>Q@\x88><\xa2D'
    b'\xb3B\x9ah+B\xc8[\xd1A\x00\x18K\x8c\xff>\xbdv\xff\xbe\xc5D\x00\x01\xbf\x00\x10P\x04\x00\x01\x10 '
    b'\x05\x00\x04dd\x00\x0f.\x00\x01\xa13\xdcw\n\x1a\xbb\'\xa7.xdc\xab\x94\xab\x00\x08\x80?\x00\x03\x80'
    b'?\x00\x0f\x10\x13\xff\x00\x08\x80?\x8f\xc2\xf5=\x00\nVoC\xcc\x00\x01\x02\x00\x03\x04\x00\x02\x04'
    b'\x00\x02d&\x00\x03\x0e\x00\x01\x0e\x00\x01\x19\x00\x01\x80\x00\x01\x80\x00\x01\x80\x00\x01\x80\x00'
    b'\x01\x80\x00\x01\x80\x91\x11\xd2^/\x12\x8f\x81U\xa7@:x\xb3\x0e-\x00\x10\x03\x01\x00\x03\x1e%n\xa2'
    b'\xff\xc5\xe0\x83\x00\x01\x06\x00\x01\r\r\x01\x00\x11\x0e\xdc\x9b\x83\x98\x9aJv\xac\xc3\xdb\xbf7Ta'
    b'\x88\x00"')


class Unencodable(Exception):
    pass


# --------------------------------------------------------------------------
# value specs (JSON-serialisable) <-> python values

def mk_val(spec):
    from hippolyzer.lib.base.datatypes import Vector3, Vector4, Quaternion, UUID, JankStringyBytes
    t, *a = spec
    if t == "none":
        return None
    if t == "bool":
        return bool(a[0])
    if t == "int":
        return int(a[0])
    if t == "float":
        return float.fromhex(a[0])
    if t == "str":
        return a[0]
    if t == "bytes":
        return bytes.fromhex(a[0])
    if t == "jank":
        return JankStringyBytes(bytes.fromhex(a[0]))
    if t == "tuple":
        return tuple(mk_val(x) for x in a[0])
    if t == "vec3":
        return Vector3(*[float.fromhex(x) for x in a[0]])
    if t == "vec4":
        return Vector4(*[float.fromhex(x) for x in a[0]])
    if t == "quat":
        return Quaternion(*[float.fromhex(x) for x in a[0]])
    if t == "uuid":
        return UUID(int=int(a[0]))
    raise ValueError(spec)


def fl(x):
    return ["float", float(x).hex()]


VAL_POOL = [
    ["none"], ["bool", True], ["bool", False],
    ["int", 0], ["int", 1], ["int", 2], ["int", 3], ["int", 5], ["int", 97], ["int", 255], ["int", 256], ["int", 1000],
    ["int", -1], ["int", 4294967296],
    fl(0.0), fl(1.0), fl(1.5), fl(2.25), fl(0.1), fl(97.0), fl(-0.5),
    ["str", ""], ["str", "abc"], ["str", "ab"], ["str", "bc"], ["str", "Foo"], ["str", "a'b"], ["str", 'q"\\x'], ["str", "b"],
    ["bytes", ""], ["bytes", "616263"], ["bytes", "6162"], ["bytes", "00"], ["bytes", "61626300"], ["bytes", "00ff01"],
    ["jank", ""], ["jank", "00"], ["jank", "61626300"], ["jank", "616263"], ["jank", "6162630000"], ["jank", "0000"],
    ["tuple", [["int", 0], ["int", 1], ["int", 0]]], ["tuple", [["int", 1], ["int", 2], ["int", 3], ["int", 4]]],
    ["tuple", [fl(1.5), ["int", 2], ["int", 256]]], ["tuple", [["int", 1], ["int", 1], ["int", 1]]],
    ["vec3", [float(0).hex(), float(1).hex(), float(0).hex()]], ["vec3", [float(2).hex()] * 3],
    ["vec3", [float(1.5).hex(), float(2).hex(), float(97).hex()]],
    ["vec4", [float(1).hex(), float(2).hex(), float(3).hex(), float(4).hex()]],
    ["quat", [float(0).hex(), float(0).hex(), float(0).hex(), float(1).hex()]],
    ["uuid", 5], ["uuid", 0],
]


def literal_ok(spec):
    """can this value be written as a literal of the filter grammar?"""
    t = spec[0]
    if t in ("none", "bool", "str", "bytes"):
        return True
    if t == "int":
        return spec[1] >= 0
    if t == "float":
        x = float.fromhex(spec[1])
        r = repr(x)
        return x >= 0 and "e" not in r and "n" not in r
    if t == "tuple":
        return len(spec[1]) in (3, 4) and all(s[0] in ("int", "float") and literal_ok(s) for s in spec[1])
    return False


# --------------------------------------------------------------------------
# filter ASTs:  ["leaf", [sel...], op|None, val|None] | ["not", f] | ["and", f, g] | ["or", f, g]
# val: ["lit", valspec] | ["meta", [names]] | ["enum", ename, fname]

def print_val(val, rng=None):
    k = val[0]
    if k == "meta":
        return "Meta." + ".".join(val[1])
    if k == "enum":
        return val[1] + "." + val[2]
    spec = val[1]
    v = mk_val(spec)
    if spec[0] == "int" and rng is not None and rng.random() < 0.3:
        return hex(v)
    if spec[0] == "tuple":
        sep = ", " if rng is None or rng.random() < 0.5 else ","
        return "(" + sep.join(repr(x) for x in v) + ")"
    return repr(v)


def print_leaf(f, rng=None):
    s = ".".join(f[1])
    if f[2] is None:
        return s
    sp = " " if rng is None or rng.random() < 0.7 else ""
    return s + sp + f[2] + sp + print_val(f[3], rng)


def print_expr(f, rng=None):
    """expression := term (('&&' | '||') expression)?   - right nested, no precedence"""
    if f[0] in ("and", "or"):
        o = " && " if f[0] == "and" else " || "
        if rng is not None and rng.random() < 0.2:
            o = o.strip()
        return print_term(f[1], rng) + o + print_expr(f[2], rng)
    return print_term(f, rng)


def print_term(f, rng=None):
    if f[0] == "leaf":
        s = print_leaf(f, rng)
        if rng is not None and rng.random() < 0.1:
            return "(" + s + ")"
        return s
    if f[0] == "not":
        g = f[1]
        if g[0] == "leaf" and g[2] is None and (rng is None or rng.random() < 0.8):
            return "!" + print_leaf(g, rng)
        return "!(" + print_expr(g, rng) + ")"
    return "(" + print_expr(f, rng) + ")"


def typed(v):
    """type-aware canonical form of a python literal value (1 != 1.0 != True)"""
    if isinstance(v, tuple):
        return ["tuple", [typed(x) for x in v]]
    if isinstance(v, float):
        return ["float", v.hex()]
    if isinstance(v, bytes):
        return ["bytes", v.hex()]
    return [type(v).__name__, v]


def spec_typed(spec):
    return typed(mk_val(spec))


def ast_canon(f):
    if f[0] == "leaf":
        val = f[3]
        if val is not None:
            val = ["lit", spec_typed(val[1])] if val[0] == "lit" else [val[0]] + [list(x) if isinstance(x, (list, tuple)) else x for x in val[1:]]
        return ["leaf", list(f[1]), f[2], val]
    return [f[0]] + [ast_canon(g) for g in f[1:]]


def node_canon(n):
    from hippolyzer.lib.proxy import message_filter as mf
    if isinstance(n, mf.MessageFilterNode):
        v = n.value
        if v is None:
            val = None
        elif isinstance(v, mf.LiteralValue):
            val = ["lit", typed(v.value)]
        elif isinstance(v, mf.MetaFieldSpecifier):
            val = ["meta", [str(x) for x in v]]
        elif isinstance(v, mf.EnumFieldSpecifier):
            val = ["enum", v.enum_name, v.field_name]
        else:
            val = ["?", repr(v)]
        return ["leaf", [str(x) for x in n.selector], n.operator, val]
    if isinstance(n, mf.UnaryNotFilterNode):
        return ["not", node_canon(n.node)]
    if isinstance(n, mf.AndFilterNode):
        return ["and", node_canon(n.left_node), node_canon(n.right_node)]
    if isinstance(n, mf.OrFilterNode):
        return ["or", node_canon(n.left_node), node_canon(n.right_node)]
    return ["?", repr(n)]


def build_nodes(f):
    """node tree built directly from an AST (used when the concrete syntax cannot express it)"""
    from hippolyzer.lib.proxy import message_filter as mf
    if f[0] == "leaf":
        val = f[3]
        if val is None:
            v = None
        elif val[0] == "lit":
            v = mf.LiteralValue(mk_val(val[1]))
        elif val[0] == "meta":
            v = mf.MetaFieldSpecifier(val[1])
        else:
            v = mf.EnumFieldSpecifier(val[1], val[2])
        return mf.MessageFilterNode(tuple(f[1]), f[2], v)
    if f[0] == "not":
        return mf.UnaryNotFilterNode(build_nodes(f[1]))
    cls = mf.AndFilterNode if f[0] == "and" else mf.OrFilterNode
    return cls(build_nodes(f[1]), build_nodes(f[2]))


def leaves(f):
    if f[0] == "leaf":
        yield f
    else:
        for g in f[1:]:
            yield from leaves(g)


def has_ge_le(f):
    return any(l[2] in (">=", "<=") for l in leaves(f))


def resolve_enum(ename, fname):
    from hippolyzer.lib.proxy import templates
    try:
        cls = getattr(templates, ename)
    except AttributeError:
        return "A"
    try:
        return cls[fname]
    except KeyError:
        return "K"


def well_formed(f):
    """values the property quantifies over: a Meta reference is single-level, an enum reference resolves"""
    for l in leaves(f):
        v = l[3]
        if v is None:
            continue
        if v[0] == "meta" and len(v[1]) != 1:
            return False
        if v[0] == "enum" and resolve_enum(v[1], v[2]) in ("A", "K"):
            return False
    return True


# --------------------------------------------------------------------------
# entries: JSON spec -> real log entry

def mk_entry(spec):
    from hippolyzer.lib.base.message.message import Block, Message
    from hippolyzer.lib.proxy import message_logger as ml
    t = spec["type"]
    if t == "FIXTURE":
        from hippolyzer.lib.base.message.udpdeserializer import UDPMessageDeserializer
        from hippolyzer.lib.base.settings import Settings
        st = Settings()
        st.ENABLE_DEFERRED_PACKET_PARSING = False
        msg = UDPMessageDeserializer(settings=st).deserialize(OBJECT_UPDATE)
        entry = ml.LLUDPMessageLogEntry(msg, None, None)
    elif t == "LLUDP":
        blocks = []
        for bname, vs in spec["blocks"]:
            b = Block(bname)
            for vname, vspec in vs:
                b[vname] = mk_val(vspec)
            blocks.append(b)
        msg = Message(spec["name"], *blocks, packet_id=spec.get("packet_id"), flags=spec.get("flags", 0),
                      acks=tuple(spec["acks"]) if spec.get("acks") is not None else None)
        for bname in spec.get("empty_blocks", []):
            msg.create_block_list(bname)        # a block list that is present but empty
        if spec.get("extra"):
            msg.raw_extra = bytes.fromhex(spec["extra"])
        msg.dropped = bool(spec.get("dropped", False))
        for k, v in spec.get("msg_meta", []):
            msg.meta[k] = mk_val(v)
        entry = ml.LLUDPMessageLogEntry(msg, None, None)
    elif t == "EQ":
        entry = ml.EQMessageLogEntry({"message": spec["name"], "body": {"a": 1}}, None, None)
    elif t == "HTTP":
        from mitmproxy.test import tflow, tutils
        from hippolyzer.lib.proxy.http_flow import HippoHTTPFlow
        from hippolyzer.lib.proxy.caps import SerializedCapData
        fake = tflow.tflow(req=tutils.treq(), resp=tutils.tresp())
        if spec.get("name"):
            fake.metadata["cap_data_ser"] = SerializedCapData(cap_name=spec["name"])
        for k, v in spec.get("req_headers", []):
            fake.request.headers[k] = v
        if spec.get("no_resp_headers"):
            fake.response.headers.clear()
        if "status" in spec:
            fake.response.status_code = spec["status"]
        entry = ml.HTTPMessageLogEntry(HippoHTTPFlow.from_state(fake.get_state(), None))
    else:
        raise ValueError(t)
    for k, v in spec.get("entry_meta", []):
        entry.meta[k] = mk_val(v)
    return entry


# --------------------------------------------------------------------------
# encoding for the model driver

def enc_str(s):
    cps = [ord(c) for c in s]
    return [len(cps)] + cps


def enc_bytes(b):
    return [len(b)] + list(b)


def bits(n):
    return ("-" if n < 0 else "") + format(abs(n), "b")


def enc_num(x):
    if isinstance(x, bool):
        return [0, bits(int(x)), "1"]
    if isinstance(x, int):
        return [1, bits(int(x)), "1"]
    if isinstance(x, float):
        if math.isnan(x) or math.isinf(x):
            raise Unencodable("nan/inf")
        n, d = x.as_integer_ratio()
        return [2, bits(n), bits(d)]
    raise Unencodable("num " + type(x).__name__)


def enc_pv(v):
    from hippolyzer.lib.base.datatypes import TupleCoord, JankStringyBytes
    if v is None:
        return ["N"]
    if isinstance(v, (bool, int, float)):
        return ["X"] + enc_num(v)
    if isinstance(v, str):
        return ["S"] + enc_str(v)
    if isinstance(v, JankStringyBytes):
        return ["B", 1] + enc_str(str(v)) + enc_bytes(bytes(v))
    if isinstance(v, bytes):
        return ["B", 0] + enc_bytes(v)
    if isinstance(v, tuple):
        out = ["T", len(v)]
        for x in v:
            out += enc_num(x)
        return out
    if isinstance(v, TupleCoord):
        comps = list(v)
        out = ["C", len(comps)]
        for x in comps:
            out += enc_num(x)
        return out + enc_str(str(v))
    if callable(v):
        raise Unencodable("callable")
    return ["O"] + enc_str(str(v))


def enc_mv(v):
    if hasattr(v, "get") and hasattr(v, "items"):
        from mitmproxy.http import Headers
        items = list(dict(v).items())
        out = ["D", 1 if isinstance(v, Headers) else 0, len(items)]
        for k, x in items:
            out += enc_str(str(k)) + enc_pv(x)
        return out + enc_str(str(v))
    return ["V"] + enc_pv(v)


def enc_mlist(items):
    out = [len(items)]
    for k, v in items:
        out += enc_str(k) + enc_mv(v)
    return out


def enc_entry(entry):
    from hippolyzer.lib.base.datatypes import TaggedUnion
    from hippolyzer.lib.proxy import message_logger as ml
    is_udp = isinstance(entry, ml.LLUDPMessageLogEntry)
    out = [0 if is_udp else 1] + enc_str(entry.name) + enc_str(entry.type)
    ci = []
    layers = []
    if isinstance(entry, ml.HTTPMessageLogEntry):
        ci = [("url", entry.flow.request.url), ("reqheaders", entry.flow.request.headers),
              ("respheaders", entry.flow.response.headers), ("host", entry.flow.request.host.lower()),
              ("status", entry.flow.response.status_code)]
    if is_udp:
        msg = entry.message
        layers.append([(n, getattr(msg, n.lower(), None)) for n in sorted(entry._MESSAGE_META_ATTRS)])
        layers.append(list(msg.meta.items()))
    layers.append([("CurrentSelectedLocal", entry._current_selected_local()),
                   ("CurrentSelectedFull", entry._current_selected_full())] + list(entry.meta.items()))
    out += enc_mlist(ci)
    out.append(len(layers))
    for l in layers:
        out += enc_mlist(l)
    if not is_udp:
        out.append(0)
        return out
    msg = entry.message
    out.append(len(msg.blocks))
    for bname in msg.blocks:
        bl = msg[bname]
        out += enc_str(bname) + [len(bl)]
        for block in bl:
            out.append(len(block.vars))
            for vname in block.vars.keys():
                out += enc_str(vname) + enc_pv(block[vname])
                try:
                    d = block.deserialize_var(vname)
                    if isinstance(d, TaggedUnion):
                        d = d.value
                    if not isinstance(d, dict):
                        d = None
                except KeyError:
                    d = None
                if d is None:
                    out.append("-")
                else:
                    out += ["+", len(d)]
                    for k in d.keys():
                        out += enc_str(str(k)) + enc_pv(d[k])
    return out


def enc_value(val):
    if val[0] == "lit":
        return ["L"] + enc_pv(mk_val(val[1]))
    if val[0] == "meta":
        out = ["M", len(val[1])]
        for n in val[1]:
            out += enc_str(n)
        return out
    r = resolve_enum(val[1], val[2])
    out = ["E"] + enc_str(val[1]) + enc_str(val[2])
    if r in ("A", "K"):
        return out + [r]
    return out + ["R"] + enc_pv(int(r) if isinstance(r, int) else r)


def enc_fexp(f):
    if f[0] == "leaf":
        out = ["l"] + enc_str(f[1][0]) + [len(f[1]) - 1]
        for s in f[1][1:]:
            out += enc_str(s)
        if f[2] is None:
            return out + ["-"]
        return out + ["+", OPS.index(f[2])] + enc_value(f[3])
    tag = {"not": "n", "and": "a", "or": "o"}[f[0]]
    out = [tag]
    for g in f[1:]:
        out += enc_fexp(g)
    return out


def line(tokens):
    return " ".join(str(t) for t in tokens)


# --------------------------------------------------------------------------
# observing the implementation

def show_fields(fields):
    out = []
    for k in fields:
        _, b, i, v = k
        out.append(",".join(str(ord(c)) for c in b) + "/" + str(i) + "/" + ",".join(str(ord(c)) for c in v))
    return "[" + " ".join(out) + "]"


def observe(node, entry, sc):
    """(line in the driver's format, exception or None)"""
    try:
        m = node.match(entry, sc)
        b = bool(m)
        return "OK %d %s" % (1 if b else 0, show_fields(m.fields)), None
    except Exception as ex:
        return "EXC:" + type(ex).__name__, ex


def exc_class(ex):
    s = str(ex)
    if isinstance(ex, ValueError) and "byte must be in range" in s:
        return "contains-int-out-of-byte-range"
    if isinstance(ex, TypeError) and "__bool__ should return bool" in s:
        return "band-on-meta-int-result"
    return "match-raised-" + type(ex).__name__


def compile_ast(f, rng=None):
    """-> (node or None, printed, problem or None).  The printed text is compiled with the real compile_filter
    and the node tree compared with the AST."""
    from hippolyzer.lib.proxy.message_filter import compile_filter
    text = print_expr(f, rng)
    try:
        node = compile_filter(text)
    except Exception as ex:
        return None, text, "EXC:" + type(ex).__name__
    got, want = node_canon(node), ast_canon(f)
    if got != want:
        return node, text, {"got": got, "want": want}
    return node, text, None


def py_denote(f, entry, leaf_truth):
    if f[0] == "leaf":
        return leaf_truth(f)
    if f[0] == "not":
        return not py_denote(f[1], entry, leaf_truth)
    a = py_denote(f[1], entry, leaf_truth)
    b = py_denote(f[2], entry, leaf_truth)
    return (a and b) if f[0] == "and" else (a or b)


_PLAIN = None


def ref_leaf(entry, l):
    """Independent reading of a leaf: root patterns, and Msg.Block.Var [op literal|enum] on LLUDP entries as
    "some selected field satisfies the comparison" using Python's own operators.  None = not covered."""
    import fnmatch
    import operator as o
    from hippolyzer.lib.base.datatypes import TupleCoord
    from hippolyzer.lib.proxy import message_logger as ml
    sel, op, val = l[1], l[2], l[3]
    root = fnmatch.fnmatchcase(entry.name, sel[0]) or fnmatch.fnmatchcase(entry.type, sel[0])
    if len(sel) == 1:
        return (op is None and root), []
    if sel[0] == "Meta" or len(sel) not in (3, 4) or not isinstance(entry, ml.LLUDPMessageLogEntry):
        return None
    if not root:
        return False, []
    if val is not None:
        if val[0] == "lit":
            expected = mk_val(val[1])
        elif val[0] == "enum":
            expected = resolve_enum(val[1], val[2])
            if expected in ("A", "K"):
                return None
        else:
            return None
    ops = {"==": o.eq, "!=": o.ne, "<": o.lt, "<=": o.le, ">": o.gt, ">=": o.ge, "&": o.and_,
           "^=": lambda v, e: v is not None and v.startswith(e), "$=": lambda v, e: v is not None and v.endswith(e),
           "~=": lambda v, e: v is not None and e in v}
    # vector fields: the comparison operators are component-wise ("all components"), == / != compare the component tuples -
    # spelled out here so that the reference does not go through TupleCoord's own rich-comparison methods
    def _vec(f):
        def g(v, e):
            if isinstance(v, TupleCoord) and isinstance(e, (tuple, TupleCoord)):
                return f(tuple(v), tuple(e))
            return None
        return g
    vec_ops = {"==": _vec(lambda a, b: a == b), "!=": _vec(lambda a, b: a != b),
               "<": _vec(lambda a, b: all(x < y for x, y in zip(a, b))), "<=": _vec(lambda a, b: all(x <= y for x, y in zip(a, b))),
               ">": _vec(lambda a, b: all(x > y for x, y in zip(a, b))), ">=": _vec(lambda a, b: all(x >= y for x, y in zip(a, b)))}
    for _k, _f in list(ops.items()):
        def _mk(k=_k, f=_f):
            def h(v, e):
                r = vec_ops[k](v, e) if k in vec_ops else None
                return f(v, e) if r is None else r
            return h
        ops[_k] = _mk()
    msg = entry.message
    keys = []
    for bname, blocks in msg.blocks.items():
        if not fnmatch.fnmatchcase(bname, sel[1]):
            continue
        for num, block in enumerate(blocks):
            for vname, v in block.vars.items():
                if not fnmatch.fnmatchcase(vname, sel[2]):
                    continue
                if len(sel) == 4:
                    # Msg.Block.Var.Subfield: the variable is selected iff SOME unpacked subfield whose name matches
                    # satisfies the comparison (any position in the unpacked dict)
                    from hippolyzer.lib.base.datatypes import TaggedUnion
                    try:
                        d = block.deserialize_var(vname)
                    except KeyError:
                        continue
                    if isinstance(d, TaggedUnion):
                        d = d.value
                    if not isinstance(d, dict):
                        continue
                    hit = False
                    for sk, sv in d.items():
                        if not fnmatch.fnmatchcase(str(sk), sel[3]):
                            continue
                        if op is None:
                            hit = True
                            break
                        if not isinstance(sv, (int, float, bytes, str, type(None), tuple, TupleCoord)):
                            sv = str(sv)
                        try:
                            if ops[op](sv, expected):
                                hit = True
                                break
                        except (TypeError, AttributeError, ValueError):
                            pass
                    if hit:
                        keys.append((msg.name, bname, num, vname))
                    continue
                if op is None:
                    keys.append((msg.name, bname, num, vname))
                    continue
                if not isinstance(v, (int, float, bytes, str, type(None), tuple, TupleCoord)):
                    v = str(v)
                try:
                    if ops[op](v, expected):
                        keys.append((msg.name, bname, num, vname))
                except (TypeError, AttributeError, ValueError):
                    pass
    return bool(keys), keys


def check_filter_case(f, espec, rng=None):
    """Runs one (filter AST, entry) case on the implementation.
    returns (obs_line or None, violations list, printed text, parse_problem)"""
    entry = mk_entry(espec)
    viol = []
    base = {"kind": "filter", "ast": f, "entry": espec}
    node, text, prob = compile_ast(f, rng)
    if prob is not None and has_ge_le(f) and isinstance(prob, str):
        viol.append(dict(base, clause="every operator of the grammar can be written", **{"class": "ge-le-unparseable"},
                         filter=text, got=prob))
        node = build_nodes(f)
        prob = None
    elif prob is not None and node is None:
        return None, viol, text, prob
    # (when the text compiled but the node tree differs from the printed AST, the compiled filter is still judged by the
    #  statement's clauses below; the tree difference itself is reported by the caller)
    parse_prob = prob
    o1, x1 = observe(node, entry, True)
    o2, x2 = observe(node, entry, False)
    obs = o1 + " # " + o2
    wf = well_formed(f)
    for o, x, sc in ((o1, x1, True), (o2, x2, False)):
        if x is not None and wf:
            viol.append(dict(base, clause="a comparison that cannot be applied is false, never an error",
                             **{"class": exc_class(x)}, filter=text, short_circuit=sc, got=o))
    if x1 is None and x2 is None:
        b1, b2 = o1.split()[1], o2.split()[1]
        if b1 != b2:
            viol.append(dict(base, clause="short-circuit and full evaluation agree", **{"class": "sc-disagree"}, filter=text, got=obs))
        # boolean structure: combine the implementation's own answers for the single leaves
        cache = {}

        def leaf_truth(l):
            k = json.dumps(l)
            if k not in cache:
                o, x = observe(build_nodes(l), entry, False)
                cache[k] = None if x is not None else (o.split()[1] == "1")
            return cache[k]
        try:
            want = py_denote(f, entry, leaf_truth)
        except TypeError:
            want = None
        if want is not None and None not in cache.values() and (b2 == "1") != want:
            viol.append(dict(base, clause="not/and/or agree with the truth values of their operands",
                             **{"class": "bool-semantics"}, filter=text, got=obs, want=want))
        if f[0] == "leaf":
            ref = ref_leaf(entry, f)
            if ref is not None and (ref[0] != (b2 == "1") or ref[0] != (b1 == "1")):
                viol.append(dict(base, clause="a field comparison is true iff some selected field satisfies it",
                                 **{"class": "leaf-exists"}, filter=text, got=obs, want=ref[0]))
            elif ref is not None and o2.split(" ", 2)[2] != show_fields(ref[1]):
                viol.append(dict(base, clause="the matched fields are exactly the selected fields that satisfy the comparison",
                                 **{"class": "leaf-fields"}, filter=text, got=o2, want=show_fields(ref[1])))
        if (b1 == "0" and not o1.endswith("[]")) or (b2 == "0" and not o2.endswith("[]")):
            viol.append(dict(base, clause="no matched fields on a false result", **{"class": "fields-on-false"}, filter=text, got=obs))
    # `!=` holds of exactly the selected fields of which `==` does not hold (3-part field selectors)
    if f[0] == "leaf" and f[2] == "!=" and x2 is None and wf and len(f[1]) == 3 and f[1][0] != "Meta":
        def fields_of(g):
            o, x = observe(build_nodes(g), entry, False)
            return None if x is not None else set(o.split("[")[1].rstrip("]").split())
        eq = fields_of(["leaf", f[1], "==", f[3]])
        sel = fields_of(["leaf", f[1], None, None])
        ne = set(o2.split("[")[1].rstrip("]").split())
        if eq is not None and sel is not None:
            if ne & eq:
                viol.append(dict(base, clause="!= holds of exactly the selected fields of which == does not hold",
                                 **{"class": "ne-and-eq-both-true"}, filter=text, got=sorted(ne & eq)[:3]))
            elif sel - ne - eq:
                viol.append(dict(base, clause="!= holds of exactly the selected fields of which == does not hold",
                                 **{"class": "ne-and-eq-both-false"}, filter=text, got=sorted(sel - ne - eq)[:3]))
    # freezing the logged message must not change what a filter says about the entry (nor must thawing it again)
    if espec.get("type") in ("LLUDP", "FIXTURE") and x2 is None and hasattr(entry, "freeze"):
        try:
            entry.freeze()
            o3, x3 = observe(node, entry, False)
            _ = entry.message       # thaw
            o4, x4 = observe(node, entry, False)
        except Exception as ex:   # noqa
            o3, x3, o4, x4 = "EXC:" + type(ex).__name__, ex, "-", None
        if o3 != o2 or (x4 is None and o4 != o2):
            viol.append(dict(base, clause="freezing and thawing a logged message yield an entry equal to the original: the same filter "
                                          "gives the same answer before freeze(), while frozen, and after thawing",
                             **{"class": "frozen-entry-answers-differently"}, filter=text, got="live %s ; frozen %s ; thawed %s" % (o2, o3, o4)))
    return obs, viol, text, parse_prob


# --------------------------------------------------------------------------
# generators

NAMES = ["Foo", "FooBar", "Bar", "Meta"]
BNAMES = ["Bar", "Baz", "AgentData"]
VNAMES = ["Baz", "Quux", "ID", "Name-x", "B_2"]


def gen_udp_spec(rng):
    blocks = []
    for _ in range(rng.choice((0, 1, 1, 2, 3))):
        vs = []
        names = rng.sample(VNAMES, rng.randrange(1, 4))
        for vn in names:
            vs.append([vn, rng.choice(VAL_POOL)])
        blocks.append([rng.choice(BNAMES), vs])
    spec = {"type": "LLUDP", "name": rng.choice(NAMES), "blocks": blocks}
    if rng.random() < 0.5:
        spec["packet_id"] = rng.randrange(1, 100)
    if rng.random() < 0.5:
        spec["flags"] = rng.choice((0, 0x40, 0x80, 0x20, 0xC0))
    if rng.random() < 0.3:
        spec["acks"] = [rng.randrange(1, 300) for _ in range(rng.randrange(0, 3))]
    if rng.random() < 0.3:
        spec["extra"] = rng.choice(("", "6162", "00"))
    if rng.random() < 0.3:
        spec["dropped"] = True
    mm = []
    for k in rng.sample(["AgentLocal", "Quux", "Synthetic", "Type", "ObjectID"], rng.randrange(0, 3)):
        mm.append([k, rng.choice(VAL_POOL)])
    spec["msg_meta"] = mm
    em = []
    for k in rng.sample(["AgentLocal", "SelectedLocal", "AgentID", "RegionName", "CurrentSelectedLocal"], rng.randrange(0, 3)):
        em.append([k, rng.choice(VAL_POOL)])
    spec["entry_meta"] = em
    return spec


def gen_other_spec(rng):
    if rng.random() < 0.5:
        spec = {"type": "EQ", "name": rng.choice(NAMES + ["EstablishAgentCommunication"])}
    else:
        spec = {"type": "HTTP", "name": rng.choice(["FakeCap", "Foo", None]),
                "req_headers": rng.choice(([], [["Cookie", "abc"]], [["X-Foo", "ab"], ["Cookie", 'foo="bar"']])),
                "status": rng.choice((200, 404, 0, 256))}
        if rng.random() < 0.3:
            spec["no_resp_headers"] = True
    em = []
    for k in rng.sample(["AgentLocal", "SelectedLocal", "AgentID", "Url", "Synthetic"], rng.randrange(0, 3)):
        em.append([k, rng.choice(VAL_POOL)])
    spec["entry_meta"] = em
    return spec


LIT_POOL = [s for s in VAL_POOL if literal_ok(s)]
ENUMS = [("SculptType", "TORUS"), ("SculptType", "SPHERE"), ("PCode", "AVATAR"), ("Bogus", "X"), ("SculptType", "BOGUS")]
META_NAMES = ["AgentLocal", "Quux", "Synthetic", "Type", "Method", "Acks", "Extra", "Dropped", "Reliable", "Zerocoded", "Resent",
              "SelectedLocal", "AgentID", "RegionName", "CurrentSelectedLocal", "Nope", "Url", "URL", "Host", "Status", "ObjectID"]


def perturb(rng, name):
    r = rng.random()
    if r < 0.55:
        return name
    if r < 0.7:
        return "*"
    if r < 0.8 and name:
        return name[:rng.randrange(0, len(name))] + "*"
    if r < 0.85 and name:
        return "*" + name[rng.randrange(0, len(name)):]
    if r < 0.9 and len(name) > 1:
        i = rng.randrange(1, len(name))
        return name[:i] + "*" + name[i:]
    return rng.choice(NAMES + BNAMES + VNAMES)


def ident_ok(s):
    import re
    return re.fullmatch(r"[a-zA-Z*]([a-zA-Z0-9_*-]+)?", s) is not None


def gen_value(rng, espec, hint=None):
    r = rng.random()
    if r < 0.12:
        n = [rng.choice(META_NAMES)]
        if rng.random() < 0.1:
            n.append("B")
        return ["meta", n]
    if r < 0.2:
        return ["enum"] + list(rng.choice(ENUMS))
    if hint is not None and literal_ok(hint) and rng.random() < 0.45:
        return ["lit", hint]
    return ["lit", rng.choice(LIT_POOL)]


def gen_leaf(rng, espec):
    t = espec["type"]
    name = {"FIXTURE": "ObjectUpdate"}.get(t, espec.get("name") or "Foo")
    r = rng.random()
    op = None if rng.random() < 0.25 else rng.choice(OPS)
    if r < 0.12:
        sel = [perturb(rng, rng.choice([name, t if t != "FIXTURE" else "LLUDP"]))]
        if rng.random() < 0.8:
            return ["leaf", sel, None, None]
        return ["leaf", sel, op or "==", gen_value(rng, espec)]
    if r < 0.35 or t in ("EQ", "HTTP") and r < 0.8:
        sel = ["Meta", rng.choice(META_NAMES)]
        if rng.random() < 0.3:
            sel = ["Meta", rng.choice(["ReqHeaders", "RespHeaders", "reqheaders", "AgentLocal", "Url"]),
                   rng.choice(["cookie", "Cookie", "X-Foo", "header", "nope"])]
        if rng.random() < 0.05:
            sel.append("Deep")
        return ["leaf", sel, op, None if op is None else gen_value(rng, espec)]
    hint = None
    if t == "FIXTURE":
        b, v = rng.choice([("ObjectData", "ObjectData"), ("ObjectData", "ID"), ("RegionData", "TimeDilation"),
                           ("ObjectData", "PCode"), ("ObjectData", "Scale"), ("ObjectData", "NameValue"),
                           ("ObjectData", "TextureEntry"), ("ObjectData", "Text"), ("ObjectData", "FullID")])
        sel = [perturb(rng, name), perturb(rng, b), perturb(rng, v)]
        if rng.random() < 0.5:
            sel.append(perturb(rng, rng.choice(["Position", "Velocity", "Rotation", "FootCollisionPlane", "Nope"])))
            hint = rng.choice([["tuple", [["int", 88], ["int", 41], ["int", 25]]], ["tuple", [["int", 90], ["int", 43], ["int", 27]]],
                               ["tuple", [["int", 0], ["int", 0], ["int", 0]]]])
    else:
        blocks = espec.get("blocks") or [["Bar", [["Baz", ["int", 1]]]]]
        b = rng.choice(blocks)
        v = rng.choice(b[1])
        hint = v[1]
        if hint[0] in ("vec3", "vec4", "quat"):
            hint = ["tuple", [["int", int(float.fromhex(x))] for x in hint[1]]]
        sel = [perturb(rng, name), perturb(rng, b[0]), perturb(rng, v[0])]
        r2 = rng.random()
        if r2 < 0.06:
            sel = sel[:2]
        elif r2 < 0.12:
            sel.append(perturb(rng, "Position"))
    if not all(ident_ok(s) for s in sel):
        sel = [s if ident_ok(s) else "*" for s in sel]
    return ["leaf", sel, op, None if op is None else gen_value(rng, espec, hint)]


def gen_tree(rng, espec, depth):
    if depth == 0 or rng.random() < 0.3:
        return gen_leaf(rng, espec)
    r = rng.random()
    if r < 0.25:
        return ["not", gen_tree(rng, espec, depth - 1)]
    return ["and" if r < 0.62 else "or", gen_tree(rng, espec, depth - 1), gen_tree(rng, espec, depth - 1)]


def all_trees(pool, depth):
    if depth == 0:
        return list(pool)
    sub = all_trees(pool, depth - 1)
    out = list(pool)
    out += [["not", g] for g in sub]
    for a in sub:
        for b in sub:
            out.append(["and", a, b])
            out.append(["or", a, b])
    return out


EXH_ENTRY = {"type": "LLUDP", "name": "Foo", "blocks": [["Bar", [["Baz", ["int", 1]], ["Quux", ["bytes", "616263"]]]],
                                                          ["Bar", [["Baz", ["int", 2]]]]],
             "msg_meta": [], "entry_meta": []}
EXH_LEAVES = [
    ["leaf", ["Foo", "Bar", "*"], None, None],                             # true, several fields
    ["leaf", ["Foo", "Bar", "Baz"], "==", ["lit", ["int", 2]]],           # true, second block
    ["leaf", ["Bar"], None, None],                                         # false
]

FIXED_CASES = [
    # the literal filters of tests/proxy/test_message_filter.py and the defects fixed so far (regressions)
    (["leaf", ["Foo", "Bar", "Baz"], "<", ["lit", ["int", 5]]], {"type": "LLUDP", "name": "Foo", "blocks": [["Bar", [["Baz", ["str", "abc"]]]]]}),
    (["leaf", ["Foo", "Bar", "Baz"], "^=", ["lit", ["str", "a"]]], {"type": "LLUDP", "name": "Foo", "blocks": [["Bar", [["Baz", ["int", 5]]]]]}),
    (["leaf", ["Foo", "Bar", "Baz"], "~=", ["lit", ["int", 256]]], {"type": "LLUDP", "name": "Foo", "blocks": [["Bar", [["Baz", ["bytes", "616263"]]]]]}),
    (["leaf", ["Meta", "AgentLocal"], "&", ["lit", ["int", 4]]], {"type": "LLUDP", "name": "Foo", "blocks": [], "msg_meta": [["AgentLocal", ["int", 6]]]}),
    (["leaf", ["Meta", "AgentLocal"], "&", ["lit", ["int", 1]]], {"type": "EQ", "name": "Foo", "entry_meta": [["AgentLocal", ["int", 6]]]}),
    (["leaf", ["Foo", "Bar", "Baz"], "!=", ["lit", ["tuple", [["int", 0], ["int", 1], ["int", 0]]]]],
     {"type": "LLUDP", "name": "Foo", "blocks": [["Bar", [["Baz", ["vec3", [float(0).hex(), float(1).hex(), float(0).hex()]]]]]]}),
    (["leaf", ["Foo", "Bar", "Baz"], ">=", ["lit", ["int", 1]]], {"type": "LLUDP", "name": "Foo", "blocks": [["Bar", [["Baz", ["int", 1]]]]]}),
    (["leaf", ["ObjectUpdate", "ObjectData", "ObjectData", "Position"], ">", ["lit", ["tuple", [["int", 88], ["int", 41], ["int", 25]]]]], {"type": "FIXTURE"}),
    (["leaf", ["ObjectUpdate", "ObjectData", "ObjectData", "Position"], "<", ["lit", ["tuple", [["int", 90], ["int", 43], ["int", 27]]]]], {"type": "FIXTURE"}),
    (["leaf", ["Meta", "ReqHeaders", "cookie"], "~=", ["lit", ["str", "foo"]]], {"type": "HTTP", "name": "FakeCap", "req_headers": [["Cookie", 'foo="bar"']]}),
    (["and", ["leaf", ["Foo"], None, None], ["or", ["leaf", ["Nope"], None, None], ["leaf", ["Foo", "Bar", "Baz"], "==", ["enum", "SculptType", "TORUS"]]]],
     {"type": "LLUDP", "name": "Foo", "blocks": [["Bar", [["Baz", ["int", 2]]]]]}),
]


def subfield_family():
    """4-part selectors on the parsed ObjectUpdate fixture whose last part selects SEVERAL unpacked subfields of one variable
    (ObjectData.ObjectData = Position/Velocity/Acceleration/Rotation/AngularVelocity, PSBlock = PSys/PData): for every
    pattern x operator x value, so that the deciding subfield is the first, a middle, the last or none of the selected ones."""
    t3 = lambda a, b, c: ["lit", ["tuple", [["int", a], ["int", b], ["int", c]]]]
    vals = [t3(0, 0, 0), t3(88, 41, 25), t3(90, 43, 27), ["lit", ["tuple", [["int", 0], ["int", 0], ["int", 0], ["int", 1]]]],
            ["lit", ["int", 0]], ["lit", ["str", "x"]]]
    pats = ["*", "*ion", "*Velocity", "A*", "V*", "P*", "R*", "*o*", "Position", "Velocity", "Acceleration", "Rotation",
            "AngularVelocity", "Nope", "*Nope"]
    for var, ps in (("ObjectData", pats), ("PSBlock", ["*", "P*", "PSys", "PData", "PD*", "Nope"]), ("TextureEntry", ["*", "Glow"]),
                    ("ExtraParams", ["*"])):
        for pat in ps:
            sel = ["ObjectUpdate", "ObjectData", var, pat]
            yield ["leaf", sel, None, None]
            for op in OPS:
                for v in vals:
                    yield ["leaf", sel, op, v]
    # the same leaves under a connective (the result of a leaf feeds Not/And/Or)
    sel = ["ObjectUpdate", "ObjectData", "ObjectData", "*"]
    z = ["leaf", sel, "==", t3(0, 0, 0)]
    yield ["not", z]
    yield ["and", z, ["leaf", ["ObjectUpdate", "*", "ObjectData", "*ion"], "<", t3(90, 43, 27)]]
    yield ["or", ["leaf", ["Nope"], None, None], z]


def gen_filter_cases(ctx):
    """yields (kind, ast, entry spec)"""
    for f, e in FIXED_CASES:
        yield "fixed", f, e
    for f in subfield_family():
        yield "subfield", f, {"type": "FIXTURE"}
    # vector bounds: every operator against every bound that is below / equal / above the field on each axis independently
    vent = {"type": "LLUDP", "name": "Foo", "blocks": [["Bar", [["Baz", ["vec3", [float(1).hex(), float(2).hex(), float(3).hex()]]],
                                                                 ["Quux", ["vec4", [float(1).hex(), float(2).hex(), float(3).hex(), float(4).hex()]]]]]]}
    for d in itertools.product((-1, 0, 1), repeat=3):
        bound = ["lit", ["tuple", [["int", 1 + d[0]], ["int", 2 + d[1]], ["int", 3 + d[2]]]]]
        for op in OPS:
            yield "vecbound", ["leaf", ["Foo", "Bar", "Baz"], op, bound], vent
        b4 = ["lit", ["tuple", [["int", 1 + d[0]], ["int", 2 + d[1]], ["int", 3 + d[2]], ["int", 4]]]]
        for op in ("<=", ">=", "==", "!=", "<", ">"):
            yield "vecbound", ["leaf", ["Foo", "Bar", "Quux"], op, b4], vent
    for f in all_trees(EXH_LEAVES, ctx.pick(2, 2)):
        yield "exh", f, EXH_ENTRY
    rng = ctx.rng
    n_entries = ctx.pick(160, 2500)
    per = ctx.pick(12, 24)
    for i in range(n_entries):
        r = rng.random()
        if r < 0.1:
            espec = {"type": "FIXTURE"}
        elif r < 0.75:
            espec = gen_udp_spec(rng)
        else:
            espec = gen_other_spec(rng)
        for _ in range(per):
            yield "rand-" + espec["type"], gen_tree(rng, espec, rng.choice((0, 0, 1, 2, 3))), espec


def load_corpus():
    import os
    d = os.path.join(os.path.dirname(os.path.dirname(os.path.dirname(os.path.abspath(__file__)))), "corpus", "C18")
    out = []
    if os.path.isdir(d):
        for fn in sorted(os.listdir(d)):
            if fn.endswith(".json"):
                try:
                    out.append(json.load(open(os.path.join(d, fn))))
                except Exception:
                    pass
    return out


# classes of violations that are recorded as open findings (none at present: everything found so far is fixed in /repo and
# kept as a corpus regression).  Violations of any other class are reported first, so a new failure is what the replay shows.
DOCUMENTED = set()


def dedupe_violations(viols, per_class=3):
    seen = {}
    out = []
    viols = sorted(viols, key=lambda v: v.get("class") in DOCUMENTED)
    for v in viols:
        c = v.get("class")
        seen[c] = seen.get(c, 0) + 1
        if seen[c] <= per_class:
            out.append(v)
    return out


def correspond_filters(ctx):
    res = CorrResult(suite="filter evaluation: parser+nodes+entries vs extracted model",
                     rule="corpus + fixed regression cases; every tree of depth <= 2 over 3 leaves (exhaustive, 1179 trees) on one "
                          "entry; seeded random trees (depth <= 3) with selectors/values aimed at the generated LLUDP (built Messages + the "
                          "parsed ObjectUpdate fixture with subfields) / EQ / HTTP entries.  Each AST is printed, compiled with "
                          "compile_filter, the node tree compared with the AST, and evaluated with short_circuit True and False on the real "
                          "entry; result, matched-field list or exception type are diffed against the extracted eval.  non-trivial = distinct "
                          "(filter, entry) with at least one operator or connective")
    cases = []
    for c in load_corpus():
        if c.get("kind") == "filter":
            cases.append(("corpus", c["ast"], c["entry"]))
    cases += list(gen_filter_cases(ctx))
    lines, kept, impl_obs = [], [], []
    dist = {}
    viols = []
    seen = set()
    skipped = 0
    nontriv = 0
    parse_ok = 0
    for kind, f, espec in cases:
        key = json.dumps([f, espec], sort_keys=True)
        if key in seen:
            continue
        seen.add(key)
        try:
            obs, v, text, prob = check_filter_case(f, espec, ctx.rng if kind.startswith("rand") else None)
            ln = line(["F"] + enc_fexp(f) + enc_entry(mk_entry(espec)))
        except Unencodable:
            skipped += 1
            continue
        viols += v
        if prob is not None:
            # the printed text did not compile to the AST we printed
            res.disagreements.append({"op": "parse", "filter": text, "ast": f, "problem": prob})
            continue
        parse_ok += 1
        dist[kind] = dist.get(kind, 0) + 1
        lines.append(ln)
        kept.append((kind, f, espec, text))
        impl_obs.append(obs)
        if f[0] != "leaf" or f[2] is not None:
            nontriv += 1
    model = ctx.run_driver(lines)
    outcome = {}
    for (kind, f, espec, text), io, mo in zip(kept, impl_obs, model):
        if io.strip() != mo.strip():
            res.disagreements.append({"op": "eval", "filter": text, "ast": f, "entry": espec, "impl": io, "model": mo})
        o = "exc" if "EXC" in io else ("true" if io.startswith("OK 1") else "false")
        outcome[o] = outcome.get(o, 0) + 1
    res.evaluations = 2 * len(lines)
    res.distinct_nontrivial = nontriv
    res.impl_violations = dedupe_violations(viols)
    res.distribution = dict(dist, outcomes=outcome, unencodable_skipped=skipped, parsed_and_tree_equal=parse_ok)
    res.samples = [{"kind": k, "filter": t, "entry_type": e["type"], "impl": io} for (k, f, e, t), io in list(zip(kept, impl_obs))[5:8] + list(zip(kept, impl_obs))[-4:]]
    return res


# --------------------------------------------------------------------------
# concrete syntax: the Coq model of the grammar (Log/FilterSyntax.v: parse / compile / print) vs arpeggio + visitor

def enc_node(n):
    """real node tree -> the driver's fexp encoding (enum references unresolved: A)"""
    from hippolyzer.lib.proxy import message_filter as mf
    if isinstance(n, mf.MessageFilterNode):
        sel = [str(x) for x in n.selector]
        out = ["l"] + enc_str(sel[0]) + [len(sel) - 1]
        for x in sel[1:]:
            out += enc_str(x)
        v = n.value
        if n.operator is None:
            return out + ["-"]
        out += ["+", OPS.index(n.operator)]
        if isinstance(v, mf.LiteralValue):
            return out + ["L"] + enc_pv(v.value)
        if isinstance(v, mf.MetaFieldSpecifier):
            out += ["M", len(v)]
            for x in v:
                out += enc_str(str(x))
            return out
        if isinstance(v, mf.EnumFieldSpecifier):
            return out + ["E"] + enc_str(v.enum_name) + enc_str(v.field_name) + ["A"]
        raise Unencodable("value " + type(v).__name__)
    if isinstance(n, mf.UnaryNotFilterNode):
        return ["n"] + enc_node(n.node)
    if isinstance(n, mf.AndFilterNode):
        return ["a"] + enc_node(n.left_node) + enc_node(n.right_node)
    if isinstance(n, mf.OrFilterNode):
        return ["o"] + enc_node(n.left_node) + enc_node(n.right_node)
    raise Unencodable("node " + type(n).__name__)


def enc_ast_unresolved(f):
    """AST -> the driver's fexp encoding with enum references unresolved (what the model's parser answers)"""
    if f[0] == "leaf" and f[3] is not None and f[3][0] == "enum":
        out = ["l"] + enc_str(f[1][0]) + [len(f[1]) - 1]
        for x in f[1][1:]:
            out += enc_str(x)
        return out + ["+", OPS.index(f[2]), "E"] + enc_str(f[3][1]) + enc_str(f[3][2]) + ["A"]
    if f[0] == "leaf":
        return enc_fexp(f)
    out = [{"not": "n", "and": "a", "or": "o"}[f[0]]]
    for g in f[1:]:
        out += enc_ast_unresolved(g)
    return out


_GRAMMAR = None


def _observe_real(fn, text):
    """-> 'OK <fexp encoding>' | 'REJECT' | None when the result cannot be expressed in the model (inf) """
    import warnings
    try:
        with warnings.catch_warnings():
            warnings.simplefilter("ignore")
            node = fn(text)
    except RecursionError:
        return None
    except Exception:
        return "REJECT"
    try:
        return "OK " + line(enc_node(node))
    except Unencodable:
        return None


def real_compile(text):
    from hippolyzer.lib.proxy.message_filter import compile_filter
    return _observe_real(compile_filter, text)


def real_parse(text):
    """the grammar + visitor without the strip / empty / lone-bang wrapper of compile_filter"""
    from arpeggio import ParserPython, visit_parse_tree
    from hippolyzer.lib.proxy import message_filter as mf

    def run(t):
        return visit_parse_tree(ParserPython(mf.message_filter).parse(t), mf.MessageFilterVisitor())
    return _observe_real(run, text)


SQ3, DQ3 = "'" * 3, '"' * 3


def in_fragment(text):
    """texts on which the Coq parser claims to agree with the real one (see the header of Log/FilterSyntax.v)"""
    if len(text) > 1500:
        return False
    for ch in text:
        o = ord(ch)
        if o > 255 or (o < 32 and o not in (9, 10, 13)):
            return False
    if SQ3 in text or DQ3 in text or "\\N" in text:
        return False
    qs = [i for i in (text.find("'"), text.find('"')) if i >= 0]
    if qs and "\r" in text[min(qs):]:
        return False
    return True


def text_line(cmd, text):
    return line([cmd, len(text)] + [ord(c) for c in text])


HAND_TEXTS = [
    "", " ", "!", " ! ", "*", "!*", "\t*\n", "Foo", "Foo.Bar", "Foo . Bar . Baz", "Foo.Bar.Baz.Quux", "a-b.c_d*", "-a", "a.1", "a.", ".a", "a..b",
    "Foo &&bar", "Foo&&bar", "Foo & & bar", "Foo &bar", "Foo & bar.x", "Foo &bar.x", "Foo && bar.x", "Foo & 1", "Foo & &1", "Foo&1&&Bar", "Foo&&&1",
    "Foo . Bar == 1", "Foo.Bar==1", "Foo.Bar = 1", "Foo.Bar === 1", "Foo >= 1", "Foo > = 1", "Foo >== 1", "Foo => 1", "Foo <= 1", "Foo < 1", "Foo <> 1",
    "Foo != 1", "Foo ! = 1", "Foo ^= 'a'", "Foo $= 'a'", "Foo ~= 'a'", "Foo ~ 'a'", "Foo == 1 Bar", "Foo == 1 == 2", "Foo ==", "== 1", "Foo == == 1",
    "Foo == None", "Foo == Nonesuch.X", "Foo == None.X", "Foo == True", "Foo == Trueish", "Foo == False", "Foo == Falsey.Q", "Foo == true", "Foo == Non",
    "Foo == Metadata.X", "Foo == Meta.X", "Foo == Meta . X . Y", "Foo == Meta", "Foo == Meta.", "Foo == Meta.1", "Foo == Meta.X.", "Foo == MetaX.Y",
    "Meta.X == Meta.Y", "Meta == 1", "Foo == A.B", "Foo == A . B", "Foo == A.B.C", "Foo == A", "Foo == *.*", "Foo == b.c", "Foo == b", "Foo == bb.c",
    "Foo == 0", "Foo == 00", "Foo == 01", "Foo == 007", "Foo == 010.5", "Foo == 01.5", "Foo == 1.", "Foo == 1.5.2", "Foo == .5", "Foo == 1e5", "Foo == 1_000",
    "Foo == 0x1F", "Foo == 0x", "Foo == 0X1F", "Foo == 0xfg", "Foo == 0x00", "Foo == 0xABCDEFabcdef0123456789", "Foo == 1x", "Foo == -1", "Foo == +1",
    "Foo == 0.1", "Foo == 0.5", "Foo == 0.30000000000000004", "Foo == 9007199254740993.0", "Foo == 9007199254740993", "Foo == 0.000001",
    "Foo == 123456789012345678901234567890.5", "Foo == 4.9406564584124654", "Foo == 0.0", "Foo == 00.00", "Foo == 2.5", "Foo == 3.5",
    "Foo == 0.1000000000000000055511151231257827", "Foo == 2.2250738585072011", "Foo == 5.0000000000000001",
    "Foo == 1.00000000000000011102230246251565404236316680908203125", "Foo == 1.00000000000000011102230246251565404236316680908203126",
    "Foo == 1.00000000000000011102230246251565404236316680908203124", "Foo == 1.00000000000000033306690738754696212708950042724609375",
    "Foo == 'a'", "Foo == ''", "Foo == \"\"", "Foo == 'a' 'b'", "Foo == 'a\\'", "Foo == 'a\\\\'", "Foo == 'a\\\\\\''", "Foo == 'a\\'b'", "Foo == \"a\\\"b\"", "Foo == \"a'b\"",
    "Foo == 'a\"b'", "Foo == '\\x41'", "Foo == '\\x4'", "Foo == '\\x4g'", "Foo == '\\xfF'", "Foo == '\\z'", "Foo == '\\101'", "Foo == '\\1'", "Foo == '\\18'", "Foo == '\\128'",
    "Foo == '\\400'", "Foo == '\\777'", "Foo == '\\778'", "Foo == b'\\400'", "Foo == b'\\777'", "Foo == b'\\u1234'", "Foo == '\\u1234'", "Foo == '\\u123'", "Foo == '\\U0001F600'",
    "Foo == '\\U00110000'", "Foo == '\\U0010FFFF'", "Foo == '\\ud800'", "Foo == b'\xe9'", "Foo == '\xe9'", "Foo == b'\\xe9'", "Foo == 'a\tb'", "Foo == 'a\nb'", "Foo == 'a\\\nb'",
    "Foo == '\\a\\b\\f\\n\\r\\t\\v\\0'", "Foo == b'\\a\\b\\f\\n\\r\\t\\v\\0'", "Foo == b'abc", "Foo == 'abc", "Foo == b", "Foo == b.c", "Foo == B'a'", "Foo == r'a'", "Foo == u'a'",
    "Foo == bb'a'", "Foo == b 'a'", "Foo == 'a'b", "Foo == 'a\\", "Foo == '\\", "Foo == '", "Foo == '\\''", "Foo == '\\'", "Foo == '\\\\'", "Foo == 'it''s'",
    "Foo == '\x7f'", "Foo == '\x80\x85\xa0\xad\xff'", "Foo == b'\\Q'", "Foo == '\\Q\\'", "Foo == 'a' && Bar == \"b\"", "Foo == 'a' || Bar", "Foo == '&&'", "Foo == ')' && (Bar)",
    "Foo == (1,2,3)", "Foo == (1, 2, 3)", "Foo == ( 1 , 2 , 3 )", "Foo == (1,2 ,\n3)", "Foo == (1.5,2,3,4)", "Foo == ( 1.5,2,3,4 )", "Foo == (1,2)", "Foo == (1,2,3,4,5)", "Foo == (1,2,3,)",
    "Foo == (1)", "Foo == ()", "Foo == (01,2,3)", "Foo == (00,2,3)", "Foo == (1,2,3", "Foo == (1,,3)", "Foo == (1 2 3)", "Foo == (1,2,x)", "Foo == (1.,2,3)", "Foo == (1,2,3)&&!Bar",
    "Foo == (0.1, 0.2, 0.30000000000000004)", "Foo == (1,2,3).x", "(Foo == (1,2,3))", "Foo == ((1,2,3))",
    "a && b || c", "a || b && c", "a && b && c", "a || b || c", "(a && b) || c", "a && (b || c) && d", "((a))", "(((a)) && ((b)))", "!(a)", "!!a", "! a", "!(!a)", "!(!(a))", "( a )",
    "(a", "a)", "()", "(!)", "a &&", "a && && b", "a | b", "a || | b", "a ||| b", "a &&& b", "&& a", "a b", "a (b)", "(a)(b)", "(a) && (b)", "!(a) || !b", "!a.b.c == 1", "!(a.b.c == 1)",
    "!a && !b || !(c && !d)", "a&&b||c", "a &&b|| c", "a\n&&\tb", "a \r\n || b", "a == 1&&b == 2||c == 3", "(a == 1) && (b == 2 || (c == 3))", "! ( a == 1 )",
    "Foo ==\xa01", "\xa0Foo\xa0", "\x85Foo", "Foo\x85", " \t\r\n Foo \t\r\n ", "Foo == 1 )", "( Foo == 1", "Foo == (1,2,3))", "Foo.Bar.Baz == (1,2,3) && !Quux || (A.B & C.D)",
    "ObjectUpdate.ObjectData.ObjectData.Position > (88, 41, 25)", "Meta.ReqHeaders.cookie ~= 'foo'", "Foo.Bar.Baz == SculptType.TORUS", "*.*.* == 1", "*a*.b-c.d_e == None",
    "Foo.Bar.Baz <= 0x10 || Foo.Bar.Baz >= 0.25", "Foo == 1 || ( Bar != b'\\x00\\xff' && ! Baz.Q ^= \"x\" )", "Foo == 'unterminated && Bar", "Foo == \"mixed' && Bar",
]

MUT_ALPHABET = list(" \t\n()!&|<>=^$~.*-_,'\"\\bxu0179aAfFzeMNT")
MUT_TOKENS = [" ", "  ", "\n", "\t", "(", ")", "!", "&&", "||", "&", "|", "==", "!=", ">=", "<=", ">", "<", "^=", "$=", "~=", "=", ".", ",", "*", "Meta", "Meta.", "None", "True",
              "False", "0x", "0", "1", "1.5", "01", "'", '"', "b'", "\\", "\\'", "\\x", "\\x41", "\\1", "\\u00e9", "''", "(1,2,3)", "(1, 2, 3, 4)", "Foo", ".Bar", "a-b", "A.B", "'a b'"]


def mutate_text(rng, t):
    n = rng.choice((1, 1, 1, 2, 3))
    for _ in range(n):
        r = rng.random()
        i = rng.randrange(0, len(t) + 1)
        if r < 0.25 and t:
            j = min(len(t), i + rng.choice((1, 1, 1, 2, 3)))
            t = t[:i] + t[j:]
        elif r < 0.5:
            t = t[:i] + rng.choice(MUT_TOKENS) + t[i:]
        elif r < 0.7:
            t = t[:i] + rng.choice(MUT_ALPHABET) + t[i:]
        elif r < 0.85 and t:
            i = min(i, len(t) - 1)
            t = t[:i] + rng.choice(MUT_ALPHABET) + t[i + 1:]
        elif len(t) > 2:
            i = rng.randrange(0, len(t) - 1)
            j = rng.randrange(i + 1, len(t))
            k = rng.randrange(j, len(t) + 1)
            t = t[:i] + t[j:k] + t[i:j] + t[k:]
    return t


def random_token_text(rng):
    n = rng.randrange(1, 9)
    return "".join(rng.choice(MUT_TOKENS) for _ in range(n))


HALFWAY = ["1.00000000000000011102230246251565404236316680908203125", "9007199254740993.0", "0.5000000000000000555111512312578270211815834045410156250",
           "4503599627370496.5", "4503599627370497.5", "0.000000000000000000000000000000000000000000000000000000000000001"]


def random_number_text(rng):
    """decimal literals that stress the float rounding of the model (b64_of_dec)"""
    import struct
    r = rng.random()
    if r < 0.3:
        x = rng.random() * 10 ** rng.randrange(-4, 17)
        s = repr(x)
        if "e" in s:
            s = "%.20f" % x
    elif r < 0.5:
        bits = rng.getrandbits(64) & 0x7FFFFFFFFFFFFFFF
        x = struct.unpack("<d", struct.pack("<Q", bits))[0]
        if x != x or x == float("inf") or x > 1e40 or (x != 0 and x < 1e-40):
            x = rng.random()
        s = "%.*f" % (rng.randrange(1, 60), x)
    elif r < 0.7:
        s = "".join(rng.choice("0123456789") for _ in range(rng.randrange(1, 25))) + "." + "".join(rng.choice("0123456789") for _ in range(rng.randrange(1, 25)))
    elif r < 0.85:
        base = rng.choice(HALFWAY)
        s = base[:-1] + rng.choice("0123456789") if rng.random() < 0.5 else base + rng.choice(["", "0", "1", "0000001"])
    else:
        s = str(rng.getrandbits(rng.randrange(1, 200)))
    return "Foo == " + s


def syntax_nontrivial(io):
    return io == "REJECT" or " + " in io or io.startswith(("OK n", "OK a", "OK o"))


def correspond_syntax(ctx):
    res = CorrResult(suite="concrete syntax: Coq model of the PEG grammar + visitor vs arpeggio/compile_filter, and the printer",
                     evaluations=0, distinct_nontrivial=0,
                     rule="(1) every generated filter AST (corpus, fixed, exhaustive depth-2 trees, seeded random trees): the harness printer (rng=None) is "
                          "compared character by character with the extracted FilterSyntax.print whenever FilterSyntax.wf_syntax holds; the canonical "
                          "text and a randomly re-spaced / re-parenthesised / hex variant are parsed by the extracted FilterSyntax.parse and by the real "
                          "grammar (ParserPython(message_filter) + MessageFilterVisitor), and compiled by FilterSyntax.compile and compile_filter; "
                          "(2) mutated texts (character / token insertions, deletions, replacements, transpositions of the printed and hand-written "
                          "texts), random token strings, random decimal literals (float rounding incl. halfway cases) and a hand-written list of edge "
                          "cases go through compile (the hand-written ones also through parse).  Compared: accept / reject and the complete tree "
                          "(selectors, operator, typed literal value with floats as exact fractions, Meta / enum references, Not / And / Or nesting); "
                          "for printed texts additionally that the tree is the AST that was printed.  Texts outside the modelled fragment (triple "
                          "quotes, \\N, control characters, return inside a literal, inf) are counted and left out.  non-trivial = distinct texts that "
                          "are rejected or whose tree has an operator or a connective")
    rng = ctx.rng
    uniq, seen_ast = [], set()
    for f in [c["ast"] for c in load_corpus() if c.get("kind") == "filter"] + [f for _, f, _ in gen_filter_cases(ctx)]:
        k = json.dumps(f)
        if k not in seen_ast:
            seen_ast.add(k)
            uniq.append(f)
    lines, meta = [], []
    dist = {"printer_compared": 0, "printer_wf": 0, "printed_canonical": 0, "printed_variant": 0, "mutated": 0, "token_random": 0, "numbers": 0,
            "hand_written": 0, "outside_fragment": 0, "unencodable": 0}

    def add(cmd, text, src, want=None):
        if not in_fragment(text):
            dist["outside_fragment"] += 1
            return
        lines.append(text_line(cmd, text))
        meta.append((cmd, text, src, want))

    printed = []
    for f in uniq:
        try:
            t0 = print_expr(f, None)
            q = line(["Q"] + enc_fexp(f))
            exp = "OK " + line(enc_ast_unresolved(f))
        except Unencodable:
            dist["unencodable"] += 1
            continue
        lines.append(q)
        meta.append(("Q", t0, "printer", f))
        printed.append(t0)
        add("P", t0, "printed_canonical", exp)
        add("K", t0, "printed_canonical", exp)
        t1 = print_expr(f, rng)
        if t1 != t0:
            pad = rng.choice(["", " ", "\t", "\n "]) if rng.random() < 0.3 else ""
            add("P", pad + t1 + pad, "printed_variant", exp)
            add("K", pad + t1 + pad, "printed_variant", exp)
    for t in HAND_TEXTS:
        add("K", t, "hand_written")
        add("P", t, "hand_written")
    pool = printed + [t for t in HAND_TEXTS if t]
    for _ in range(ctx.pick(2500, 40000)):
        add("K", mutate_text(rng, rng.choice(pool)), "mutated")
    for _ in range(ctx.pick(400, 6000)):
        add("K", random_token_text(rng), "token_random")
    for _ in range(ctx.pick(400, 6000)):
        add("K", random_number_text(rng), "numbers")
    model = ctx.run_driver(lines)
    seen = set()
    nontriv = 0
    outcomes = {"accept": 0, "reject": 0}
    samples = []
    for (cmd, text, src, want), mo in zip(meta, model):
        mo = mo.strip()
        if cmd == "Q":
            parts = mo.split()
            wf_flag, codes = parts[0], parts[2:]
            got = "".join(chr(int(c)) for c in codes)
            dist["printer_compared"] += 1
            if wf_flag == "1":
                dist["printer_wf"] += 1
                if got != text:
                    res.disagreements.append({"op": "syntax-print", "ast": want, "impl": text, "model": got})
            continue
        io = real_compile(text) if cmd == "K" else real_parse(text)
        if io is None:
            dist["outside_fragment"] += 1
            continue
        dist[src] += 1
        if io != mo:
            res.disagreements.append({"op": "syntax", "cmd": cmd, "text": text, "source": src, "impl": io[:600], "model": mo[:600]})
        elif want is not None and io != want:
            res.disagreements.append({"op": "syntax", "cmd": cmd, "text": text, "source": src, "impl": io[:600], "model": mo[:600], "printed_ast": want[:600]})
        outcomes["accept" if io.startswith("OK") else "reject"] += 1
        if (cmd, text) not in seen:
            seen.add((cmd, text))
            if syntax_nontrivial(io):
                nontriv += 1
        if len(samples) < 6 and src in ("mutated", "hand_written") and rng.random() < 0.01:
            samples.append({"text": text, "source": src, "impl": io[:120]})
    res.evaluations = len(meta)
    res.distinct_nontrivial = nontriv
    res.distribution = dict(dist, outcomes=outcomes)
    res.samples = samples
    return res


# --------------------------------------------------------------------------
# logger sequences

LOG_ENTRIES = [
    {"type": "LLUDP", "name": "Foo", "blocks": [["Bar", [["Baz", ["int", 1]]]]]},
    {"type": "LLUDP", "name": "Bar", "blocks": [["Bar", [["Baz", ["bytes", "6162"]]]]]},
    {"type": "EQ", "name": "Foo"},
]
LOG_FILTERS = [
    ["leaf", ["Foo"], None, None],
    ["leaf", ["*", "Bar", "Baz"], None, None],
    ["not", ["leaf", ["Foo"], None, None]],
    # used to raise ValueError on LOG_ENTRIES[1] (fixed ee20324: now simply false) - kept in the `raising` alphabet as a regression
    ["leaf", ["*", "Bar", "Baz"], "~=", ["lit", ["int", 256]]],
    # ill-formed (unknown enum): raises AttributeError on every entry with a Bar.Baz field
    ["leaf", ["*", "Bar", "Baz"], "==", ["enum", "Bogus", "X"]],
]
BAD_FILTER = "Foo.Bar =="


def log_alphabet(raising):
    a = [("L", 0), ("L", 1), ("S", 0), ("S", 1), ("S", 2), ("P", 1), ("P", 0), ("C",)]
    if raising:
        a += [("S", 3), ("S", 4), ("S", None), ("L", 2)]
    return a


class _Memo:
    def __init__(self, real):
        self.real = real
        self.cache = {}

    def __call__(self, s):
        if s not in self.cache:
            try:
                self.cache[s] = (self.real(s), None)
            except Exception as ex:
                self.cache[s] = (None, ex)
        node, ex = self.cache[s]
        if ex is not None:
            raise ex
        return node


def run_logger_impl(maxlen, ops, memo):
    """returns (trace string, violation or None).

    The view clause is checked against a reference computed in plain Python from the operation sequence alone (no state of
    the logger under test and no model output is used): ref_window = the last maxlen entries logged while not paused since the
    last clear; ref_aged = entries that fell out of that window while visible and have matched every filter installed since;
    ref_view = the entries of ref_aged + ref_window that matched when they were logged / when the current filter was installed.
    A set_filter that cannot be compiled, or whose filter raises on a retained entry, changes nothing."""
    import logging
    from hippolyzer.lib.proxy import message_logger as ml
    old = ml.compile_filter
    ml.compile_filter = memo
    lg = logging.getLogger(ml.__name__)
    old_dis = lg.disabled
    lg.disabled = True
    try:
        logger = ml.FilteringMessageLogger(maxlen=maxlen)
        ids = {}
        objs = []
        trace = []
        view_viol = None
        window_viol = None
        raised_in_set = False
        # reference state
        ref_window, ref_aged, ref_view = [], [], []
        ref_paused = False
        ref_filter = memo("")
        for n, o in enumerate(ops):
            skip_obs = False
            if o[0] == "L":
                e = mk_entry(LOG_ENTRIES[o[1]])
                ids[id(e)] = len(objs) + 1
                objs.append(e)
                if not ref_paused:
                    ref_window.append(e)
                    if len(ref_window) > maxlen:
                        gone = ref_window.pop(0)
                        if any(gone is y for y in ref_view):
                            ref_aged.append(gone)
                    if _safe_match(ref_filter, e):
                        ref_view.append(e)
                try:
                    logger.add_log_entry(e)
                except Exception as ex:
                    trace.append("EXC:" + type(ex).__name__)
                    skip_obs = True
            elif o[0] == "S":
                text = BAD_FILTER if o[1] is None else print_expr(LOG_FILTERS[o[1]])
                try:
                    new = memo(text)
                    keep_aged = [x for x in ref_aged if new.match(x)]
                    keep_win = [x for x in ref_window if new.match(x)]
                    ref_filter, ref_aged, ref_view = new, keep_aged, keep_aged + keep_win
                except Exception:
                    pass
                try:
                    logger.set_filter(text)
                except Exception:
                    raised_in_set = raised_in_set or o[1] is not None
            elif o[0] == "P":
                ref_paused = bool(o[1])
                logger.set_paused(bool(o[1]))
            else:
                ref_window, ref_aged, ref_view = [], [], []
                logger.clear()
            if skip_obs:
                continue
            raw_ids = [ids[id(x)] for x in logger._raw_entries]
            view_ids = [ids[id(x)] for x in logger]
            trace.append(",".join(map(str, raw_ids)) + "|" + ",".join(map(str, view_ids)))
            # the property itself: the view is exactly the retained entries matching the current filter, in
            # arrival order, without duplicates
            want = [ids[id(x)] for x in ref_view]
            if view_viol is None and (view_ids != want or len(set(view_ids)) != len(view_ids) or view_ids != sorted(view_ids)):
                view_viol = {"kind": "logger", "maxlen": maxlen, "ops": [list(x) for x in ops[:n + 1]], "view": view_ids, "want": want,
                             "clause": "the view is exactly the retained entries matching the current filter, in arrival order",
                             "class": "set-filter-not-atomic" if raised_in_set else "view-invariant"}
            if window_viol is None and len(raw_ids) > maxlen:
                window_viol = {"kind": "logger", "maxlen": maxlen, "ops": [list(x) for x in ops[:n + 1]], "window": raw_ids,
                               "clause": "the retention window holds at most maxlen entries", "class": "window-exceeds-maxlen"}
        return ";".join(trace), (view_viol or window_viol)
    finally:
        ml.compile_filter = old
        lg.disabled = old_dis


def _safe_match(flt, x):
    try:
        return bool(flt.match(x))
    except Exception:
        return False


def enc_logger_case(maxlen, ops):
    out = ["G", maxlen] + enc_fexp(["leaf", ["*"], None, None]) + [len(ops)]
    n = 0
    for o in ops:
        if o[0] == "L":
            n += 1
            out += ["L", n] + enc_entry(mk_entry(LOG_ENTRIES[o[1]]))
        elif o[0] == "S":
            out += ["S", "-"] if o[1] is None else ["S", "+"] + enc_fexp(LOG_FILTERS[o[1]])
        elif o[0] == "P":
            out += ["P", o[1]]
        else:
            out += ["C"]
    return line(out)


def gen_logger_cases(ctx):
    """yields (kind, maxlen, ops)"""
    for c in load_corpus():
        if c.get("kind") == "logger":
            yield "corpus", c["maxlen"], [tuple(x) for x in c["ops"]]
    depth = ctx.pick(4, 5)
    alpha = log_alphabet(False)
    for maxlen in (1, 2, 3):
        for d in range(1, depth + 1):
            for seq in itertools.product(alpha, repeat=d):
                if d < depth and seq[-1][0] != "L" and d > 1:
                    pass
                yield "exh", maxlen, list(seq)
    rng = ctx.rng
    for i in range(ctx.pick(1500, 30000)):
        raising = rng.random() < 0.3
        alpha = log_alphabet(raising)
        n = rng.randrange(5, 30)
        ops = []
        for _ in range(n):
            ops.append(("L", rng.choice((0, 1, 1, 0, 2) if raising else (0, 1))) if rng.random() < 0.5 else rng.choice(alpha))
        yield ("rand-raising" if raising else "rand"), rng.choice((1, 2, 3)), ops


def correspond_logger(ctx):
    from hippolyzer.lib.proxy.message_filter import compile_filter
    res = CorrResult(suite="FilteringMessageLogger vs extracted model",
                     rule="every sequence up to length %d over {log matching entry, log other entry, set 3 filters, pause, resume, "
                          "clear} for maxlen 1,2,3 (exhaustive), plus seeded random sequences of length 5..29, 30%% of them with a filter "
                          "that raises on some entries, an uncompilable filter and an EQ entry; after every operation the ids in the "
                          "window and in the view are compared with the extracted model; independently of the model, the view is compared "
                          "with a reference view computed in plain Python from the operation sequence alone (last maxlen entries logged "
                          "since the last clear + entries evicted while visible that matched every filter since) and the window length "
                          "is checked against maxlen; non-trivial = distinct sequence with at least one eviction or re-filter" % ctx.pick(4, 5))
    memo = _Memo(compile_filter)
    lines, impl, metas = [], [], []
    seen = set()
    dist = {}
    viols = []
    nontriv = 0
    for kind, maxlen, ops in gen_logger_cases(ctx):
        key = (maxlen, tuple(ops))
        if key in seen:
            continue
        seen.add(key)
        tr, v = run_logger_impl(maxlen, ops, memo)
        if v:
            viols.append(v)
        lines.append(enc_logger_case(maxlen, ops))
        impl.append(tr)
        metas.append((kind, maxlen, ops))
        dist[kind] = dist.get(kind, 0) + 1
        if any(o[0] == "S" for o in ops) or sum(1 for o in ops if o[0] == "L") > maxlen:
            nontriv += 1
    model = ctx.run_driver(lines)
    for (kind, maxlen, ops), io, mo in zip(metas, impl, model):
        if io.strip() != mo.strip():
            res.disagreements.append({"op": "logger", "maxlen": maxlen, "ops": [list(o) for o in ops], "impl": io, "model": mo})
    res.evaluations = len(lines)
    res.distinct_nontrivial = nontriv
    # the observable clause (view) first, the window bound after it; each reported sequence is shrunk
    viols.sort(key=lambda v: v.get("class") == "window-exceeds-maxlen")
    res.impl_violations = [shrink_logger(v) for v in dedupe_violations(viols)]
    res.distribution = dist
    res.exhaustive = False
    res.samples = [{"kind": k, "maxlen": m, "ops": [list(o) for o in ops][:8], "impl": io[:120]} for (k, m, ops), io in list(zip(metas, impl))[300:302] + list(zip(metas, impl))[-2:]]
    return res


# --------------------------------------------------------------------------
# export/import and freeze/thaw (implementation-level oracle only)

def canon(v):
    import uuid
    from hippolyzer.lib.base.datatypes import TupleCoord
    UUID = uuid.UUID
    if isinstance(v, dict):
        return {str(k): canon(x) for k, x in sorted(v.items(), key=lambda kv: str(kv[0]))}
    if isinstance(v, (list, tuple, TupleCoord)):
        return [canon(x) for x in v]
    if isinstance(v, float):
        return ["float", v.hex()]
    if isinstance(v, (bytes, bytearray)):
        return ["bytes", bytes(v).hex()]
    if isinstance(v, UUID):
        return ["uuid", str(v)]
    if isinstance(v, bool):
        return ["bool", v]
    if isinstance(v, int):
        return ["int", int(v)]
    return v


# ---- messages decoded from real wire bytes ---------------------------------

_WIRE = None


class _WireImpl:
    """the real UDP codec; the deserializers are kept alive (lazily parsed messages hold a weak reference)"""

    def __init__(self):
        import logging
        from hippolyzer.lib.base.message.udpserializer import UDPMessageSerializer
        from hippolyzer.lib.base.message.udpdeserializer import UDPMessageDeserializer
        from hippolyzer.lib.base.settings import Settings
        from hippolyzer.lib.base.message.template_dict import DEFAULT_TEMPLATE_DICT
        logging.getLogger("message.udpdeserializer").setLevel(logging.CRITICAL + 1)
        logging.getLogger("message.udpserializer").setLevel(logging.CRITICAL + 1)
        self.ser = UDPMessageSerializer()
        eager, lazy = Settings(), Settings()
        eager.ENABLE_DEFERRED_PACKET_PARSING = False
        lazy.ENABLE_DEFERRED_PACKET_PARSING = True
        self.eager = UDPMessageDeserializer(settings=eager)
        self.lazy = UDPMessageDeserializer(settings=lazy)
        self.templates = DEFAULT_TEMPLATE_DICT.message_templates

    def serialize(self, m):
        try:
            return bytes(self.ser.serialize(m))
        except Exception as ex:
            return "EXC:" + type(ex).__name__


def wire_impl():
    global _WIRE
    if _WIRE is None:
        _WIRE = _WireImpl()
    return _WIRE


F32_POOL = [0.0, 1.0, -1.0, 0.5, 1.5, 128.25, -0.125, 3.4028234663852886e+38, 1e-3]
VAR_PAYLOADS = [b"", b"\x00", b"abc\x00", b"abc", b"Hello World\x00", b"h\xc3\xa9llo\x00", b"\xff\xfe\x00\x01", b"a\x00b\x00",
                b"\x00\x00", bytes(range(40))]


def wire_value(rng, var):
    """a value in the wire domain of a template variable (every MsgType)"""
    import struct
    from hippolyzer.lib.base.datatypes import Vector3, Vector4, Quaternion, UUID
    from hippolyzer.lib.base.message.msgtypes import MsgType as T
    t = var.type
    unsigned = {T.MVT_U8: 8, T.MVT_U16: 16, T.MVT_U32: 32, T.MVT_U64: 64, T.MVT_IP_PORT: 16}
    signed = {T.MVT_S8: 8, T.MVT_S16: 16, T.MVT_S32: 32, T.MVT_S64: 64}

    def f32():
        if rng.random() < 0.6:
            return rng.choice(F32_POOL)
        return struct.unpack("<f", struct.pack("<f", rng.uniform(-1000, 1000)))[0]
    if t in unsigned:
        b = unsigned[t]
        return rng.choice((0, 1, (1 << b) - 1, 1 << (b - 1), rng.getrandbits(b)))
    if t in signed:
        b = signed[t]
        return rng.choice((0, -1, 1, -(1 << (b - 1)), (1 << (b - 1)) - 1, rng.getrandbits(b) - (1 << (b - 1))))
    if t == T.MVT_F32:
        return f32()
    if t == T.MVT_F64:
        return rng.choice((0.0, 0.1, -2.5, 1e300, rng.uniform(-1e6, 1e6)))
    if t == T.MVT_LLVector3:
        return Vector3(f32(), f32(), f32())
    if t == T.MVT_LLVector3d:
        return Vector3(rng.uniform(-1e6, 1e6), 0.1, rng.choice((0.0, 256000.5)))
    if t == T.MVT_LLVector4:
        return Vector4(f32(), f32(), f32(), f32())
    if t == T.MVT_LLQuaternion:
        return rng.choice((Quaternion(0.0, 0.0, 0.0, 1.0), Quaternion(0.5, 0.5, 0.5, 0.5), Quaternion(0.0, 0.7071067690849304, 0.0, 0.7071067690849304),
                           Quaternion(1.0, 0.0, 0.0, 0.0)))
    if t == T.MVT_LLUUID:
        return UUID() if rng.random() < 0.2 else UUID(int=rng.getrandbits(128))
    if t == T.MVT_BOOL:
        return rng.choice((True, False))
    if t == T.MVT_IP_ADDR:
        return ".".join(str(rng.choice((0, 1, 127, 255, rng.getrandbits(8)))) for _ in range(4))
    if t == T.MVT_FIXED:
        return bytes(rng.choice((0, 0, 1, 255, rng.getrandbits(8))) for _ in range(var.size))
    if t == T.MVT_VARIABLE:
        mx = (1 << (8 * var.size)) - 1
        v = rng.choice(VAR_PAYLOADS) if rng.random() < 0.7 else bytes(rng.getrandbits(8) for _ in range(rng.randrange(0, 60)))
        return v[:mx]
    raise ValueError(t)


def wire_message(rng, tmpl, counts, keep, flags, extra, acks):
    """counts: number of blocks per Variable block of the template (by index); keep: number of leading template blocks present"""
    from hippolyzer.lib.base.message.message import Block, Message
    from hippolyzer.lib.base.message.msgtypes import MsgBlockType as BT
    m = Message(tmpl.name, packet_id=rng.choice((0, 1, 2 ** 32 - 1, rng.getrandbits(32), rng.getrandbits(8))), flags=flags)
    for i, tb in enumerate(tmpl.blocks[:keep]):
        n = 1 if tb.block_type == BT.MBT_SINGLE else tb.number if tb.block_type == BT.MBT_MULTIPLE else counts.get(i, 1)
        m.create_block_list(tb.name)
        for _ in range(n):
            m.add_block(Block(tb.name, **{v.name: wire_value(rng, v) for v in tb.variables}))
    if extra:
        m.raw_extra = extra
        m.offset = len(extra)
    if flags & 0x10:
        m.acks = tuple(acks)
    return m


def gen_wire_specs(ctx):
    """yields roundtrip specs {"type": "WIRE", "hex": datagram, "lazy": bool, "tags": [...]} - datagrams produced by the real
    serializer from template-driven messages; the logged message is what the real deserializer decodes from them"""
    from hippolyzer.lib.base.message.msgtypes import MsgBlockType as BT
    im = wire_impl()
    rng = ctx.rng
    names = sorted(im.templates)
    by_pos = {"only": [], "first": [], "middle": [], "last": []}
    for n in names:
        t = im.templates[n]
        for i, b in enumerate(t.blocks):
            if b.block_type == BT.MBT_VARIABLE:
                k = "only" if len(t.blocks) == 1 else "first" if i == 0 else "last" if i == len(t.blocks) - 1 else "middle"
                by_pos[k].append((n, i))
    plan = []
    # structured part: a present-but-empty Variable block list at every position class (first / middle / last / only block of the
    # template), then one and several blocks in the same place
    per = ctx.pick(6, 40)
    for k in ("first", "middle", "last", "only"):
        cands = by_pos[k]
        picks = cands if len(cands) <= per else rng.sample(cands, per)
        for n, i in picks:
            for cnt in (0, 1, 3):
                plan.append((n, {i: cnt}, None, "empty-" + k if cnt == 0 else "n%d-%s" % (cnt, k)))
    plan.append(("ObjectSelect", {1: 0}, None, "empty-last"))
    # trailing blocks omitted
    multi = [n for n in names if len(im.templates[n].blocks) >= 2]
    for n in rng.sample(multi, ctx.pick(10, 80)):
        plan.append((n, {}, rng.randrange(1, len(im.templates[n].blocks)), "trailing-omitted"))
    # random part over the whole template
    for _ in range(ctx.pick(120, 3000)):
        plan.append((rng.choice(names), None, None, "random"))
    flag_cycle = itertools.cycle([16 * x for x in range(16)])
    for n, counts, keep, tag in plan:
        t = im.templates[n]
        if counts is None or tag != "random":
            base = {i: rng.choice((0, 1, 1, 2, 3)) for i, b in enumerate(t.blocks) if b.block_type == BT.MBT_VARIABLE}
            base.update(counts or {})
            counts = base
        flags = next(flag_cycle)
        extra = rng.choice((b"", b"", b"\x01", b"abcd", bytes(rng.getrandbits(8) for _ in range(rng.randrange(1, 12)))))
        acks = [rng.choice((0, 1, 2 ** 32 - 1, rng.getrandbits(32))) for _ in range(rng.choice((0, 1, 2, 5)))]
        try:
            m = wire_message(rng, t, counts, keep if keep is not None else len(t.blocks), flags, extra, acks)
        except Exception:
            continue
        w = im.serialize(m)
        if isinstance(w, str):
            continue
        tags = [tag, "flags%02x" % flags]
        if extra:
            tags.append("extra")
        if flags & 0x10 and acks:
            tags.append("acks")
        if any(c >= 2 for c in counts.values()):
            tags.append("several-blocks")
        if tag == "random" and any(c == 0 for i, c in counts.items() if i < len(t.blocks)):
            tags.append("empty-random")
        yield {"type": "WIRE", "hex": w.hex(), "lazy": rng.random() < 0.4, "tags": tags}


def value_classes(msg):
    return [(bn, i, vn, type(x).__name__) for bn, bl in msg.blocks.items() for i, b in enumerate(bl) for vn, x in b.vars.items()]


_FILTER_MEMO = {}


def wire_filters(msg, limit=4):
    """comparisons a user would type against the variables of a logged message: `== (x, y, z)` on coordinates (`<` a large
    tuple when the components cannot be written as filter literals), `== 'text'` on stringy bytes and text"""
    import re
    from hippolyzer.lib.base.datatypes import TupleCoord, JankStringyBytes
    out = []
    ident = re.compile(r"^[A-Za-z][A-Za-z0-9]*$")
    if not ident.match(msg.name):
        return out
    for bn, bl in msg.blocks.items():
        for b in bl[:1]:
            for vn, x in b.vars.items():
                if not (ident.match(bn) and ident.match(vn)):
                    continue
                sel = "%s.%s.%s" % (msg.name, bn, vn)
                if isinstance(x, TupleCoord) and len(tuple(x)) in (3, 4):
                    comps = [repr(c) for c in x]
                    if all(re.match(r"^\d+(\.\d+)?$", c) for c in comps):
                        out.append((sel + " == (" + ", ".join(comps) + ")", True))
                    else:
                        out.append((sel + " < (" + ", ".join(["4294967296"] * len(comps)) + ")", None))
                elif isinstance(x, (JankStringyBytes, str)):
                    t = str(x)
                    if t and len(t) < 40 and all(32 <= ord(c) < 127 and c not in "'\"\\" for c in t):
                        out.append((sel + " == '" + t + "'", True))
                if len(out) >= limit:
                    return out
    return out


def same_message(stage, key, base, logged_entry, ref, got_entry):
    """since fix 23066bc an imported wire-decoded message IS the logged one: equal under Message.__eq__, value classes
    identical, and filters give the same answer on the logged and on the imported entry.  returns violation or None"""
    from hippolyzer.lib.proxy.message_filter import compile_filter
    msg = got_entry.message
    try:
        eq = (msg == ref) is True
    except Exception as ex:
        eq = "EXC:" + type(ex).__name__
    if eq is not True:
        return dict(base, clause=stage + " preserves the logged message (Message.__eq__)", **{"class": key + "-message-eq"},
                    message=ref.name, got=eq, want=True)
    c0, c1 = value_classes(ref), value_classes(msg)
    if c0 != c1:
        diff = [(a, b) for a, b in zip(c0, c1) if a != b][:4]
        return dict(base, clause=stage + " preserves the class of every value of the logged message", **{"class": key + "-value-classes"},
                    message=ref.name, got=[list(b) for _, b in diff], want=[list(a) for a, _ in diff])
    for text, expect in wire_filters(ref):
        try:
            flt = _FILTER_MEMO.get(text)
            if flt is None:
                flt = _FILTER_MEMO[text] = compile_filter(text)
            a = bool(flt.match(logged_entry, short_circuit=False))
            b = bool(flt.match(got_entry, short_circuit=False))
        except Exception:
            continue
        if a != b:
            return dict(base, clause="a filter gives the same answer on the logged and on the " + stage + "ed entry",
                        **{"class": key + "-filter-differs"}, message=ref.name, filter=text, got=b, want=a)
    return None


def check_wire_roundtrip(espec):
    """A message decoded from wire bytes, logged, frozen/thawed and exported/imported keeps its full dict
    (to_dict(extended=True), tuples/coordinates read as lists, block lists incl. the empty ones) and re-serialises to the
    same datagram.  returns violation or None"""
    from hippolyzer.lib.proxy import message_logger as ml
    im = wire_impl()
    base = {"kind": "roundtrip", "entry": {k: v for k, v in espec.items() if k != "tags"}}
    wire = bytes.fromhex(espec["hex"])
    try:
        ref = im.eager.deserialize(wire)
        d0 = canon(ref.to_dict(extended=True))
    except Exception:
        return None         # not a decodable datagram: outside the clause
    w0 = im.serialize(ref)
    if isinstance(w0, str):
        return None
    blocks0 = list(ref.blocks.keys())

    def diff(stage, msg):
        key = {"freeze/thaw": "freeze-thaw", "to_dict/from_dict": "entry-dict", "export/import": "export-import"}[stage]
        d = canon(msg.to_dict(extended=True))
        if d != d0:
            missing = [b for b in blocks0 if b not in d["body"]]
            cls = key + ("-drops-empty-block-list" if missing and all(d0["body"][b] == [] for b in missing) else "-dict")
            return dict(base, clause=stage + " preserves the logged message (to_dict(extended=True))", **{"class": cls},
                        message=d0["message"], missing_blocks=missing, got=d["body"] if missing else d, want=d0["body"] if missing else d0)
        w = im.serialize(msg)
        if w != w0:
            return dict(base, clause=stage + " preserves the datagram the logged message serialises to", **{"class": key + "-wire"},
                        message=d0["message"], got=w if isinstance(w, str) else w.hex(), want=w0.hex())
        return None
    try:
        subject = (im.lazy if espec.get("lazy") else im.eager).deserialize(wire)
        entry = ml.LLUDPMessageLogEntry(subject, None, None)
        entry.freeze()
        v = diff("freeze/thaw", entry.message)
        if v:
            return v
        # a second thaw gives the same message again
        v = diff("freeze/thaw", entry.message)
        if v:
            return v
        # freezing again keeps it (since fix e4edfe3; the second freeze used to pickle None)
        try:
            entry.freeze()
            again = entry.message
        except Exception as ex:
            return dict(base, clause="freezing an entry twice keeps the logged message", **{"class": "freeze-twice"},
                        message=d0["message"], got="EXC:" + type(ex).__name__)
        v = diff("freeze/thaw", again)
        if v:
            return dict(v, **{"class": "freeze-twice"})
        one = ml.LLUDPMessageLogEntry.from_dict(entry.to_dict())
        v = diff("to_dict/from_dict", one.message) or same_message("to_dict/from_dict", "entry-dict", base, entry, ref, one)
        if v:
            return v
        imp = ml.import_log_entries(ml.export_log_entries([entry]))
        if len(imp) != 1 or not isinstance(imp[0], ml.LLUDPMessageLogEntry):
            return dict(base, clause="export/import preserves the entry", **{"class": "export-import"}, got=repr(imp)[:200])
        v = diff("export/import", imp[0].message) or same_message("export/import", "export-import", base, entry, ref, imp[0])
        if v:
            return v
        if imp[0].name != entry.name or imp[0].type != entry.type or imp[0].seq != entry.seq or imp[0].method != entry.method:
            return dict(base, clause="export/import preserves name/type/seq/method", **{"class": "export-import"},
                        got=[imp[0].name, imp[0].type, imp[0].seq, imp[0].method])
        # exporting the imported entry again is stable
        imp2 = ml.import_log_entries(ml.export_log_entries(imp))
        v = diff("export/import", imp2[0].message)
        if v:
            return v
    except Exception as ex:
        return dict(base, clause="export/import and freeze/thaw do not fail", **{"class": "roundtrip-raised-" + type(ex).__name__},
                    message=d0["message"], got=str(ex)[:200])
    return None


def check_eq_template_roundtrip(espec):
    """a templated message carried over the event queue (LLSDMessageSerializer form): the event survives export/import and
    rebuilding the Message from the imported event gives the message that was sent"""
    from hippolyzer.lib.base.message.llsd_msg_serializer import LLSDMessageSerializer
    from hippolyzer.lib.proxy import message_logger as ml
    im = wire_impl()
    base = {"kind": "roundtrip", "entry": {k: v for k, v in espec.items() if k != "tags"}}
    try:
        ref = im.eager.deserialize(bytes.fromhex(espec["hex"]))
        ser = LLSDMessageSerializer()
        event = ser.serialize(ref, as_dict=True)
        d0 = canon(ref.to_dict())
    except Exception:
        return None
    try:
        entry = ml.EQMessageLogEntry(event, None, None)
        entry.freeze()
        imp = ml.import_log_entries(ml.export_log_entries([entry]))
        if len(imp) != 1 or canon(imp[0].event) != canon(event):
            return dict(base, clause="export/import preserves the logged event", **{"class": "eq-export-import"},
                        got=canon(imp[0].event) if imp else None, want=canon(event))
        back = ser.deserialize(imp[0].event)
        d = canon(back.to_dict())
        if d != d0:
            missing = [b for b in d0["body"] if b not in d["body"]]
            return dict(base, clause="the message rebuilt from the imported event is the message that was sent",
                        **{"class": "eq-rebuild-drops-empty-block-list" if missing else "eq-rebuild-dict"},
                        message=d0["message"], missing_blocks=missing, got=d["body"], want=d0["body"])
    except Exception as ex:
        return dict(base, clause="export/import and freeze/thaw do not fail", **{"class": "roundtrip-raised-" + type(ex).__name__},
                    message=d0["message"], got=str(ex)[:200])
    return None


def check_roundtrip(espec):
    """freeze/thaw and export/import preserve the logged message. returns violation or None"""
    from hippolyzer.lib.proxy import message_logger as ml
    if espec.get("type") == "WIRE":
        return check_wire_roundtrip(espec)
    if espec.get("type") == "WIRE-EQ":
        return check_eq_template_roundtrip(espec)
    base = {"kind": "roundtrip", "entry": espec}
    try:
        entry = mk_entry(espec)
        if isinstance(entry, ml.LLUDPMessageLogEntry):
            d0 = canon(entry.message.to_dict(extended=True))
            summary0 = entry.summary
            entry.freeze()
            d1 = canon(entry.message.to_dict(extended=True))
            if d1 != d0:
                return dict(base, clause="freeze/thaw preserves the logged message", **{"class": "freeze-thaw"}, got=d1, want=d0)
            try:
                entry.freeze()
                d1 = canon(entry.message.to_dict(extended=True))
            except Exception as ex:
                return dict(base, clause="freezing an entry twice keeps the logged message", **{"class": "freeze-twice"},
                            got="EXC:" + type(ex).__name__, want=d0)
            if d1 != d0:
                return dict(base, clause="freezing an entry twice keeps the logged message", **{"class": "freeze-twice"}, got=d1, want=d0)
            imp = ml.import_log_entries(ml.export_log_entries([entry]))
            if len(imp) != 1 or type(imp[0]) is not type(entry):
                return dict(base, clause="export/import preserves the entry", **{"class": "export-import"}, got=repr(imp)[:200])
            d2 = canon(imp[0].message.to_dict(extended=True))
            if d2 != d0 or imp[0].name != entry.name or imp[0].type != entry.type or imp[0].summary != summary0 \
                    or canon(imp[0].meta) != canon(entry.meta):
                only_extra = dict(d2, extra=None) == dict(d0, extra=None) and isinstance(d2.get("extra"), list) \
                    and imp[0].name == entry.name and imp[0].summary == summary0 and canon(imp[0].meta) == canon(entry.meta)
                if only_extra and (d2["extra"] == [] or isinstance(d2["extra"][0], list)):
                    return dict(base, clause="export/import preserves the logged message", **{"class": "export-bytearray-extra"},
                                got={"extra": d2["extra"]}, want={"extra": d0["extra"]})
                return dict(base, clause="export/import preserves the logged message", **{"class": "export-import"}, got=d2, want=d0)
        elif isinstance(entry, ml.EQMessageLogEntry):
            ev0 = canon(entry.event)
            entry.freeze()
            imp = ml.import_log_entries(ml.export_log_entries([entry]))
            if len(imp) != 1 or canon(imp[0].event) != ev0 or imp[0].name != entry.name or canon(imp[0].meta) != canon(entry.meta):
                return dict(base, clause="export/import preserves the logged event", **{"class": "export-import"}, got=repr(imp)[:200])
        else:
            entry.freeze()
            imp = ml.import_log_entries(ml.export_log_entries([entry]))
            a, b = entry.flow, imp[0].flow
            same = (imp[0].name == entry.name and a.request.url == b.request.url and a.request.method == b.request.method
                    and a.request.content == b.request.content and a.response.content == b.response.content
                    and a.response.status_code == b.response.status_code
                    and list(a.request.headers.fields) == list(b.request.headers.fields)
                    and list(a.response.headers.fields) == list(b.response.headers.fields)
                    and canon(imp[0].meta) == canon(entry.meta))
            if not same:
                return dict(base, clause="export/import preserves the logged flow", **{"class": "export-import"}, got=imp[0].name)
    except Exception as ex:
        return dict(base, clause="export/import and freeze/thaw do not fail", **{"class": "roundtrip-raised-" + type(ex).__name__}, got=str(ex)[:200])
    return None


def rt_meta_ok(spec):
    # entry.meta / message.meta values that export can represent: plain LLSD-able values
    return spec[0] in ("none", "bool", "int", "str", "float")


def gen_roundtrip_specs(ctx):
    for c in load_corpus():
        if c.get("kind") == "roundtrip":
            yield c["entry"]
    yield {"type": "FIXTURE"}
    rng = ctx.rng
    # messages decoded from real wire bytes (the form every really logged message has)
    n_eq = 0
    for w in gen_wire_specs(ctx):
        yield w
        if n_eq < ctx.pick(40, 600) and ("empty" in w["tags"][0] or rng.random() < 0.2):
            n_eq += 1
            yield {"type": "WIRE-EQ", "hex": w["hex"], "tags": ["eq-" + w["tags"][0]]}
    for i in range(ctx.pick(300, 6000)):
        if rng.random() < 0.8:
            s = gen_udp_spec(rng)
            s["msg_meta"] = [kv for kv in s["msg_meta"] if rt_meta_ok(kv[1])]
            s["entry_meta"] = []
            if rng.random() < 0.25:
                have = [b[0] for b in s["blocks"]]
                s["empty_blocks"] = [b for b in rng.sample(BNAMES + ["Empty"], rng.randrange(1, 3)) if b not in have]
        else:
            s = gen_other_spec(rng)
            s["entry_meta"] = []
        yield s


def correspond_roundtrip(ctx):
    res = CorrResult(suite="freeze/thaw + export/import (implementation-level oracle)",
                     rule="(a) datagrams produced by the real UDPMessageSerializer from template-driven messages and decoded by the real "
                          "UDPMessageDeserializer (eagerly and lazily parsed): a present-but-empty Variable block list at every position of "
                          "the template (first / middle / last / only block), one and several blocks per list, trailing blocks omitted, "
                          "random messages over the whole template with every variable type (ints, floats, vectors, quaternions, UUIDs, "
                          "IP, Fixed, Variable text/binary = str / JankStringyBytes / bytes), extra header bytes, acks, all 16 flag "
                          "combinations; after freeze/thaw, LLUDPMessageLogEntry.to_dict/from_dict, import_log_entries(export_log_entries) "
                          "(twice) the full to_dict(extended=True) (tuples and coordinate classes read as lists, empty block lists kept) AND "
                          "the re-serialised datagram are compared with those of the logged message, the imported message must equal the "
                          "logged one under Message.__eq__ with identical value classes, filters on its coordinates / texts must answer "
                          "alike on the logged and the imported entry, and a second freeze() must keep the message; the same messages in their event-queue "
                          "form (LLSDMessageSerializer) through EQMessageLogEntry export/import and rebuilt. (b) hand-built Messages (values "
                          "of every Python type incl. None, present-but-empty block lists, message meta), the parsed ObjectUpdate fixture, "
                          "EQ events and HTTP flows: dict before/after. non-trivial = LLUDP entry with at least one block list")
    n = 0
    nt = 0
    viols = []
    dist = {}
    tags = {}
    seen = set()
    for s in gen_roundtrip_specs(ctx):
        k = json.dumps({a: b for a, b in s.items() if a != "tags"}, sort_keys=True)
        if k in seen:
            continue
        seen.add(k)
        n += 1
        dist[s["type"]] = dist.get(s["type"], 0) + 1
        for t in s.get("tags", []):
            t = "flag-combinations" if t.startswith("flags") else t
            tags.setdefault(t, set()).add(s["tags"][1] if t == "flag-combinations" else n)
        if s.get("blocks") or s.get("empty_blocks") or s["type"] in ("FIXTURE", "WIRE", "WIRE-EQ"):
            nt += 1
        v = check_roundtrip(s)
        if v:
            viols.append(v)
    res.evaluations = n
    res.distinct_nontrivial = nt
    res.impl_violations = dedupe_violations(viols)
    res.distribution = dict(dist, wire_tags={t: len(v) for t, v in sorted(tags.items())})
    res.samples = [{"entry": EXH_ENTRY, "ok": check_roundtrip(EXH_ENTRY) is None}]
    return res


# --------------------------------------------------------------------------
# export / import and freeze / thaw: the extracted model (Log/Export.v) against the real code
#
# One typed text encoding is used for Python values, messages and entries on both sides (grammar in coq/ocaml/c18_driver.ml):
# the harness encodes the REAL objects by exact type (the way the notation formatter dispatches), the driver prints the MODEL's
# answers in the same encoding, and the two strings are compared.  A case is stored as its encoding, so it can be replayed.

def _hx(b):
    return bytes(b).hex() if len(b) else "-"


def _f64(x):
    import struct
    return struct.pack(">d", x).hex()


def template_kind(msg_name, block_name, var_name):
    """what LLUDPMessageLogEntry._restore_value_classes reads off the LIVE template for one variable: '2'/'3'/'4'/'q' = the
    coordinate class _COORD_CLASSES gives its type, 's' = Fixed / Variable and not probably_binary, None = nothing to restore
    (message, block or variable unknown, or another type)"""
    from hippolyzer.lib.base import datatypes as dt
    from hippolyzer.lib.base.message.msgtypes import MsgType
    from hippolyzer.lib.base.message.template_dict import DEFAULT_TEMPLATE_DICT
    from hippolyzer.lib.proxy import message_logger as ml
    t = DEFAULT_TEMPLATE_DICT.get_template_by_name(msg_name)
    b = t.block_map.get(block_name) if t else None
    v = b.variable_map.get(var_name) if b else None
    if v is None:
        return None
    coord = getattr(ml.LLUDPMessageLogEntry, "_COORD_CLASSES", None)
    if coord is None:       # the code before fix 23066bc: no restoration at all (the model then disagrees, which is the point)
        coord = {MsgType.MVT_LLVector3: dt.Vector3, MsgType.MVT_LLVector3d: dt.Vector3, MsgType.MVT_LLVector4: dt.Vector4,
                 MsgType.MVT_LLQuaternion: dt.Quaternion}
    if v.type in coord:
        return {dt.Vector2: "2", dt.Vector3: "3", dt.Vector4: "4", dt.Quaternion: "q"}[coord[v.type]]
    if v.type in (MsgType.MVT_FIXED, MsgType.MVT_VARIABLE) and not v.probably_binary:
        return "s"
    return None


class _Tables:
    """repr(float) renderings and (message, block, variable) names met while encoding a case: the model takes repr / float()
    and the template facts as tables"""

    def __init__(self):
        self.reals = {}
        self.names = set()

    def real(self, x):
        k = _f64(x)
        self.reals[k] = repr(x).encode()
        return k

    def text(self):
        facts = []
        for mn, bn, vn in sorted(self.names):
            k = template_kind(mn, bn, vn)
            if k:
                facts.append("%s %s %s %s" % (_hx(mn.encode("utf8")), _hx(bn.encode("utf8")), _hx(vn.encode("utf8")), k))
        return "; " + " ".join("%s %s" % (k, _hx(v)) for k, v in sorted(self.reals.items())) + " ; ; " + " ".join(facts)


def y_enc(v, tb):
    """typed encoding of a real Python value, by exact type; Unencodable for anything the model's value type lacks"""
    import uuid
    from hippolyzer.lib.base import datatypes as dt
    t = type(v)
    if v is None:
        return "N"
    if t is bool:
        return "T" if v else "F"
    if t is int:
        return "I %d" % v
    if t is float:
        if v != v:
            raise Unencodable("nan")
        return "R " + tb.real(v)
    if t is str:
        try:
            return "S " + _hx(v.encode("utf8"))
        except UnicodeEncodeError:
            raise Unencodable("surrogate")
    if t is bytes:
        return "B p " + _hx(v)
    if t is dt.JankStringyBytes:
        return "B j " + _hx(v)
    if t is dt.RawBytes:
        return "B r " + _hx(v)
    if t is bytearray:
        return "B a " + _hx(v)
    if t is dt.UUID:
        return "G h " + v.bytes.hex()
    if t is uuid.UUID:
        return "G s " + v.bytes.hex()
    for cls, k in ((dt.Vector2, "2"), (dt.Vector3, "3"), (dt.Vector4, "4"), (dt.Quaternion, "q")):
        if t is cls:
            xs = list(v.data())
            if not all(type(x) is float and x == x for x in xs):
                raise Unencodable("coord")
            return "C %s %d %s" % (k, len(xs), " ".join(tb.real(x) for x in xs))
    if t is list or t is tuple:
        return " ".join(["L", "l" if t is list else "t", str(len(v))] + [y_enc(x, tb) for x in v])
    if t is dict:
        out = ["M", str(len(v))]
        for k, x in v.items():
            if type(k) is not str:
                raise Unencodable("key")
            out.append(_hx(k.encode("utf8")))
            out.append(y_enc(x, tb))
        return " ".join(out)
    raise Unencodable(t.__name__)


def msg_enc(m, tb):
    """typed encoding of a real Message (the slots to_dict reads)"""
    from hippolyzer.lib.base.message.message import Message
    if type(m) is not Message:
        raise Unencodable("not a Message")
    out = []
    if type(m.name) is not str:
        raise Unencodable("name")
    out.append(_hx(m.name.encode("utf8")))
    blocks = m.blocks
    out.append(str(len(blocks)))
    for bn, bl in blocks.items():
        if type(bn) is not str:
            raise Unencodable("block name")
        out.append(_hx(bn.encode("utf8")))
        out.append(str(len(bl)))
        for b in bl:
            out.append(str(len(b.vars)))
            for k, x in b.vars.items():
                if type(k) is not str:
                    raise Unencodable("var name")
                out.append(_hx(k.encode("utf8")))
                out.append(y_enc(x, tb))
                tb.names.add((m.name, bn, k))
    if m.packet_id is None:
        out.append("-")
    elif type(m.packet_id) is int:
        out.append(str(m.packet_id))
    else:
        raise Unencodable("packet_id")
    if type(m.meta) is not dict or type(m.dropped) is not bool or type(m.synthetic) is not bool:
        raise Unencodable("meta/dropped/synthetic")
    out.append(y_enc(m.meta, tb))
    out.append("1" if m.dropped else "0")
    out.append("1" if m.synthetic else "0")
    if m.direction.name not in ("IN", "OUT"):
        raise Unencodable("direction")
    out.append("I" if m.direction.name == "IN" else "O")
    if not isinstance(m.send_flags, int) or type(m.send_flags) is bool:
        raise Unencodable("send_flags")
    out.append(str(int(m.send_flags)))
    ex = y_enc(m.raw_extra, tb).split(" ")
    if ex[0] != "B":
        raise Unencodable("extra")
    out += ex[1:]
    ak = y_enc(m.acks, tb).split(" ", 1)
    if ak[0] != "L":
        raise Unencodable("acks")
    out.append(ak[1])
    return " ".join(out)


class _Tok:
    def __init__(self, text):
        self.t = text.split()
        self.i = 0

    def next(self):
        self.i += 1
        return self.t[self.i - 1]

    def hex(self):
        h = self.next()
        return b"" if h == "-" else bytes.fromhex(h)


def y_dec(tk):
    """typed encoding -> real Python value"""
    import struct
    import uuid
    from hippolyzer.lib.base import datatypes as dt
    c = tk.next()
    if c == "N":
        return None
    if c in "TF":
        return c == "T"
    if c == "I":
        return int(tk.next())
    if c == "R":
        return struct.unpack(">d", bytes.fromhex(tk.next()))[0]
    if c == "S":
        return tk.hex().decode("utf8")
    if c == "B":
        k = tk.next()
        return {"p": bytes, "j": dt.JankStringyBytes, "r": dt.RawBytes, "a": bytearray}[k](tk.hex())
    if c == "G":
        k = tk.next()
        return (dt.UUID if k == "h" else uuid.UUID)(bytes=tk.hex())
    if c == "C":
        k = tk.next()
        n = int(tk.next())
        xs = [struct.unpack(">d", bytes.fromhex(tk.next()))[0] for _ in range(n)]
        return {"2": dt.Vector2, "3": dt.Vector3, "4": dt.Vector4, "q": dt.Quaternion}[k](*xs)
    if c == "L":
        k = tk.next()
        n = int(tk.next())
        xs = [y_dec(tk) for _ in range(n)]
        return xs if k == "l" else tuple(xs)
    if c == "M":
        n = int(tk.next())
        d = {}
        for _ in range(n):
            k = tk.hex().decode("utf8")
            d[k] = y_dec(tk)
        return d
    raise ValueError("y_dec " + c)


def msg_dec(tk):
    """typed encoding -> real Message, built the way the deserializer / an addon builds one"""
    from hippolyzer.lib.base.message.message import Block, Message
    m = Message(tk.hex().decode("utf8"))
    for _ in range(int(tk.next())):
        bn = tk.hex().decode("utf8")
        m.create_block_list(bn)
        for _ in range(int(tk.next())):
            b = Block(bn)
            for _ in range(int(tk.next())):
                k = tk.hex().decode("utf8")
                b.vars[k] = y_dec(tk)
            b.message_name = m.name
            m.blocks[bn].append(b)
    p = tk.next()
    m.packet_id = None if p == "-" else int(p)
    m.meta = y_dec(tk)
    m.dropped = tk.next() == "1"
    m.synthetic = tk.next() == "1"
    from hippolyzer.lib.base.network.transport import Direction
    m.direction = Direction.IN if tk.next() == "I" else Direction.OUT
    m.send_flags = int(tk.next())
    k = tk.next()
    from hippolyzer.lib.base import datatypes as dt
    m.raw_extra = {"p": bytes, "j": dt.JankStringyBytes, "r": dt.RawBytes, "a": bytearray}[k](tk.hex())
    m.offset = len(m.raw_extra)
    k = tk.next()
    n = int(tk.next())
    xs = [y_dec(tk) for _ in range(n)]
    m.acks = xs if k == "l" else tuple(xs)
    return m


def x_message(spec):
    """spec -> real Message: {"wire": hex, "lazy": bool} is decoded by the real deserializer, {"msg": encoding} is built"""
    if "wire" in spec:
        im = wire_impl()
        return (im.lazy if spec.get("lazy") else im.eager).deserialize(bytes.fromhex(spec["wire"]))
    return msg_dec(_Tok(spec["msg"]))


def _try(fn):
    try:
        return fn()
    except Unencodable:
        raise
    except Exception as ex:
        return "EXC:" + type(ex).__name__


def _err(s):
    return "ERR" if isinstance(s, str) and s.startswith("EXC:") else s


def restore_outside(m):
    """outside the model of the restoration: a coordinate variable holding an array with a component that is not a float
    (float() of it), or a Quaternion variable holding fewer than four (W is then computed with float arithmetic)"""
    from hippolyzer.lib.base.datatypes import TupleCoord
    for bn, bl in m.blocks.items():
        for b in bl:
            for vn, x in b.vars.items():
                k = template_kind(m.name, bn, vn)
                if isinstance(x, TupleCoord):
                    x = list(x)                 # the notation turns a coordinate into an array as well
                if k in ("2", "3", "4", "q") and type(x) in (list, tuple, bytearray) and \
                        (any(type(c) is not float for c in x) or (k == "q" and len(x) < 4)):
                    return True
    return False


def x_msg_impl(spec):
    """the real code on one message: (driver line, [observations])"""
    from hippolyzer.lib.base import llsd
    from hippolyzer.lib.base.message.message import Message
    tb = _Tables()
    m = x_message(spec)
    m.ensure_parsed()
    line_msg = msg_enc(m, tb)
    d = m.to_dict(extended=True)
    o_d = y_enc(d, tb)
    nb = llsd.format_notation(d)
    o_f = _try(lambda: msg_enc(Message.from_dict(d), tb))
    o_p = _try(lambda: msg_enc(Message.from_dict(llsd.parse_notation(nb)), tb))
    o_s = y_enc(m.to_dict(), tb)

    def restored():
        from hippolyzer.lib.proxy import message_logger as ml
        back = Message.from_dict(llsd.parse_notation(nb))
        fn = getattr(ml.LLUDPMessageLogEntry, "_restore_value_classes", None)
        if fn is not None:
            fn(back)
        return back
    o_r = _try(lambda: msg_enc(restored(), tb))
    eq = _try(lambda: "1" if restored() == m else "0")
    if restore_outside(m):
        o_r = "OUTSIDE"
    return "XM " + line_msg + " " + tb.text(), [o_d, _hx(nb), _err(o_f), _err(o_p), o_s, _err(o_r), eq]


X_FIELDS = ["to_dict(extended=True)", "format_notation", "from_dict(to_dict)", "from_dict(parse_notation(format_notation))", "to_dict()",
            "_restore_value_classes(from_dict(parse_notation(format_notation)))"]


# ---- generators ------------------------------------------------------------

X_STRS = ["", "a", "abc", "it's", 'q"\\', "line\nbreak", "héllo", "€", "tab\t", "\U0001f600", "x" * 70, "0", "None"]
X_BYTES = [b"", b"\x00", b"abc", b"abc\x00", b"\xff\xfe", b"a'b\n", bytes(range(256)), b"\x00\x00", b"=", b"ab", b"abcd", b"abcde"]
X_INTS = [0, 1, -1, 5, 255, 256, -128, 2 ** 31 - 1, -2 ** 31, 2 ** 31, 2 ** 32 - 1, 2 ** 63, -2 ** 63, 2 ** 64 - 1, 10 ** 30, -10 ** 30, 7, 10, 100]
X_FLOATS = [0.0, -0.0, 1.0, -1.0, 1.5, 0.1, 1e300, -1e-300, 5e-324, 1.7976931348623157e308, float("inf"), float("-inf"), 128.25,
            3.4028234663852886e38, 1e16, 123456789.125, 1e-7, 2.5e-5]
X_KEYS = ["a", "Baz", "ID", "Name-x", "B_2", "with space", "", "q'k", "k\\", "é", "nl\nkey", "message", "body", "x" * 40]


def x_float(rng):
    import struct
    r = rng.random()
    if r < 0.6:
        return rng.choice(X_FLOATS)
    if r < 0.8:
        return struct.unpack("<f", struct.pack("<f", rng.uniform(-1000, 1000)))[0]
    return rng.uniform(-1e6, 1e6)


def x_uuid_bytes(rng):
    return rng.choice((bytes(16), bytes(range(16)), b"\xff" * 16, rng.getrandbits(128).to_bytes(16, "big")))


def x_value(rng, depth=2, leaf_only=False):
    """a Python value of every class a message variable / meta value can hold"""
    import uuid
    from hippolyzer.lib.base import datatypes as dt
    r = rng.random()
    if depth > 0 and not leaf_only and r < 0.22:
        n = rng.choice((0, 1, 1, 2, 3, 5))
        xs = [x_value(rng, depth - 1) for _ in range(n)]
        return xs if rng.random() < 0.5 else tuple(xs)
    if depth > 0 and not leaf_only and r < 0.3:
        ks = rng.sample(X_KEYS, rng.choice((0, 1, 2, 3)))
        return {k: x_value(rng, depth - 1) for k in ks}
    k = rng.randrange(16)
    if k == 0:
        return None
    if k == 1:
        return rng.random() < 0.5
    if k in (2, 3):
        return rng.choice(X_INTS) if rng.random() < 0.7 else rng.getrandbits(rng.choice((8, 16, 32, 64))) - rng.choice((0, 0, 2 ** 15))
    if k in (4, 5):
        return x_float(rng)
    if k in (6, 7):
        return rng.choice(X_STRS)
    if k == 8:
        return rng.choice(X_BYTES) if rng.random() < 0.7 else bytes(rng.getrandbits(8) for _ in range(rng.randrange(0, 40)))
    if k == 9:
        return dt.JankStringyBytes(rng.choice(X_BYTES))
    if k == 10:
        return rng.choice((dt.RawBytes, bytearray))(rng.choice(X_BYTES))
    if k in (11, 12):
        return (dt.UUID if rng.random() < 0.7 else uuid.UUID)(bytes=x_uuid_bytes(rng))
    if k == 13:
        return dt.Vector3(x_float(rng), x_float(rng), x_float(rng))
    if k == 14:
        return rng.choice((dt.Vector2(x_float(rng), x_float(rng)), dt.Vector4(x_float(rng), x_float(rng), x_float(rng), x_float(rng))))
    return dt.Quaternion(x_float(rng), x_float(rng), x_float(rng), x_float(rng))


def x_hand_message(rng, empties=None):
    """a hand-built Message: every value class, several blocks per list, present-but-empty block lists at the positions in
    `empties` (subset of first / middle / last), meta, flags, extra (bytes or bytearray), acks (tuple or list)"""
    from hippolyzer.lib.base.message.message import Block, Message
    from hippolyzer.lib.base.network.transport import Direction
    m = Message(rng.choice(NAMES + ["", "ObjectUpdate", "Näme"]))
    bnames = rng.sample(BNAMES + ["ObjectData", "E1", "E2", "x y", ""], rng.choice((0, 1, 2, 3, 4)))
    if empties is None:
        empties = [p for p in ("first", "middle", "last") if rng.random() < 0.15]
    plan = [(bn, rng.choice((1, 1, 2, 3))) for bn in bnames]
    if "first" in empties:
        plan.insert(0, ("Empty0", 0))
    if "middle" in empties and len(plan) >= 2:
        plan.insert(len(plan) // 2, ("EmptyM", 0))
    if "last" in empties:
        plan.append(("EmptyZ", 0))
    for bn, n in plan:
        m.create_block_list(bn)
        for _ in range(n):
            b = Block(bn)
            for vn in rng.sample(VNAMES + X_KEYS, rng.choice((0, 1, 2, 3, 5))):
                b.vars[vn] = x_value(rng)
            if rng.random() < 0.02:
                b.vars[rng.choice(("Tail_", "_", "a__"))] = 1     # not a keyword Block() can carry: from_dict raises, wf_msg is false
            b.message_name = m.name
            m.blocks[bn].append(b)
    r = rng.random()
    m.packet_id = None if r < 0.25 else rng.choice((0, 1, 2 ** 32 - 1, rng.getrandbits(32)))
    m.synthetic = m.packet_id is None if rng.random() < 0.8 else rng.random() < 0.5
    m.dropped = rng.random() < 0.3
    m.direction = rng.choice((Direction.IN, Direction.OUT))
    m.send_flags = rng.choice((0, 0x40, 0x80, 0x20, 0x10, 0xC0, 0xF0, 0x100))
    for k in rng.sample(X_KEYS + ["AgentLocal", "ObjectID"], rng.choice((0, 0, 1, 2))):
        m.meta[k] = x_value(rng, 1)
    ex = rng.choice((b"", b"", b"\x01", b"abcd", bytes(rng.getrandbits(8) for _ in range(rng.randrange(1, 12)))))
    m.raw_extra = bytearray(ex) if rng.random() < 0.4 else ex
    m.offset = len(ex)
    acks = [rng.choice((0, 1, 2 ** 32 - 1, rng.getrandbits(32))) for _ in range(rng.choice((0, 0, 1, 2, 5)))]
    m.acks = acks if rng.random() < 0.3 else tuple(acks)
    return m


def x_perturbed_template_message(rng, wire_spec):
    """a wire-decoded message with the values of a few variables replaced by what an addon (or an older export) might have put
    there: arrays of the wrong length or class for a coordinate variable, other bytes classes for a stringy one, the other UUID
    class, nested containers - the restoration must do exactly what its model does, incl. raising"""
    import uuid
    from hippolyzer.lib.base import datatypes as dt
    m = x_message(wire_spec)
    m.ensure_parsed()
    slots = [(bn, i, vn) for bn, bl in m.blocks.items() for i, b in enumerate(bl) for vn in b.vars]
    if not slots:
        return m
    for bn, i, vn in rng.sample(slots, min(len(slots), rng.choice((1, 1, 2, 4)))):
        k = template_kind(m.name, bn, vn)
        if k in ("2", "3", "4", "q"):
            n = rng.choice((0, 1, 2, 3, 4, 5, 3, 4))
            fl = [x_float(rng) for _ in range(n)]
            v = rng.choice((fl, fl, tuple(fl), dt.Vector4(1.0, 2.0, 3.0, 4.0), dt.Vector3(1.0, 2.0, 3.0), dt.Quaternion(0.0, 0.0, 0.0, 1.0),
                            None, 1.5, [fl], b"xyz"))
        elif k == "s":
            raw = rng.choice(X_BYTES)
            v = rng.choice((bytes(raw), bytearray(raw), dt.RawBytes(raw), dt.JankStringyBytes(raw), "text", [1, 2], None))
        else:
            v = rng.choice((uuid.UUID(bytes=x_uuid_bytes(rng)), dt.UUID(bytes=x_uuid_bytes(rng)), [uuid.UUID(int=1), 2.5],
                            (1.5, 2.5, 3.5), [1.5, 2.5, 3.5], b"plain", dt.JankStringyBytes(b"jank"), None, 7, "s"))
        m.blocks[bn][i].vars[vn] = v
    return m


def gen_x_message_specs(ctx):
    """yields (tag, spec)"""
    rng = ctx.rng
    for c in load_corpus():
        if c.get("kind") == "export-model" and c.get("suite") == "msg":
            yield "corpus", c["spec"]
    n = 0
    for w in gen_wire_specs(ctx):
        n += 1
        if n > ctx.pick(260, 3000):
            break
        yield "wire-" + w["tags"][0], {"wire": w["hex"], "lazy": w["lazy"]}
    tb = _Tables()
    wires = [w for w in itertools.islice(gen_wire_specs(ctx), ctx.pick(80, 600))]
    for _ in range(ctx.pick(200, 4000)):
        if not wires:
            break
        w = rng.choice(wires)
        try:
            yield "template-perturbed", {"msg": msg_enc(x_perturbed_template_message(rng, {"wire": w["hex"], "lazy": False}), tb)}
        except Unencodable:
            pass
        except Exception:
            pass
    for pos in (["first"], ["middle"], ["last"], ["first", "last"], ["first", "middle", "last"]):
        for _ in range(ctx.pick(6, 40)):
            try:
                yield "hand-empty-" + "+".join(pos), {"msg": msg_enc(x_hand_message(rng, pos), tb)}
            except Unencodable:
                pass
    for _ in range(ctx.pick(300, 6000)):
        try:
            yield "hand-random", {"msg": msg_enc(x_hand_message(rng), tb)}
        except Unencodable:
            pass


def _x_case(suite, spec, field, model, impl):
    return {"op": "export-model", "suite": suite, "spec": spec, "field": field, "model": model, "impl": impl}


def correspond_x_messages(ctx):
    res = CorrResult(suite="message dict / notation (model vs code)",
                     rule="real Messages - (a) decoded by the real UDPMessageDeserializer (eager and lazy) from datagrams of the live "
                          "template: a present-but-empty Variable block list at the first / middle / last / only position, one and "
                          "several blocks, trailing blocks omitted, every variable type, all flag combinations, extra, acks; (b) hand-built: "
                          "values of every Python class (None, bool, ints beyond 64 bits, floats incl. -0.0 / inf / subnormal, str with "
                          "quotes / backslash / newline / non-ASCII, bytes, JankStringyBytes, RawBytes, bytearray, both UUID classes, "
                          "Vector2/3/4, Quaternion, nested tuples / lists / dicts), empty block lists at every position, empty names, meta, "
                          "bytearray extra, list acks; (c) wire-decoded messages with a few variables replaced by arrays of the wrong "
                          "length / class, other bytes classes, the other UUID class - are encoded by exact type and given to the "
                          "extracted model together with the LIVE template facts of every variable met (coordinate class by "
                          "_COORD_CLASSES, Fixed/Variable and not probably_binary); compared exactly: the "
                          "tree of to_dict(extended=True) and of to_dict(), the BYTES of llsd.format_notation(to_dict), the message "
                          "Message.from_dict(to_dict) builds, the message Message.from_dict(parse_notation(format_notation(to_dict))) "
                          "builds (every slot to_dict reads, value classes included), the message _restore_value_classes makes of it "
                          "(or that it raises); every wire-decoded message must satisfy deser_classes, and whenever the model says "
                          "deser_classes the real Message.__eq__(restored, logged) must hold.  non-trivial = at least one block list")
    lines, want, specs = [], [], []
    dist = {}
    skipped = 0
    for tag, spec in gen_x_message_specs(ctx):
        try:
            line, obs = x_msg_impl(spec)
        except Unencodable:
            skipped += 1
            continue
        except Exception as ex:
            res.disagreements.append(_x_case("msg", spec, "raised", "no exception", "EXC:" + type(ex).__name__))
            continue
        lines.append(line)
        want.append(obs)
        specs.append((tag, spec))
        dist[tag] = dist.get(tag, 0) + 1
    outs = ctx.run_driver(lines) if lines else []
    nt = 0
    flags = {"wf_msg": 0, "plain_msg": 0, "wfn": 0, "deser_classes": 0, "wire": 0, "wire_deser_classes": 0, "restore_outside_model": 0}
    for (tag, spec), obs, out in zip(specs, want, outs):
        parts = out.split(" | ")
        if len(parts) != 9:
            res.disagreements.append(_x_case("msg", spec, "driver", out[:300], "-"))
            continue
        fl = parts[0]
        for i, k in enumerate(("wf_msg", "plain_msg", "wfn")):
            flags[k] += fl[i] == "1"
        flags["deser_classes"] += parts[8] == "1"
        if tag.startswith("wire"):
            flags["wire"] += 1
            flags["wire_deser_classes"] += parts[8] == "1"
        nt += 0 if obs[4].endswith(" M 0") else 1
        model = parts[1:6] + [parts[7]]
        if obs[5] == "OUTSIDE":
            flags["restore_outside_model"] += 1
            model[5] = "OUTSIDE"
        for i in range(6):
            if model[i] != obs[i]:
                res.disagreements.append(_x_case("msg", spec, X_FIELDS[i], model[i][:2000], obs[i][:2000]))
                break
        else:
            # the proved statements, on this instance: well-formed => the notation leg gives norm_msg; with the deserializer's
            # classes the restored message equals the logged one under the real Message.__eq__ (C18_import_exact)
            if fl[0] == "1" and fl[2] == "1" and parts[5] != "ERR" and parts[4] != parts[6]:
                res.disagreements.append(_x_case("msg", spec, "norm_msg", parts[6][:2000], parts[4][:2000]))
            elif fl[0] == "1" and fl[2] == "1" and parts[8] == "1" and obs[6] != "1":
                res.disagreements.append(_x_case("msg", spec, "Message.__eq__(restored, logged)", "1", obs[6]))
            elif tag.startswith("wire") and parts[8] != "1":
                # every message the deserializer builds must satisfy the hypothesis of the exact theorem
                res.disagreements.append(_x_case("msg", spec, "deser_classes of a wire-decoded message", "0", "wire-decoded"))
        if len(res.samples) < 3 and tag.startswith("hand"):
            res.samples.append({"spec": spec, "model": out[:400]})
    res.evaluations = len(lines)
    res.distinct_nontrivial = nt
    res.distribution = dict(dist, skipped_unencodable=skipped, **flags)
    return res


# ---- Message.from_dict on malformed dicts ------------------------------------

X_REQ = ["message", "body"]
X_EXT = ["packet_id", "meta", "dropped", "synthetic", "direction", "send_flags", "extra", "acks"]


def x_mutate_dict(rng, d):
    """one mutation of a to_dict(extended=True) result; returns (mutated dict, expectation): 'ok' = from_dict must accept and
    build what the model builds, 'raises' = from_dict must raise and the model must refuse, 'outside' = Python accepts a
    value the typed model cannot hold (not compared)"""
    import copy
    d = copy.deepcopy(d)
    k = rng.randrange(14)
    if k == 0:
        key = rng.choice(X_REQ)
        d.pop(key, None)
        return d, "raises"
    if k == 1:
        key = rng.choice(X_EXT[1:])
        d.pop(key, None)
        return d, "raises"
    if k == 2:
        d.pop("packet_id", None)                # the short form: the other extended keys are ignored
        return d, "ok"
    if k == 3:
        d["direction"] = rng.choice(("SIDEWAYS", "in", "", "Out"))
        return d, "raises"
    if k == 4:
        d["body"] = rng.choice(([], None, 5, "x"))
        return d, "raises"
    if k == 5 and d["body"]:
        bn = rng.choice(list(d["body"]))
        d["body"][bn] = rng.choice((None, 5, True))
        return d, "raises"
    if k == 6 and d["body"]:
        bn = rng.choice(list(d["body"]))
        d["body"][bn] = list(d["body"][bn]) + [rng.choice((None, 5, [1], "ab"))]
        return d, "raises"
    if k == 7 and d["body"]:
        bn = rng.choice(list(d["body"]))
        d["body"][bn] = tuple(d["body"][bn])    # any iterable of dicts will do
        return d, "ok"
    if k == 8:
        key, val = rng.choice((("dropped", 1), ("synthetic", None), ("packet_id", "7"), ("send_flags", True), ("extra", [1, 2]),
                               ("extra", "ab"), ("acks", None), ("meta", None), ("message", 5), ("direction", 5)))
        d[key] = val
        return d, "outside" if key != "direction" else "raises"
    if k == 9 and d["body"]:
        bn = rng.choice(list(d["body"]))
        if d["body"][bn]:
            blk = dict(d["body"][bn][0])
            blk[rng.choice(("Tail_", "fill_missing", "_"))] = 1
            d["body"][bn] = [blk] + list(d["body"][bn][1:])
            return d, "outside"
    if k == 10:
        d["body"] = dict(d["body"], **{"Added": [], "Added2": [{"V": 1}, {}]})
        return d, "ok"
    if k == 11:
        d["acks"] = list(d.get("acks", ()))
        d["extra"] = bytearray(d.get("extra", b""))
        return d, "ok"
    if k == 12:
        d["unknown_key"] = 1
        return d, "ok"
    return d, "ok"


def correspond_x_from_dict(ctx):
    from hippolyzer.lib.base.message.message import Message
    res = CorrResult(suite="Message.from_dict on valid and malformed dicts (model vs code)",
                     rule="to_dict(extended=True) of generated messages, mutated once: a required or an extended key removed, the "
                          "short form, an unknown direction, body / block list / block of the wrong shape, tuple for list, extra keys, "
                          "added empty and multi-block lists, values the typed model cannot hold (left out, counted under 'outside'); "
                          "expected: the model builds exactly the message the code builds, and refuses exactly when the code raises. "
                          "non-trivial = a mutated dict")
    rng = ctx.rng
    lines, want, specs = [], [], []
    dist = {"ok": 0, "raises": 0, "outside": 0}
    for _ in range(ctx.pick(500, 8000)):
        tb = _Tables()
        try:
            m = x_hand_message(rng)
            try:
                d0 = m.to_dict(extended=True)
            except Exception as ex:
                res.disagreements.append(_x_case("from_dict", {"dict": "N"}, "raised", "no exception", "EXC:" + type(ex).__name__))
                break
            d, exp = x_mutate_dict(rng, d0)
            enc = y_enc(d, tb)
            names = [k for bl in d.get("body", {}).values() if isinstance(bl, (list, tuple)) for b in bl if isinstance(b, dict) for k in b] \
                if isinstance(d.get("body"), dict) else []
            if exp == "ok" and any(isinstance(k, str) and k.endswith("_") for k in names):
                exp = "raises"          # finalize() sends 'Name_' through a subfield serializer that does not exist: KeyError
        except Unencodable:
            continue
        dist[exp] += 1
        if exp == "outside":
            continue
        got = _err(_try(lambda: msg_enc(Message.from_dict(d), tb)))
        if (got == "ERR") != (exp == "raises"):
            res.disagreements.append(_x_case("from_dict", {"dict": enc}, "expectation:" + exp, "-", got[:500]))
            continue
        lines.append("XD " + enc)
        want.append(got)
        specs.append({"dict": enc})
    outs = ctx.run_driver(lines) if lines else []
    for spec, w, o in zip(specs, want, outs):
        if w != o:
            res.disagreements.append(_x_case("from_dict", spec, "from_dict", o[:2000], w[:2000]))
    res.evaluations = len(lines)
    res.distinct_nontrivial = len(lines)
    res.distribution = dist
    res.samples = [{"dict": s["dict"][:300], "model": o[:300]} for s, o in list(zip(specs, outs))[:2]]
    return res


# ---- single values: the formatter's type dispatch and what comes back ----------

def correspond_x_values(ctx):
    from hippolyzer.lib.base import llsd
    res = CorrResult(suite="Python value -> notation -> Python value (model vs code)",
                     rule="generated values of every class nested to depth 3: the bytes of llsd.format_notation(v) against "
                          "fmt_not(tree_of v), parse_notation of those bytes (classes included) against norm v, and `plain v` against "
                          "'the value comes back with the same classes'.  non-trivial = a container or a non-plain class")
    rng = ctx.rng
    lines, want = [], []
    nt = 0
    for _ in range(ctx.pick(700, 12000)):
        tb = _Tables()
        v = x_value(rng, 3)
        try:
            e = y_enc(v, tb)
            nb = llsd.format_notation(v)
            back = y_enc(llsd.parse_notation(nb), tb)
        except Unencodable:
            continue
        except Exception as ex:
            res.disagreements.append(_x_case("value", {"value": e}, "raised", "-", type(ex).__name__))
            continue
        lines.append("XV " + e + " " + tb.text())
        want.append(" | ".join([_hx(nb), back, "1" if back == e else "0"]))
        nt += e[0] in "LMCG" or e.startswith("B j") or e.startswith("B r") or e.startswith("B a")
    outs = ctx.run_driver(lines) if lines else []
    for l, w, o in zip(lines, want, outs):
        if w != o:
            res.disagreements.append(_x_case("value", {"value": l[3:].split(" ;")[0]}, "value", o[:1500], w[:1500]))
    res.evaluations = len(lines)
    res.distinct_nontrivial = nt
    res.samples = [{"line": l[:200], "model": o[:200]} for l, o in list(zip(lines, outs))[:2]]
    return res


# ---- entries: to_dict / from_dict / export_log_entries / import_log_entries -----

X_META_KEYS = ["RegionName", "AgentID", "SessionID", "AgentLocal", "Method", "Type", "SelectedLocal", "SelectedFull"]


def entry_enc(e, tb):
    """typed encoding of a real LLUDP / EQ entry (the fields that survive without region and session) + the summary oracle"""
    from hippolyzer.lib.base import llsd
    from hippolyzer.lib.proxy import message_logger as ml
    out = []
    for v in (e._region_name, e._agent_id, e._summary):
        out.append("-" if v is None else y_enc(v, tb)[:1] + " " + y_enc(v, tb).split(" ")[-1])
    if e._region_name is not None and type(e._region_name) is not str:
        raise Unencodable("region name")
    if e._summary is not None and type(e._summary) is not str:
        raise Unencodable("summary")
    if e._agent_id is not None and not y_enc(e._agent_id, tb).startswith("G "):
        raise Unencodable("agent id")
    out.append(y_enc(e.meta, tb))
    if type(e) is ml.LLUDPMessageLogEntry:
        msg = e.message
        out.append("U " + msg_enc(msg, tb))
        su = msg.to_summary()[:500]
    elif type(e) is ml.EQMessageLogEntry:
        out.append("E " + y_enc(e.event, tb))
        su = llsd.format_notation(e.event["body"]).decode("utf8")[:500]
    else:
        raise Unencodable("entry class")
    return " ".join(out), su


def entry_model_enc(e, tb):
    """the driver's printing of an lentry (no summary oracle)"""
    return entry_enc(e, tb)[0]


def x_entry(rng, payload):
    """a real entry around a Message or an event, with the fields a live region / session would have given it"""
    from hippolyzer.lib.base.datatypes import UUID
    from hippolyzer.lib.base.message.message import Message
    from hippolyzer.lib.proxy import message_logger as ml
    if isinstance(payload, Message):
        e = ml.LLUDPMessageLogEntry(payload, None, None)
    else:
        e = ml.EQMessageLogEntry(payload, None, None)
    if rng.random() < 0.7:
        e._region_name = rng.choice(("Foo Region", "", "Région", "it's"))
        e.meta["RegionName"] = e._region_name
    if rng.random() < 0.7:
        e._agent_id = UUID(bytes=x_uuid_bytes(rng))
        e.meta["AgentID"] = e._agent_id
    if rng.random() < 0.6:
        e.meta["SessionID"] = UUID(bytes=x_uuid_bytes(rng))
    if rng.random() < 0.5:
        e.meta["AgentLocal"] = rng.choice((0, 1, 2 ** 32 - 1, rng.getrandbits(32)))
    if rng.random() < 0.4:
        e.meta["SelectedLocal"] = rng.getrandbits(32)
        e.meta["SelectedFull"] = rng.choice((None, UUID(bytes=x_uuid_bytes(rng))))
    if rng.random() < 0.2:
        e._summary = rng.choice(("", "cached summary", "it's é"))
    r = rng.random()
    if r < 0.04:
        del e.meta[rng.choice(("AgentID", "SelectedFull", "SessionID"))]        # KeyError in to_dict
    elif r < 0.08:
        e.meta["Extra"] = rng.choice((1, "x", None))                            # an added plain key survives
    elif r < 0.12:
        del e.meta[rng.choice(("AgentLocal", "Method", "RegionName", "Type"))]  # comes back from the constructor's dict
    elif r < 0.18:
        ks = list(e.meta)
        rng.shuffle(ks)
        e.meta = {k: e.meta[k] for k in ks}                                     # update() keeps the constructor's order
    elif r < 0.30:
        # values other than None / UUID under a UUID-valued key: falsy ones are left alone (`if meta[key]`), a str is taken for
        # the text of a UUID (only values repr / literal_eval can carry)
        e.meta[rng.choice(("AgentID", "SelectedFull", "SessionID"))] = rng.choice(
            (0, 0.0, -0.0, "", b"", [], (), {}, False, "00000000-0000-0000-0000-0000000000ff", "abc",
             "ABCDEF00-0000-0000-0000-000000000001", "0000000g-0000-0000-0000-000000000001"))
    return e


def x_event(rng):
    body = x_value(rng, 2) if rng.random() < 0.3 else {k: x_value(rng, 2) for k in rng.sample(X_KEYS, rng.choice((0, 1, 2, 4)))}
    return {"message": rng.choice(("EstablishAgentCommunication", "ParcelProperties", "X", "")), "body": body}


def x_entry_from_spec(s):
    """{"payload": {"wire"|"msg"|"event": ...}, "fields": typed dict encoding of the entry fields} -> real entry"""
    from hippolyzer.lib.proxy import message_logger as ml
    p = s["payload"]
    e = ml.EQMessageLogEntry(y_dec(_Tok(p["event"])), None, None) if "event" in p else ml.LLUDPMessageLogEntry(x_message(p), None, None)
    f = y_dec(_Tok(s["fields"]))
    e._region_name, e._agent_id, e._summary = f["region_name"], f["agent_id"], f["summary"]
    e.meta = f["meta"]
    if s.get("frozen"):
        e.freeze()              # export then works on the thawed snapshot (C18_frozen_export)
    return e


def x_entry_spec(e, payload_spec, tb):
    return {"payload": payload_spec,
            "fields": y_enc({"region_name": e._region_name, "agent_id": e._agent_id, "summary": e._summary, "meta": e.meta}, tb)}


def x_entries_impl(specs):
    """the real code on a list of entries: (driver line, per-entry observations [to_dict, from_dict(to_dict), imported])"""
    from hippolyzer.lib.proxy import message_logger as ml
    tb = _Tables()
    entries = [x_entry_from_spec(s) for s in specs]
    encs = []
    for e in entries:
        if type(e) is ml.LLUDPMessageLogEntry:
            e.message.ensure_parsed()
            if restore_outside(e.message):
                raise Unencodable("restoration outside the model")
        enc, su = entry_enc(e, tb)
        encs.append(enc + " " + _hx(su.encode("utf8")))
    obs = []
    for e in entries:
        d = _try(lambda: e.to_dict())
        if isinstance(d, str):
            obs.append(["ERR", "ERR"])
            continue
        o_d = y_enc(d, tb)
        o_i = _err(_try(lambda: entry_model_enc(type(e).from_dict(dict(d)), tb)))
        obs.append([o_d, o_i])
    imp = _try(lambda: ml.import_log_entries(ml.export_log_entries(entries)))
    if isinstance(imp, str) or len(imp) != len(entries):
        imported = ["ERR"] * len(entries)
    else:
        imported = [_err(_try(lambda x=x: entry_model_enc(x, tb))) for x in imp]
    for o, i in zip(obs, imported):
        o.append(i)
    return "XE %d %s %s" % (len(encs), " ".join(encs), tb.text()), obs


X_EFIELDS = ["entry.to_dict()", "cls.from_dict(entry.to_dict())", "import_log_entries(export_log_entries(entries))"]


def gen_x_entry_lists(ctx):
    rng = ctx.rng
    for c in load_corpus():
        if c.get("kind") == "export-model" and c.get("suite") == "entries":
            yield c["spec"]
    wires = []
    for w in gen_wire_specs(ctx):
        wires.append({"wire": w["hex"], "lazy": w["lazy"]})
        if len(wires) >= ctx.pick(120, 1500):
            break
    tb = _Tables()
    for _ in range(ctx.pick(220, 4000)):
        n = rng.choice((1, 1, 1, 2, 3, 5, 0))
        specs = []
        for _ in range(n):
            try:
                r = rng.random()
                if r < 0.35 and wires:
                    ps = rng.choice(wires)
                    payload = x_message(ps)
                elif r < 0.45 and wires:
                    payload = x_perturbed_template_message(rng, dict(rng.choice(wires), lazy=False))
                    ps = {"msg": msg_enc(payload, tb)}
                elif r < 0.75:
                    payload = x_hand_message(rng)
                    ps = {"msg": msg_enc(payload, tb)}
                else:
                    payload = x_event(rng)
                    ps = {"event": y_enc(payload, tb)}
                sp = x_entry_spec(x_entry(rng, payload), ps, tb)
                if rng.random() < 0.4:
                    sp["frozen"] = True
                specs.append(sp)
            except Unencodable:
                continue
        yield specs


def correspond_x_entries(ctx):
    res = CorrResult(suite="entry export / import (model vs code)",
                     rule="lists of 0..5 real LLUDPMessageLogEntry / EQMessageLogEntry objects (wire-decoded and hand-built messages, "
                          "generated events) with region name, agent id, session id, selected object, local ids and a cached summary "
                          "set or unset, sometimes a missing meta key or an added one, 40% frozen before the export: per entry the dict entry.to_dict() returns "
                          "(the notation bytes of the message inside it), the entry cls.from_dict builds from it, and the entry the "
                          "real import_log_entries(export_log_entries(list)) returns (real repr / literal_eval / gzip) against "
                          "norm_entry - all fields, value classes included.  non-trivial = a non-empty list")
    lines, want, specs = [], [], []
    skipped = 0
    for sl in gen_x_entry_lists(ctx):
        try:
            line, obs = x_entries_impl(sl)
        except Unencodable:
            skipped += 1
            continue
        except Exception as ex:
            res.disagreements.append(_x_case("entries", sl, "raised", "no exception", "EXC:" + type(ex).__name__))
            continue
        lines.append(line)
        want.append(obs)
        specs.append(sl)
    outs = ctx.run_driver(lines) if lines else []
    n_entries = ok = std = 0
    for sl, obs, out in zip(specs, want, outs):
        per = out.split(" || ") if out else []
        if len(per) != len(obs):
            res.disagreements.append(_x_case("entries", sl, "driver", out[:300], str(len(obs))))
            continue
        # export_log_entries raises as a whole when one entry's to_dict does (mapM in the model)
        whole_fails = any("ERR" in o.split(" | ")[1:3] for o in per)
        for o, w in zip(per, obs):
            parts = o.split(" | ")
            n_entries += 1
            ok += parts[0][0] == "1"
            std += parts[0][1] == "1"
            bad = None
            model = [parts[1], parts[2], "ERR" if whole_fails else parts[2]]
            for i in range(3):
                if model[i] != w[i]:
                    bad = _x_case("entries", sl, X_EFIELDS[i], model[i][:2000], w[i][:2000])
                    break
            if bad is None and parts[0][0] == "1" and parts[2] != parts[3]:
                bad = _x_case("entries", sl, "norm_entry", parts[3][:2000], parts[2][:2000])     # the proved statement, on this instance
            if bad:
                res.disagreements.append(bad)
                break
    res.evaluations = len(lines)
    res.distinct_nontrivial = sum(1 for s in specs if s)
    res.distribution = {"entries": n_entries, "entry_ok": ok, "std_meta": std, "skipped_unencodable": skipped,
                        "frozen_before_export": sum(1 for sl in specs for x in sl if x.get("frozen"))}
    try:
        obs = measure_class_loss(ctx)
        res.distribution["observed_on_live_code"] = obs
        ctx.notes.append("export/import on the live code: Message.__eq__ tells the imported message from the logged one for %d of %d "
                         "wire-decoded messages (0 since fix 23066bc; asserted per message by the impl-level oracle); a hand-built "
                         "message OUTSIDE the template still comes back in normal form only (C18_dict_classes_lost_refuted), filters "
                         "[logged, imported]: %s; a second freeze() keeps the message: %s (fix e4edfe3, C18_freeze_idempotent)"
                         % (obs["message_eq_false_after_import"], obs["wire_messages"], obs["filters_logged_vs_imported"],
                            obs["second_freeze_keeps_message"]))
    except Exception:
        pass
    res.samples = [{"entries": len(s), "model": o[:300]} for s, o in list(zip(specs, outs))[:2]]
    return res


# ---- the freeze / thaw state machine ------------------------------------------

def probe_repickle():
    """does freeze() pickle the message it has just resolved (True) or self._message (False: a second freeze loses it)?"""
    from hippolyzer.lib.base.message.message import Block, Message
    from hippolyzer.lib.proxy import message_logger as ml
    e = ml.LLUDPMessageLogEntry(Message("Probe", Block("B", V=1)), None, None)
    try:
        e.freeze()
        e.freeze()
        return e.message.name == "Probe"
    except Exception:
        return False


def x_versions(rng):
    """versions of ONE live message: the fields an addon or the proxy changes after logging"""
    vs = [{"name": "Foo", "pid": 1, "dir": "OUT", "val": 1}]
    for _ in range(rng.choice((1, 2, 3))):
        v = dict(rng.choice(vs))
        k = rng.choice(("name", "pid", "dir", "val"))
        v[k] = {"name": rng.choice(("Foo", "Bar", "Baz")), "pid": rng.choice((None, 1, 2, 7)), "dir": rng.choice(("IN", "OUT")),
                "val": rng.choice((1, 2, "s"))}[k]
        if v not in vs:
            vs.append(v)
    return vs


def x_apply_version(m, v):
    from hippolyzer.lib.base.network.transport import Direction
    m.name = v["name"]
    m.packet_id = v["pid"]
    m.direction = Direction[v["dir"]]
    m["Bar"][0]["V"] = v["val"]


def x_freeze_impl(spec):
    """ops on a real entry around a live message; returns (driver line, observations)"""
    from hippolyzer.lib.base.message.message import Block, Message
    from hippolyzer.lib.proxy import message_logger as ml
    tb = _Tables()
    vs = spec["versions"]
    encs = []
    for v in vs:
        t = Message("x", Block("Bar", V=0), packet_id=0)
        x_apply_version(t, v)
        encs.append(msg_enc(t, tb))
    live = Message("x", Block("Bar", V=0), packet_id=0)
    x_apply_version(live, vs[0])
    e = ml.LLUDPMessageLogEntry(live, None, None)
    obs = []
    for op in spec["ops"]:
        if op[0] == "m":
            x_apply_version(live, vs[op[1]])
            obs.append("-")
        elif op[0] == "f":
            r = _try(lambda: e.freeze())
            obs.append("EXC" if isinstance(r, str) else "ok")
        elif op[0] == "o":
            r = _try(lambda: "%s %s %s" % (_hx(e.name.encode()), _hx(e.method.encode()), "-" if e.seq is None else e.seq))
            obs.append("EXC" if r.startswith("EXC:") else r)
        else:
            r = _try(lambda: msg_enc(e.message, tb))
            obs.append("EXC" if r.startswith("EXC:") else str(encs.index(r)) if r in encs else "?" + r[:80])
    line = "XF %d %d %s %d %s" % (1 if spec["repickle"] else 0, len(encs), " ".join(encs), len(spec["ops"]),
                                  " ".join("m %d" % o[1] if o[0] == "m" else o[0] for o in spec["ops"]))
    return line, ";".join(obs)


def gen_x_freeze_specs(ctx):
    rng = ctx.rng
    rp = probe_repickle()
    for c in load_corpus():
        if c.get("kind") == "export-model" and c.get("suite") == "freeze":
            yield dict(c["spec"], repickle=rp)
    # exhaustive short scripts over {mutate to v1, freeze, read properties, read message}, two versions
    import itertools as it
    two = [{"name": "Foo", "pid": 1, "dir": "OUT", "val": 1}, {"name": "Bar", "pid": 2, "dir": "IN", "val": 2}]
    alpha = [["m", 1], ["m", 0], ["f"], ["o"], ["w"]]
    for n in range(1, ctx.pick(5, 6)):
        for ops in it.product(alpha, repeat=n):
            if ["f"] in ops:
                yield {"versions": two, "ops": [list(o) for o in ops] + [["o"], ["w"]], "repickle": rp}
    for _ in range(ctx.pick(150, 3000)):
        vs = x_versions(rng)
        ops = []
        for _ in range(rng.randrange(2, 12)):
            r = rng.random()
            ops.append(["m", rng.randrange(len(vs))] if r < 0.35 else ["f"] if r < 0.55 else ["o"] if r < 0.8 else ["w"])
        yield {"versions": vs, "ops": ops, "repickle": rp}


def correspond_x_freeze(ctx):
    res = CorrResult(suite="freeze / thaw machine (model vs code)",
                     rule="a real LLUDPMessageLogEntry around a live Message; scripts over {change name / packet id / direction / a "
                          "variable of the LIVE message, freeze(), read name+method+seq, read .message}: all scripts up to length 4 "
                          "(5 thorough) with a freeze over two versions, then random ones up to 11 steps over up to 4 versions; every "
                          "step's observation (which version .message shows or that it raises; the three properties) against the model "
                          "driven with the probed freeze variant.  non-trivial = the live message changes after a freeze or freeze twice")
    lines, want, specs = [], [], []
    nt = 0
    for s in gen_x_freeze_specs(ctx):
        try:
            line, obs = x_freeze_impl(s)
        except Exception as ex:
            res.disagreements.append(_x_case("freeze", {k: v for k, v in s.items() if k != "repickle"}, "raised", "no exception",
                                             "EXC:" + type(ex).__name__))
            continue
        lines.append(line)
        want.append(obs)
        specs.append(s)
        kinds = [o[0] for o in s["ops"]]
        if kinds.count("f") >= 2 or ("f" in kinds and "m" in kinds[kinds.index("f"):]):
            nt += 1
    outs = ctx.run_driver(lines) if lines else []
    for s, w, o in zip(specs, want, outs):
        if w != o:
            res.disagreements.append(_x_case("freeze", {k: v for k, v in s.items() if k != "repickle"}, "observations", o, w))
    res.evaluations = len(lines)
    res.distinct_nontrivial = nt
    res.distribution = {"repickle_probed": bool(specs and specs[0]["repickle"])}
    res.samples = [{"spec": s, "model": o} for s, o in list(zip(specs, outs))[:2]]
    return res


def measure_class_loss(ctx):
    """What the proved normal form means on the live code (reported in the evidence, not a verdict): for wire-decoded messages,
    how often Message.__eq__ tells the imported message from the logged one, and whether a filter does"""
    from hippolyzer.lib.proxy import message_logger as ml
    from hippolyzer.lib.proxy.message_filter import compile_filter
    im = wire_impl()
    n = ne = 0
    for w in gen_wire_specs(ctx):
        if n >= 60:
            break
        try:
            msg = im.eager.deserialize(bytes.fromhex(w["hex"]))
            e = ml.LLUDPMessageLogEntry(msg, None, None)
            imp = ml.import_log_entries(ml.export_log_entries([e]))[0]
            n += 1
            ne += not (imp.message == e.message)
        except Exception:
            continue
    filt = None
    try:
        from hippolyzer.lib.base.datatypes import Vector3, JankStringyBytes
        from hippolyzer.lib.base.message.message import Block, Message
        e = ml.LLUDPMessageLogEntry(Message("Foo", Block("Bar", V=Vector3(1, 2, 3), J=JankStringyBytes(b"abc\x00"))), None, None)
        imp = ml.import_log_entries(ml.export_log_entries([e]))[0]
        filt = {f: [bool(compile_filter(f).match(x, short_circuit=False)) for x in (e, imp)]
                for f in ("Foo.Bar.V == (1.0, 2.0, 3.0)", "Foo.Bar.V < (2.0, 3.0, 4.0)", "Foo.Bar.J == 'abc'")}
    except Exception:
        pass
    return {"wire_messages": n, "message_eq_false_after_import": ne, "filters_logged_vs_imported": filt,
            "second_freeze_keeps_message": probe_repickle()}


def x_replay(case, ctx=None):
    """re-runs the real code on a stored export-model case and compares with the recorded model answer"""
    suite, spec, field = case["suite"], case["spec"], case["field"]
    if field == "raised":
        try:
            if suite == "msg":
                x_msg_impl(spec)
            elif suite == "entries":
                x_entries_impl(spec)
            elif suite == "freeze":
                x_freeze_impl(dict(spec, repickle=probe_repickle()))
            else:
                return True, case.get("impl")
            return False, "holds"
        except Unencodable:
            return False, "holds"
        except Exception as ex:
            return True, "EXC:" + type(ex).__name__
    try:
        if suite == "msg":
            _, obs = x_msg_impl(spec)
            i = X_FIELDS.index(field) if field in X_FIELDS else 3
            got = obs[i]
        elif suite == "from_dict":
            from hippolyzer.lib.base.message.message import Message
            tb = _Tables()
            d = y_dec(_Tok(spec["dict"]))
            got = _err(_try(lambda: msg_enc(Message.from_dict(d), tb)))
            if field.startswith("expectation:"):
                return ((got == "ERR") != (field == "expectation:raises")), got[:500]
        elif suite == "value":
            from hippolyzer.lib.base import llsd
            tb = _Tables()
            v = y_dec(_Tok(spec["value"]))
            e = y_enc(v, tb)
            nb = llsd.format_notation(v)
            back = y_enc(llsd.parse_notation(nb), tb)
            got = " | ".join([_hx(nb), back, "1" if back == e else "0"])
        elif suite == "entries":
            _, obs = x_entries_impl(spec)
            i = X_EFIELDS.index(field) if field in X_EFIELDS else 2
            got = None
            for w in obs:
                if w[i][:2000] == case["impl"]:
                    got = w[i]
            if got is None:
                return False, "holds"
            return got[:2000] != case["model"], got[:500]
        elif suite == "freeze":
            _, got = x_freeze_impl(dict(spec, repickle=probe_repickle()))
        else:
            return False, "unknown suite"
    except Unencodable as ex:
        return True, "unencodable: %s" % ex
    return got[:2000] != case["model"], got[:500]


def _guarded(fn, ctx):
    """a failure of the harness itself inside one model-vs-code suite is reported as that suite's disagreement and does not hide
    what the other suites found"""
    try:
        return fn(ctx)
    except Exception:
        import traceback
        return CorrResult(suite=fn.__name__ + " (harness failure)", evaluations=0, distinct_nontrivial=0,
                          disagreements=[{"op": "harness-failure", "suite": fn.__name__, "trace": traceback.format_exc()[-1200:]}],
                          rule="the suite raised before it could compare anything")


def correspond(ctx):
    return [correspond_filters(ctx), correspond_syntax(ctx), correspond_logger(ctx), correspond_roundtrip(ctx),
            _guarded(correspond_x_messages, ctx), _guarded(correspond_x_from_dict, ctx), _guarded(correspond_x_values, ctx),
            _guarded(correspond_x_entries, ctx), _guarded(correspond_x_freeze, ctx)]


# --------------------------------------------------------------------------
# impl-level oracle entry points

def _known_classes():
    """classes of recorded (not fixed) findings - the search looks for something new first"""
    import os
    p = os.path.join(os.path.dirname(os.path.dirname(os.path.dirname(os.path.abspath(__file__)))), "known_findings.json")
    try:
        data = json.load(open(p))
    except Exception:
        return set()
    return {f.get("match", {}).get("class") for f in data.get("findings", [])
            if f.get("property") == PROP_ID and f.get("status") != "fixed"} - {None}


def check_case(case, skip=()):
    """re-evaluates the property's clauses on one case; returns a violation dict or None"""
    k = case.get("kind")
    if k == "filter":
        try:
            _, v, _, prob = check_filter_case(case["ast"], case["entry"])
        except Unencodable:
            return None
        if prob is not None and not v:
            return dict(case, clause="the printed filter compiles to the tree it denotes", **{"class": "parse-tree-mismatch"}, got=str(prob)[:300])
        want = case.get("class")
        v = [x for x in v if x.get("class") not in skip]
        for x in v:
            if want is None or x.get("class") == want:
                return x
        return v[0] if v else None
    if k == "logger":
        from hippolyzer.lib.proxy.message_filter import compile_filter
        _, v = run_logger_impl(case["maxlen"], [tuple(o) for o in case["ops"]], _Memo(compile_filter))
        return v if v and v.get("class") not in skip else None
    if k == "roundtrip":
        v = check_roundtrip(case["entry"])
        return v if v and v.get("class") not in skip else None
    if k == "syntax":
        io = real_compile(case["text"]) if case.get("cmd", "K") == "K" else real_parse(case["text"])
        want = case.get("printed_ast") or case["model"]
        if io is not None and io[:600] != want:
            return dict(case, got=io[:600])
        return None
    if k == "syntax-print":
        t = print_expr(case["ast"], None)
        return dict(case, got=t) if t != case["model"] else None
    if k == "export-model":
        fails, got = x_replay(case)
        return dict(case, got=got) if fails else None
    return None


def syntax_case(d):
    """a text on which the real grammar and its Coq model differ (or the harness printer and FilterSyntax.print)"""
    if d.get("op") == "syntax-print":
        return {"kind": "syntax-print", "ast": d["ast"], "model": d["model"], "class": "printer-model-mismatch",
                "clause": "the harness printer writes what FilterSyntax.print writes", "got": d["impl"]}
    text = d["text"]
    # shrink: drop characters while the two still differ in the same way (model output is recorded, so only
    # deletions that keep the recorded model answer valid are not available offline; keep the text as it is)
    return {"kind": "syntax", "cmd": d.get("cmd", "K"), "text": text, "model": d["model"], "class": "grammar-model-mismatch",
            "clause": "the grammar accepts exactly the texts its model accepts and builds the same tree", "got": d["impl"],
            "printed_ast": d.get("printed_ast")}


def shrink_logger(v):
    from hippolyzer.lib.proxy.message_filter import compile_filter
    memo = _Memo(compile_filter)
    ops = [tuple(o) for o in v["ops"]]
    changed = True
    while changed and len(ops) > 1:
        changed = False
        for i in range(len(ops)):
            t = ops[:i] + ops[i + 1:]
            _, w = run_logger_impl(v["maxlen"], t, memo)
            if w and w.get("class") == v.get("class"):
                ops, v, changed = [tuple(o) for o in w["ops"]], w, True
                break
    return v


def shrink_filter(v):
    """replace the tree by one of its subtrees while the same class of failure persists"""
    f = v["ast"]
    changed = True
    while changed:
        changed = False
        for g in (f[1:] if f[0] != "leaf" else []):
            w = check_case({"kind": "filter", "ast": g, "entry": v["entry"], "class": v.get("class")})
            if w and w.get("class") == v.get("class"):
                f, v, changed = g, w, True
                break
    return v


def search(ctx, hints):
    for h in hints:
        d = h.get("disagreement")
        if not d:
            continue
        if d.get("op") == "eval":
            v = check_case({"kind": "filter", "ast": d["ast"], "entry": d["entry"]}, _known_classes())
            if v:
                return shrink_filter(v)
        if d.get("op") == "logger":
            v = check_case({"kind": "logger", "maxlen": d["maxlen"], "ops": d["ops"]}, _known_classes())
            if v:
                return shrink_logger(v)
        if d.get("op") in ("syntax", "syntax-print"):
            return syntax_case(d)
        if d.get("op") == "export-model":
            return dict(d, kind="export-model", **{"class": "export-model-mismatch-" + d["suite"]},
                        clause="the code computes what its model (Log/Export.v) computes: " + d["field"], got=d["impl"])
        if d.get("op") == "parse":
            return {"kind": "filter", "ast": d["ast"], "entry": EXH_ENTRY, "class": "parse-tree-mismatch",
                    "clause": "the printed filter compiles to the tree it denotes", "filter": d["filter"], "got": str(d["problem"])[:300]}
    skip = _known_classes()
    for kind, f, espec in gen_filter_cases(ctx):
        v = check_case({"kind": "filter", "ast": f, "entry": espec}, skip)
        if v:
            return shrink_filter(v)
    for kind, maxlen, ops in gen_logger_cases(ctx):
        v = check_case({"kind": "logger", "maxlen": maxlen, "ops": ops}, skip)
        if v:
            return shrink_logger(v)
    for s in gen_roundtrip_specs(ctx):
        v = check_case({"kind": "roundtrip", "entry": s}, skip)
        if v:
            return v
    return None


def replay(ctx, case):
    v = check_case(case)
    return (v is not None), (v or "holds")
