"""C09 - every registered subfield (pretty) serializer is lossless against the wire.

Model: coq/theories/Subfield/IntAdapters.v (integer serializers); per-key instances are generated
from the live registry (harness/translate/c09_registry.py -> coq/gen/C09_gen.v).  Byte-payload
serializers: the two byte clauses are theorems over C08's combinator embedding (Spec/SpecSound*.v), instantiated
per (key, context value) from the live registry (harness/translate/c09_payload.py -> coq/gen/C09_payload_gen.v)
and tied by corr_payload_model below; keys outside the fragment / not translated, the date adapters and the
purity probe are decided by the implementation-level oracle only.  The oracle also probes that decoding is a function of
(serializer, context values, wire value) - no result shared between calls, no dependence on what a
caller did to an earlier result (harness/translate/c09_purity.py, check_purity below)."""
from __future__ import annotations

import ast
import enum
import json
import math
import os
import subprocess
import sys

from harness.common.framework import CorrResult, COQ, VERIF
from harness.translate import c09_payload, c09_purity, c09_registry, c09_values

PROP_ID = "C09"
COQ_PROPS = "theories/Props/C09.v"
COQ_EXTRA = ["gen/C09_gen.v", "gen/C09_quant_gen.v", "gen/C09_date_gen.v", "gen/C09_payload_gen.v"]
EXTRACT = ("theories/Extract/ExC09.v", "c09_driver.ml")
EXTRACT_Z = True
TRUSTED = [
    "modelled by hand: se.IntEnum / se.IntFlag / BoolAdapter / IdentityAdapter / ContextAdapter / BitField + "
    "BitfieldDataclass (both shift modes) encode+decode, IntEnumSubfieldSerializer / IntFlagSubfieldSerializer / "
    "AdapterSubfieldSerializer wrappers, datatypes.flags_to_pod, helpers.BitField.pack/unpack, "
    "templates.AttachmentStateAdapter (Python ints as Z; exceptions as None; enum classes as the two tables list(cls) and "
    "cls.__members__ read from the live class each run; se.UNSERIALIZABLE = no pretty form, the formatter prints the raw integer)",
    "assumed of CPython's enum module (checked by the correspondence on every registered and synthetic class, not "
    "proved): `val in iter(cls)` / cls(val) pick the member of list(cls) with that value; int(FlagCls(z)) == z for "
    "z >= 0 (boundary KEEP); cls[name] follows cls.__members__",
    "quantised-float integer keys (TimeDilation): the arithmetic model is C10's Quant/QuantModel.v (binary64 primitive floats, "
    "imported read-only); the integer clause is decided by evaluating it on all raws (vm_compute); the model's decode is compared "
    "with the implementation's on all 65 536 raws (checksum over bit patterns + samples) and its encode on sampled cases, per run",
    "repr / ast.literal_eval are modelled (Subfield/Literal.v) only for the fragment ints, bools, identifier-like str, flat tuples "
    "of those; tied to CPython by the correspondence (printer == repr, parser == literal_eval on the generated values, parser "
    "sound on mutated texts); floats, dicts (bit fields), bytes and nested values are checked on the implementation only",
    "DateAdapter: calendar / ISO text / zone plumbing modelled by hand (Subfield/DateModel.v); the positive theorem "
    "C09_date_utc_whole_seconds_partial ASSUMES the hypothesis exact_on_seconds about the four float steps (true of binary64, "
    "evaluated on samples only); the binary64 instance (Subfield/DatePrim.v) converts val to a float before dividing, so it is "
    "faithful to Python's exact int/int division only for |val| < 2^53 or representable val; it is compared with the "
    "implementation under TZ=UTC on generated cases each run; real zones (tz database) are not modelled - the DST witness uses "
    "a hand-written one-transition zone; the three date defect classes remain known findings",
    "byte-payload clauses, PROVED part: the combinator embedding of C08 (Spec/Spec.v: ser / de / wf / domb, modelled by hand, tied "
    "to serialization.py by C08's correspondence) + Spec/SpecSound.v (sound_frag / canon / the wrapper view pl_decode = "
    "BufferReader(...).read(template) + CHECK_TRAILING_BYTES, simple_* = EMPTY_IS_NONE, modelled by hand).  Theorems "
    "C09_payload_own_output (every wf spec), C09_decoder_sound / C09_payload_fixed_point / _pass_idempotent / _accepted_reencodes / "
    "_simple_* (every wf spec inside sound_frag, every byte string of bytes < 256, both endiannesses, both forms), instantiated per "
    "run at every (registered byte-payload key, context value) whose live spec tree translates (harness/translate/c09_payload.py, "
    "reusing C08's fail-closed translator) and lies inside the fragment: gen/C09_payload_gen.v re-computes wf / sound_frag / canon / "
    "simple_ok by vm_compute (the Python mirror only predicts the booleans).  The exact lists (proved / outside the fragment / not "
    "translated) are in this evidence file's notes",
    "byte-payload clauses, TIE: per run, the real registered serializer (ser.deserialize / ser.serialize with a Block holding the "
    "context value) against the extracted Spec.de then Spec.ser (C08's driver, built privately) on own output, per-byte sweeps, "
    "truncations / extensions / mutations of it - accepted or not, decoded value, re-encoded bytes.  What the tie does NOT cover: the "
    "wrapper's choice of the sub-template from the Block (TEMPLATES[block[ENUM_FIELD]], _build_template(flags), TransferInfo's "
    "size-based guess) is exercised (the real wrapper runs) but the model is handed the tree of that context value by the harness; "
    "EMPTY_IS_NONE is applied by the harness as in SpecSound.simple_decode; payloads that make the real reader seek backwards "
    "(negative length prefix) are skipped; float members: the model keeps the 32/64 bits, re-encodings of values holding a NaN are "
    "not compared (CPython quiets signalling NaNs); quantised / fixed-point members are wire ints in the model (AOpaqueInt) - that "
    "decode-then-encode of the real adapter is the identity on its wire ints is C10's subject and is re-checked here on every compared "
    "payload (a lossy raw shows up as a re-encoded-bytes disagreement)",
    "byte-payload clauses, NOT proved (implementation-level oracle only: generated values, per-byte boundary sweep, fuzz): keys whose "
    "tree is not translated (TextureEntry x5: TEExceptionField; ExtraParams: DictAdapter; NameValue: NameValuesSerializer; "
    "ObjectUpdateCompressed.Data: ObjectStateAdapter + name-values; ParcelProperties.Bitmap: BitmapAdapter, no spec tree), context "
    "values for which a switched serializer has no sub-template (UNSERIALIZABLE / absent), and any translated tree the generated "
    "obligation reports outside the fragment (none on the current tree: BitField members over an unsigned primitive are covered by "
    "bf_law; excluded by construction and refuted by witnesses: Str(null_term=True), a length-framed or size-keyed wrapper around a "
    "non-canonical member, an unshifted BitField with a Bool entry away from bit 0, ContextSwitch / ContextAdapter / FlagSwitch "
    "combinators - the latter three occur in no registered tree); TextureEntry has its own model (B5 block below)",
    "the integer theorems are about integers as Python ints; packing them into the variable's bytes is C01/C02's subject",
    "the Coq model treats decode / encode as functions of (serializer, context values, wire value); that the implementation's "
    "decode really is one (no result shared between calls, no dependence on what earlier callers did to earlier results) is NOT "
    "proved: it is decided per run by the purity / no-aliasing probe of the impl-level oracle (all registered keys x context "
    "values x both forms, sampled payloads); aliasing that only shows after more than 1024 other decodes, or only for payloads "
    "outside the probed sample, is not excluded; Block.serialize_var keeps the caller's own object in the Block cache (editing "
    "it afterwards changes what deserialize_var returns without changing the raw bytes) - observed, outside this probe",
]

MAX_REPORT = 3          # violations reported per (key, class)

# ---- B5: TextureEntry (model Spec/TexEntry.v, harness/translate/c09_te.py) ----
from harness.translate import c09_te  # noqa: E402
COQ_EXTRA = COQ_EXTRA + ["gen/C09_te_gen.v"]
TRUSTED = TRUSTED + [
    "TextureEntry payloads (the 5 registered *.TextureEntry keys; this REFINES the 'TextureEntry x5: not translated' remark above): "
    "the FRAMING is modelled by hand in Spec/TexEntry.v - TEFaceBitfield (base-128 big-endian groups, continuation bit, Python ints "
    "as N: no coded maximum), TEExceptionField (default, (bitfield, value)*, NUL written BEFORE every non-first field and consumed by "
    "the PREVIOUS field's loop, end of window, optional field absent at EOF, dict insertion order with overwrite-in-place), "
    "se.Template over the dataclass fields, TypedBytesGreedy / TypedByteArray(U32) with empty_is_none + trailing-bytes check, "
    "SimpleSubfieldSerializer(EMPTY_IS_NONE) - and PROVED for every element codec satisfying the stated laws (C09_te_*: bitfield "
    "round trip for all face numbers + prefix condition, field round trip, whole-entry round trip incl. absent optional tail, one-pass "
    "fixed point for every accepted payload, wrappers; each unqualified statement refuted by a witness)",
    "TextureEntry, what is ASSUMED: the element serializers (se.UUID, Color4, se.F32, TE_S16_COORD, PackedTERotation, "
    "BUMP_SHINY_FULLBRIGHT, MEDIA_FLAGS, QuantizedFloat(U8)) are NOT modelled here; the theorems take their laws as hypotheses "
    "(codec_rt, codec_sound, non-empty encodings; fixed size is not needed) and the extracted instance carries an element as its k "
    "wire bytes.  Known exception to codec_sound: PackedTERotation raw -32768 (known finding c09-te-rotation-min / C10).  Per run the "
    "translator reads first / optional / calc_size() of every field from the live TE_SERIALIZER (fail closed on any other class or "
    "wrapper configuration), gen/C09_te_gen.v re-checks layout_ok and instantiates the theorems at that layout, and a table of live "
    "payloads is decoded / re-encoded by the model inside Coq (vm_compute)",
    "TextureEntry, TIE: extracted model (separate driver coq/ocaml/c09te_driver.ml, built privately per run) vs the real classes: "
    "TEFaceBitfield on all tuples over faces 0..8, boundaries up to 1000 and all byte strings of length <= 1 (2 in part; all in "
    "thorough); synthetic entries built with the real _te_field / se.Dataclass / wrappers over U8 / U32 / UUID elements in an "
    "exhaustive small scope (object-form values and every byte string over {00,01,02,80,81,ff} up to length 4/5); the live "
    "TE_SERIALIZER and both registered subfield serializer classes on random values, truncations and mutations; object and plain-data "
    "form; compared: serialize bytes / exception, accept / reject, decoded structure with dict order, bytes left, re-encoding.  Elements "
    "are compared through the real element spec applied to the model's raw element outside any TE code.  Python exceptions are only "
    "compared as accept/reject; lazy_object_proxy results are forced; a TE element that a repeated bitfield overwrites is decoded by the "
    "real code but not handed to the real element spec by the harness (a refusing element spec would surface as an accept/reject "
    "disagreement, i.e. fail closed; for ExtraParams every wire entry, overwritten or not, is validated)",
    "ExtraParams (ObjectUpdate.ObjectData.ExtraParams; REFINES the 'ExtraParams: DictAdapter ... not translated' remark above): the dict "
    "framing DictAdapter(Collection(U8, entry)) + SimpleSubfieldSerializer(EMPTY_IS_NONE) is modelled by hand in Spec/ExtraParamsModel.v "
    "(count byte, entries in wire order, dict() = overwrite in place keeping the first position, tuple(dict.items()), > 255 entries "
    "raise) and PROVED for every entry codec satisfying codec_rt / codec_sound (C09_dictcoll_*: what any wire sequence decodes to, "
    "round trip of every dict <= 255 entries, one-pass fixed point of every accepted payload; byte identity refuted by a repeated type). "
    "ASSUMED: the entry serializer EnumSwitch(IntEnum(ExtraParamType, U16), {t: TypedByteArray(U32, template)}) - the extracted "
    "instance carries an entry as (type number, blob); the sub-templates are B1's / C08's subject and are applied by the harness, outside "
    "the dict code, to compare values.  TIE: the same private driver vs the real registered serializer on ordered selections of "
    "types, pair sequences and wire sequences WITH repeated types, wrong counts, unknown types, prefixes, mutations, both forms; the "
    "structure of EXTRA_PARAM_COLLECTION is checked fail-closed each run",
    "TextureEntry, NOT covered: TextureEntryCollection.realize / from_tes (only realize_face's merge refutation is stated), ParseContext "
    "plumbing, dict values that are not dicts, keys that are not tuples of non-negative ints",
]
# ---- end B5 ----


# =====================================================================================
# (G) generated obligations

def generate(ctx):
    reg = c09_registry.load()
    obls = c09_registry.emit(reg, os.path.join(COQ, "gen", "C09_gen.v"))
    obls += c09_registry.emit_quant(reg, os.path.join(COQ, "gen", "C09_quant_gen.v"))
    obls += c09_registry.emit_dates(reg, os.path.join(COQ, "gen", "C09_date_gen.v"), ctx.rng, ctx.pick(120, 2500), ctx.notes)
    inert = [".".join(e.key) for e in reg.entries if e.inert]
    opaque = ["%s (%s)" % (".".join(e.key), e.why_opaque) for e in reg.entries if not e.modelled and not e.inert and e.quant is None]
    quant = [".".join(e.key) for e in c09_registry.quant_entries(reg)]
    misfit = []
    for e in reg.entries:
        if e.modelled and e.kind in ("enum", "flag"):
            lo, hi = c09_registry.wire_range(e.ty)
            if e.kind == "enum":
                bad = [n for n, v in e.cls.names if not lo <= v <= hi]
            else:
                bad = [n for n, v in e.cls.names if not 0 <= v < (1 << c09_registry.WBITS[e.ty])]
            if bad:
                misfit.append("%s:%s members %s" % (".".join(e.key), e.ty, ",".join(bad[:4])))
    ctx.notes.append("registry: %d keys, %d integer keys modelled and proved per key, %d quantised-float keys proved by exhaustive "
                     "evaluation of the PrimFloat model (%s), %d inert (variable absent from the template: %s), "
                     "%d opaque (oracle only): %s" % (len(reg.entries), sum(1 for e in reg.entries if e.modelled), len(quant),
                                                     "; ".join(quant), len(inert), "; ".join(inert), len(opaque), "; ".join(opaque)))
    if misfit:
        ctx.notes.append("informational, not a violation of C09: member values the variable's wire type cannot hold "
                         "(those names can be written but never read back): " + "; ".join(misfit))
    # byte-payload keys: spec trees per (key, context value) as Spec terms + fragment obligations
    ents = c09_payload.entries(reg)
    obls += c09_payload.write_gen(os.path.join(COQ, "gen", "C09_payload_gen.v"), ents)
    ctx.notes.append(payload_note(ents))
    obls += c09_te.emit(ctx)        # B5: live TextureEntry layout + payload table -> gen/C09_te_gen.v
    return obls


def payload_note(ents):
    sm = c09_payload.summary(ents)
    outside = ["%s (%s)" % (en.label, c09_payload.why_outside(en.node)) for en in ents if en.node is not None and not en.inside]
    untr = {}
    for en in ents:
        if en.node is None and en.spec is not None:
            untr.setdefault(en.keytxt, en.why)
    nospec = sorted({en.keytxt for en in ents if en.spec is None and not any(o.keytxt == en.keytxt and o.spec is not None for o in ents)})
    return ("byte-payload clauses: %d registered byte-payload keys, %d (key, context value) pairs, %d with a spec tree, %d translated to "
            "Spec terms, %d inside the proved fragment (wf && sound_frag && simple_ok; %d of them canonical = every accepted payload is "
            "its own fixed point): C09_payload_registry_fixed_point / _own_output are instantiated at exactly these.  Keys proved for EVERY "
            "context value that selects a sub-template (%d): %s.  Keys partly proved (%d): %s.  Translated but OUTSIDE the fragment, oracle only (%d): %s.  "
            "NOT translated, oracle only (%d keys): %s.  No spec tree at all (adapter-only serializer), oracle only: %s"
            % (len(sm["per_key"]), len(ents), sum(1 for en in ents if en.spec is not None), sum(1 for en in ents if en.node is not None),
               sum(1 for en in ents if en.inside), sum(1 for en in ents if en.inside and en.canon),
               len(sm["full"]), "; ".join(sm["full"]), len(sm["partial"]),
               "; ".join("%s %d/%d" % (k, sm["per_key"][k]["inside"], sm["per_key"][k]["with_spec"]) for k in sm["partial"]),
               len(outside), "; ".join(outside), len(untr), "; ".join("%s (%s)" % kv for kv in sorted(untr.items())),
               "; ".join(nospec) or "none"))


# =====================================================================================
# implementation adapters

def _se():
    import hippolyzer.lib.base.templates  # noqa: F401  (fills the registry)
    import hippolyzer.lib.base.serialization as se
    return se


def canon_int_value(v):
    """text form shared with the OCaml driver"""
    se = _se()
    import dataclasses
    if v is se.UNSERIALIZABLE:
        return "U"
    if isinstance(v, bool):
        return "b:%d" % int(v)
    if isinstance(v, enum.IntFlag):
        return "f:%d" % int(v)
    if isinstance(v, enum.IntEnum):
        return "m:%s:%d" % (v.name, int(v))
    if type(v) is int:
        return "i:%d" % v
    if isinstance(v, str):
        return "n:" + v
    if isinstance(v, tuple):
        parts = []
        for x in v:
            if isinstance(x, str):
                parts.append("n:" + x)
            elif type(x) is bool:
                parts.append("b:%d" % int(x))
            elif type(x) is int:
                parts.append("i:%d" % x)
            else:
                parts.append("?" + type(x).__name__)
        return "t:[" + ",".join(parts) + "]"
    if dataclasses.is_dataclass(v) and not isinstance(v, type):
        return "d:{" + ";".join("%s=%s" % (f.name, canon_int_value(getattr(v, f.name))) for f in dataclasses.fields(v)) + "}"
    if isinstance(v, dict):
        return "d:{" + ";".join("%s=%s" % (k, canon_int_value(x)) for k, x in v.items()) + "}"
    return "?" + type(v).__name__ + ":" + repr(v)[:40]


def enc_text(r):
    if isinstance(r, int):
        return "%d" % int(r)
    return "EXC"            # not an integer: cannot be packed into the variable


def impl_roundtrip_text(ser, block, z, pod):
    se = _se()
    try:
        v = ser.deserialize(block, z, pod=pod)
    except Exception:
        return "EXC"
    if v is se.UNSERIALIZABLE:
        return "U -> -"
    t = canon_int_value(v)
    if pod and len(POD_VALUES) < POD_CAP[0] and t not in POD_VALUES and in_literal_fragment(v):
        POD_VALUES[t] = v
    try:
        r = ser.serialize(block, v)
    except Exception:
        return t + " -> EXC"
    return t + " -> " + enc_text(r)


POD_VALUES = {}
POD_CAP = [4000]


def in_literal_fragment(v):
    """ints, bools, str, flat tuples of str / int (what Subfield/Literal.v prints and parses)"""
    if type(v) in (int, bool, str):
        return True
    return type(v) is tuple and all(type(x) in (int, str) for x in v)


def corr_literals(ctx):
    """the model's repr / literal_eval fragment against CPython's on the plain-data values seen in this run"""
    res = CorrResult(suite="plain-data literals: model printer/parser vs repr / ast.literal_eval",
                     rule="every distinct plain-data value (int, bool, name, flat tuple of names / ints) produced by the "
                          "registered and synthetic integer serializers in this run: the extracted printer must equal "
                          "repr(value) byte for byte and classify it safe, the extracted parser applied to repr(value) must "
                          "equal ast.literal_eval; plus soundness of the parser on hand-written and randomly mutated texts "
                          "(whatever the model accepts, literal_eval accepts with an equal value); non-trivial = tuples and names")
    vals = dict(POD_VALUES)
    for v in (0, -1, 5, 10 ** 30, -(2 ** 64), True, False, "", "A", "a_b9", (), ("A",), (7,), ("A", "B", -4), (1, 2, 3)):
        vals.setdefault(canon_int_value(v), v)
    items = list(vals.items())
    lines = ["p " + t for t, _ in items] + ["q " + repr(v).encode().hex() for _, v in items]
    texts = ["(5)", "007", "-0", "(5,)", "( 5,)", "('A', 4,)", "(1,2)", "--1", "'a b'", "(,)", "()", "(())", "5,", "''", "'A'",
             "True", "False", "Tru", "(True, 'x')", "-", "", "(", ")", "(5", "'A", "('A' )", "('A',  4)", "0", "00", "-007",
             "(0,)", "('A', -0)", "1_0", "'_'", "(\"A\",)", "+5", "(-5,)", "( )", "(5,,)"]
    rng = ctx.rng
    reprs = [repr(v) for _, v in items]
    alphabet = "()', -0123456789ATru_ e"
    for _ in range(ctx.pick(1500, 30000)):
        r = rng.choice(reprs)
        i = rng.randrange(len(r) + 1)
        k = rng.random()
        if k < 0.4 and r:
            i = min(i, len(r) - 1)
            r = r[:i] + r[i + 1:]
        elif k < 0.8:
            r = r[:i] + rng.choice(alphabet) + r[i:]
        elif r:
            i = min(i, len(r) - 1)
            r = r[:i] + rng.choice(alphabet) + r[i + 1:]
        texts.append(r)
    texts = [t for t in dict.fromkeys(texts) if all(32 <= ord(c) < 127 for c in t)]
    lines += ["q " + t.encode().hex() if t else "q" for t in texts]
    out = ctx.run_driver(lines)
    n = len(items)
    nontriv = 0
    for (t, v), po, qo in zip(items, out[:n], out[n:2 * n]):
        want = "safe " + repr(v).encode().hex()
        ident = all(c.isalnum() or c == "_" for x in (v if isinstance(v, tuple) else (v,)) if isinstance(x, str) for c in x) \
            and all(ord(c) < 128 for x in (v if isinstance(v, tuple) else (v,)) if isinstance(x, str) for c in x)
        if not ident:
            if po.startswith("safe"):
                res.disagreements.append({"what": "printer calls a non-identifier name safe", "value": t, "model": po[:120]})
            continue
        if po != want:
            res.disagreements.append({"what": "repr", "value": t, "model": po[:200], "impl": want[:200]})
        try:
            lit = canon_int_value(ast.literal_eval(repr(v)))
        except Exception as ex:
            lit = "EXC:" + type(ex).__name__
        if qo != lit or lit != t:
            res.disagreements.append({"what": "literal_eval(repr)", "value": t, "model": qo[:200], "impl": lit[:200]})
        if isinstance(v, (tuple, str)):
            nontriv += 1
    sound = 0
    for txt, qo in zip(texts, out[2 * n:]):
        if qo in ("NONE", "?"):
            continue
        sound += 1
        try:
            lit = canon_int_value(ast.literal_eval(txt))
        except Exception as ex:
            lit = "EXC:" + type(ex).__name__
        if lit != qo:
            res.disagreements.append({"what": "parser accepts a text literal_eval reads differently", "text": txt, "model": qo[:200], "impl": lit[:200]})
    res.evaluations = len(lines)
    res.distinct_nontrivial = nontriv
    res.distribution = {"values": n, "texts": len(texts), "texts accepted by the model": sound}
    res.samples = [{"value": t, "repr": repr(v)} for t, v in items[:3]]
    del res.disagreements[40:]
    return res


def check_int(ser, block, z, pod):
    """C09's integer clause evaluated on the implementation; None or (clause, got)"""
    se = _se()
    try:
        v = ser.deserialize(block, z, pod=pod)
    except Exception as e:
        return "integer is accepted by decode", "EXC:" + type(e).__name__
    if v is se.UNSERIALIZABLE:
        return None
    try:
        r = ser.serialize(block, v)
    except Exception as e:
        return "decoded value re-encodes", "EXC:" + type(e).__name__
    if not isinstance(r, int) or int(r) != z:
        return "integer survives decode-then-encode", repr(r)[:60]
    if pod:
        try:
            lit = ast.literal_eval(repr(v))
            ok = lit == v and int(ser.serialize(block, lit)) == z
        except Exception:
            ok = False
        if not ok:
            return "plain-data repr() evaluates back to an equal value", repr(v)[:80]
    return None


def make_block(key, ctxvars, var=None, z=None):
    from hippolyzer.lib.base.message.message import Block
    b = Block(key[1])
    b.message_name = key[0]
    for k, v in ctxvars.items():
        b[k] = v
    if var is not None:
        b[var] = z
    return b


def check_block_api(key, ser, ctxvars, z, z_other):
    """the same clause observed through Block.deserialize_var / serialize_var, including the cached value being
    dropped when the raw value changes"""
    se = _se()
    var = key[2]
    try:
        b = make_block(key, ctxvars, var, z_other)
        b.deserialize_var(var)                # fills the cache for z_other
        b[var] = z                            # must invalidate it
        d = b.deserialize_var(var)
        want = ser.deserialize(b, z, pod=False)
        if canon_int_value(d) != canon_int_value(want):
            return "Block.deserialize_var reflects the current raw value", canon_int_value(d)
        if d is se.UNSERIALIZABLE:
            return None
        b.serialize_var(var, d)
        if not isinstance(b[var], int) or int(b[var]) != z:
            return "integer survives Block.deserialize_var then serialize_var", repr(b[var])[:60]
        if canon_int_value(b.deserialize_var(var)) != canon_int_value(d):
            return "Block.deserialize_var after serialize_var returns the value written", ""
    except Exception as e:
        return "Block.deserialize_var / serialize_var on a wire integer", "EXC:" + type(e).__name__
    return None


def _fresh(raw):
    """an equal value held in a different object (byte-identical data, not the same bytes object)"""
    if isinstance(raw, (bytes, bytearray)):
        return bytes(bytearray(raw))
    return raw


PURITY_STATS = {}


def _try(f):
    try:
        return f()
    except Exception:
        return None


def check_purity(ser, raw, pod, key=None, ctxvars=None, block=None, full=False):
    """purity / no-aliasing probe (harness/translate/c09_purity.py) of one serializer on one wire value (payload
    bytes or integer) in one form.  With a registered key the same bytes are also decoded through a fresh Block
    holding byte-identical data and (object form) through Block.deserialize_var: on a fresh Block, and twice on one
    Block with the first result edited in between (the Block cache hands out copies by default; make_copy=False is a
    documented opt-out and is not probed).  -> (status, None | (class, clause, detail))"""
    se = _se()
    ctxvars = ctxvars or {}
    if block is None:
        block = make_block(key, ctxvars)

    def dec():
        return _force(ser.deserialize(block, raw, pod=pod))

    def enc(v):
        r = ser.serialize(block, v)
        return bytes(r) if isinstance(r, (bytes, bytearray)) else r

    fresh = []
    if key is not None:
        var = key[2]

        def fresh_block():
            b = make_block(key, ctxvars, var, _fresh(raw))
            return _force(ser.deserialize(b, b[var], pod=pod))
        fresh.append(("fresh Block holding byte-identical data", fresh_block))
        if not pod:
            def fresh_block_api():
                return _force(make_block(key, ctxvars, var, _fresh(raw)).deserialize_var(var))

            def cached_block_api():
                b = make_block(key, ctxvars, var, _fresh(raw))
                c09_purity.mutate(_force(b.deserialize_var(var)))      # first read fills the cache; edit what it returned
                return _force(b.deserialize_var(var))                  # second read is served from the cache
            def copied_block_api():
                # a deep copy of the Block (what Message.take() hands to every subscriber) is re-packed with ANOTHER value through
                # the Block API; the original Block must still decode to what its own bytes say
                import copy as _copy
                b = make_block(key, ctxvars, var, _fresh(raw))
                b.deserialize_var(var)                                   # the original has parsed (cached) the subfield
                c = _copy.deepcopy(b)
                cands = []
                try:
                    if isinstance(raw, int):
                        cands = [ser.deserialize(c, x, pod=False) for x in (raw ^ 1, 0, 1) if x != raw]
                    else:
                        alt = bytes(raw)
                        for i in range(len(alt) - 1, -1, -1):
                            cands.append(alt[:i] + bytes([alt[i] ^ 1]) + alt[i + 1:])
                            if len(cands) >= 6:
                                break
                        cands = [x for x in (_try(lambda a=a: ser.deserialize(c, a, pod=False)) for a in cands) if x is not None]
                except Exception:
                    cands = []
                for v2 in cands:
                    try:
                        c.serialize_var(var, v2)
                        break
                    except Exception:
                        continue
                return _force(b.deserialize_var(var))
            fresh.append(("Block.deserialize_var on a Block whose deep copy was re-packed with another value", copied_block_api))
            fresh.append(("Block.deserialize_var on a fresh Block", fresh_block_api))
            fresh.append(("Block.deserialize_var again on one Block after its first result was edited", cached_block_api))
    st, info = c09_purity.probe(dec, enc, c09_values.canon, tuple(fresh), full=full,
                                unaccepted=lambda x: x is se.UNSERIALIZABLE)
    PURITY_STATS[st] = PURITY_STATS.get(st, 0) + 1
    if st == "skip":
        k = "skip: " + str(info).split(":")[0]
        PURITY_STATS[k] = PURITY_STATS.get(k, 0) + 1
    return st, (info if st == "bad" else None)


def purity_case(bad, keytxt, ctxvars, pod, raw, **more):
    case = {"kind": "purity", "class": bad[0], "clause": bad[1], "detail": bad[2], "key": keytxt, "ctx": ctxvars, "pod": pod}
    if isinstance(raw, (bytes, bytearray)):
        case["payload"] = bytes(raw).hex()
    else:
        case["z"] = raw
    case.update(more)
    return case


# =====================================================================================
# integer cases

def int_sweep(ctx, ty, extra=()):
    lo, hi = c09_registry.wire_range(ty)
    bits = c09_registry.WBITS[ty]
    if bits <= 16:
        return list(range(lo, hi + 1))
    zs = [lo, lo + 1, -1, 0, 1, 2, 3, hi - 1, hi, hi // 2, hi // 2 + 1]
    for k in range(bits):
        zs += [1 << k, (1 << k) - 1, (1 << k) + 1, -(1 << k), ~(1 << k), hi ^ (1 << k)]
    for v in extra:
        zs += [v, v - 1, v + 1, ~v, -v, v | 1 << (bits - 1), hi & ~v]
    rng = ctx.rng
    for _ in range(ctx.pick(60, 1000)):
        zs.append(rng.randrange(lo, hi + 1))
    for _ in range(ctx.pick(40, 500)):          # sparse and dense bit patterns
        a = rng.getrandbits(bits) & rng.getrandbits(bits)
        zs += [a, hi & ~a if lo == 0 else ~a]
    out, seen = [], set()
    for z in zs:
        if lo <= z <= hi and z not in seen:
            seen.add(z)
            out.append(z)
    return out


def ctx_values(e):
    if e.kind == "context":
        return [k for k, _ in e.opts] + [0, 95, 255]
    return [0]


def entry_ctxvars(e, cv):
    return {e.ctx_field: cv} if e.kind == "context" else {}


class _DictCtx(dict):
    """sibling values for a ContextAdapter under test (ParseContext falls back to item access)"""


def synthetic_suite():
    """serializers over classes built for the occasion: aliases, zero members, multi-bit aliases, negative
    members, strict enums, Bool / identity / nibble adapters, context switches, bit fields (both shift modes)"""
    se = _se()
    import hippolyzer.lib.base.templates as T
    from hippolyzer.lib.base.datatypes import IntEnum as HEnum, IntFlag as HFlag
    reg = c09_registry.Registry()
    FA = HFlag("FA", [("NONE", 0), ("A", 1), ("B", 2), ("B2", 2), ("AB", 3), ("H", 128), ("TOP", 1 << 31)])
    FB = HFlag("FB", [("A", 1), ("B", 2), ("C", 4)])
    FM = HFlag("FM", [("LOW", 3), ("X", 16)])
    EA = HEnum("EA", [("OK", 0), ("LANDING", 1), ("NONE", 1), ("ERR", -1), ("BIG", 300)])
    E2 = HEnum("E2", [("P", 0), ("Q", 2), ("R", 3)])
    out = []

    def add(spec, ser, ctxs=(0,), values=()):
        out.append({"spec": spec, "ser": ser, "ctxs": list(ctxs), "values": list(values)})

    def cls_text(c):
        return reg.cls_of(c).text()
    add("F;" + cls_text(FA), se.IntFlagSubfieldSerializer(FA),
        values=[("t:[n:A,n:AB,i:64]", ("A", "AB", 64)), ("t:[n:NOPE]", ("NOPE",)), ("t:[]", ()), ("i:5", 5),
                ("t:[n:NONE,n:B2,i:-8]", ("NONE", "B2", -8)), ("n:A", "A"), ("n:AB", "AB"), ("b:1", True),
                ("t:[i:1,i:2,i:4]", (1, 2, 4)), ("f:7", FA(7))])
    add("F;" + cls_text(FB), se.IntFlagSubfieldSerializer(FB),
        values=[("n:AB", "AB"), ("n:CAB", "CAB"), ("n:AD", "AD"), ("n:", ""), ("t:[n:A,n:C]", ("A", "C"))])
    add("F;" + cls_text(FM), se.IntFlagSubfieldSerializer(FM), values=[("t:[n:LOW]", ("LOW",)), ("t:[n:X,i:1]", ("X", 1))])
    add("E;" + cls_text(EA), se.IntEnumSubfieldSerializer(EA),
        values=[("n:NONE", "NONE"), ("n:LANDING", "LANDING"), ("n:NOPE", "NOPE"), ("i:7", 7), ("n:ERR", "ERR"),
                ("m:BIG:300", EA.BIG), ("t:[n:OK]", ("OK",)), ("b:0", False)])
    add("A/enum;1;" + cls_text(EA), se.AdapterInstanceSubfieldSerializer(se.IntEnum(EA, strict=True)),
        values=[("n:BIG", "BIG"), ("i:12", 12)])
    add("A/enum;0;" + cls_text(E2), se.AdapterInstanceSubfieldSerializer(se.IntEnum(E2)))
    add("A/flag;" + cls_text(FA), se.AdapterInstanceSubfieldSerializer(se.IntFlag(FA)))
    add("A/bool", se.AdapterInstanceSubfieldSerializer(se.BoolAdapter()),
        values=[("i:5", 5), ("i:0", 0), ("b:1", True), ("n:x", "x"), ("n:", ""), ("t:[]", ()), ("t:[i:0]", (0,))])
    add("A/identity", se.AdapterInstanceSubfieldSerializer(se.IdentityAdapter()), values=[("i:5", 5), ("b:1", True)])
    add("A/nibbles", se.AdapterInstanceSubfieldSerializer(T.AttachmentStateAdapter(None)), values=[("i:18", 18)])
    cx = se.ContextAdapter(lambda c: c.K, None, {1: se.IntFlag(FA), 2: se.BoolAdapter(), 9: T.AttachmentStateAdapter(None),
                                                 se.MISSING: se.IdentityAdapter()})
    add("C/1~flag;%s/2~bool/9~nibbles/d~identity" % cls_text(FA), se.AdapterInstanceSubfieldSerializer(cx), ctxs=(1, 2, 9, 5))
    cy = se.ContextAdapter(lambda c: c.K, None, {1: se.IntEnum(EA), 2: se.IdentityAdapter()})
    add("C/1~enum;0;%s/2~identity" % cls_text(EA), se.AdapterInstanceSubfieldSerializer(cy), ctxs=(1, 2, 3))
    for shift in (True, False):
        bf = se.BitField(se.U8, {"a": 3, "b": se.BitfieldEntry(2, se.IntEnum(E2)), "c": se.BitfieldEntry(1, se.BoolAdapter()),
                                 "d": 2}, shift=shift)
        add("B/%d/a~3~identity/b~2~enum;0;%s/c~1~bool/d~2~identity" % (int(shift), cls_text(E2)),
            se.AdapterInstanceSubfieldSerializer(bf),
            values=[("d:{a=i:1;b=n:Q;c=b:1;d=i:%d}" % (3 if shift else 192), {"a": 1, "b": "Q", "c": True, "d": 3 if shift else 192}),
                    ("d:{d=i:1;c=b:0;b=i:1;a=i:9}", {"d": 1, "c": False, "b": 1, "a": 9}),
                    ("d:{a=i:1}", {"a": 1}), ("i:77", 77)])
    bf2 = se.BitField(se.U32, {"PacketID": 31, "IsEOF": se.BitfieldEntry(1, se.BoolAdapter())})
    add("B/1/PacketID~31~identity/IsEOF~1~bool", se.AdapterInstanceSubfieldSerializer(bf2))
    return out


SYN_Z = list(range(-260, 520)) + [1 << 31, (1 << 31) - 1, -(1 << 31), (1 << 32) - 1, 1 << 32, (1 << 64) - 1, -(1 << 63),
                                  (1 << 31) | 131, -(1 << 31) + 3]


def corr_registry(ctx, reg):
    res = CorrResult(suite="generated registry vs live registry",
                     rule="every modelled entry of the Coq registry extracted from gen/C09_gen.v is printed by the driver and "
                          "compared with the entry recomputed from the live se.SUBFIELD_SERIALIZERS / template dictionary "
                          "(key, wire type, serializer kind, member tables in order); non-trivial = every entry")
    modelled = [e for e in reg.entries if e.modelled]
    out = ctx.run_driver(["n"] + ["e %d" % e.index for e in modelled])
    if out[0] != str(len(modelled)):
        res.disagreements.append({"what": "registry length", "model": out[0], "impl": len(modelled)})
    for e, line in zip(modelled, out[1:]):
        if line != e.text():
            res.disagreements.append({"what": "registry entry", "key": ".".join(e.key), "model": line[:300], "impl": e.text()[:300]})
    res.evaluations = len(modelled) + 1
    res.distinct_nontrivial = len(modelled)
    res.exhaustive = True
    res.samples = [{"entry": e.text()[:160]} for e in modelled[:2]]
    res.distribution = {}
    for e in modelled:
        k = "%s/%s" % (e.kind, e.ty)
        res.distribution[k] = res.distribution.get(k, 0) + 1
    return res


def _report(res, counts, case):
    k = (case.get("key"), case.get("class"))
    counts[k] = counts.get(k, 0) + 1
    if counts[k] <= MAX_REPORT:
        res.impl_violations.append(case)


def corr_ints(ctx, reg):
    se = _se()
    res = CorrResult(suite="integer serializers: impl vs extracted model + impl-level integer clause",
                     rule="per modelled registered key: every integer of an 8/16-bit variable, boundary + single-bit + "
                          "member-derived + seeded random integers of 32/64-bit variables, x {object, plain-data} x every "
                          "context value; decode then re-encode on the implementation (serializer API) and on the extracted "
                          "model, texts diffed; the same integers through C09's integer clause on the implementation "
                          "(incl. repr() literal round trip of the plain-data form) and a subset through "
                          "Block.deserialize_var/serialize_var with a raw-value change in between; every member name and an "
                          "unknown name encoded directly; synthetic classes (aliases, zero / multi-bit / negative members, "
                          "strict enums, bool / nibble / identity adapters, context switches, bit fields in both shift "
                          "modes) on -260..519 + wide integers and hand-written plain-data values; opaque integer keys "
                          "(TimeDilation: all 65 536 raws) go through the integer clause only; purity / no-aliasing probe on "
                          "the Block-API subset and on every 13th synthetic integer, both forms (see the byte-payload suite's "
                          "rule; results nobody can edit in place - ints, names, tuples of names, enum members - are exempt); "
                          "non-trivial = distinct "
                          "(serializer, context, form, integer) whose decoded form is not the bare integer")
    lines, expect, meta = [], [], []
    counts = {}
    dist = {}
    nontriv = 0
    impl_only = 0

    def bump(k, n=1):
        dist[k] = dist.get(k, 0) + n

    seen_adapters = set()

    for e in reg.entries:
        if e.inert or e.ty is None:
            continue
        ser = e.serializer
        keytxt = ".".join(e.key)
        if not e.modelled:
            a = getattr(ser, "ADAPTER", None)
            if type(a).__name__ == "DateAdapter":
                continue                                    # time-zone dependent: own suite
            # opaque integer key (quantised float): integer clause on the implementation only
            block = make_block(e.key, {})
            zs_op = int_sweep(ctx, e.ty)
            if not ctx.thorough and id(a) in seen_adapters and len(zs_op) > 4096:
                zs_op = zs_op[::32] + zs_op[-8:]          # same adapter object already swept exhaustively under another key
            seen_adapters.add(id(a))
            for z in zs_op:
                for pod in (False, True):
                    impl_only += 1
                    bad = check_int(ser, block, z, pod)
                    if bad:
                        _report(res, counts, {"kind": "int", "class": "opaque-int-lossy", "clause": bad[0], "got": bad[1],
                                              "key": keytxt, "ctx": {}, "pod": pod, "z": z})
            bump("opaque-int:" + e.ty, 1)
            continue
        extra = [v for _, v in e.cls.names] if e.cls else []
        zs = int_sweep(ctx, e.ty, extra)
        bump("%s/%s keys" % (e.kind, e.ty))
        for cv in ctx_values(e):
            ctxvars = entry_ctxvars(e, cv)
            block = make_block(e.key, ctxvars)
            for pod in (False, True):
                for z in zs:
                    lines.append("k %d %d %d %d" % (e.index, cv, int(pod), z))
                    t = impl_roundtrip_text(ser, block, z, pod)
                    expect.append(t)
                    meta.append((keytxt, ctxvars, pod, z))
                    if not t.startswith("i:") and t != "U -> -":
                        nontriv += 1
                    bad = check_int(ser, block, z, pod)
                    if bad:
                        _report(res, counts, {"kind": "int", "class": "int-lossy", "clause": bad[0], "got": bad[1],
                                              "key": keytxt, "ctx": ctxvars, "pod": pod, "z": z})
            step = max(1, len(zs) // ctx.pick(40, 400))
            for i in range(0, len(zs), step):
                bad = check_block_api(e.key, ser, ctxvars, zs[i], zs[(i * 7 + 3) % len(zs)])
                impl_only += 1
                if bad:
                    _report(res, counts, {"kind": "int-block", "class": "block-cache", "clause": bad[0], "got": bad[1],
                                          "key": keytxt, "ctx": ctxvars, "pod": False, "z": zs[i],
                                          "z_before": zs[(i * 7 + 3) % len(zs)]})
            # purity / no-aliasing probe on the same subset (only decoded values a caller can edit in place matter:
            # bit-field dicts and dataclasses; names, tuples of names, enum members are exempt)
            for pod in (False, True):
                for i in range(0, len(zs), step):
                    impl_only += 1
                    st, bad = check_purity(ser, zs[i], pod, key=e.key, ctxvars=ctxvars)
                    bump("purity probe: " + st)
                    if st == "bad":
                        _report(res, counts, purity_case(bad, keytxt, ctxvars, pod, zs[i]))
        # encode every member name (and an unknown one) directly
        if e.kind in ("enum", "flag"):
            block = make_block(e.key, {})
            for n in [n for n, _ in e.cls.names] + ["NO_SUCH_MEMBER_"]:
                pv = n if e.kind == "enum" else (n,)
                vt = "n:" + n if e.kind == "enum" else "t:[n:%s]" % n
                lines.append("s %s 0 %s" % (e.spec(), vt))
                try:
                    expect.append(enc_text(ser.serialize(block, pv)))
                except Exception:
                    expect.append("EXC")
                meta.append((keytxt, {}, True, vt))
                nontriv += 1
    # synthetic classes
    for s in synthetic_suite():
        bump("synthetic serializers")
        for cv in s["ctxs"]:
            block = _DictCtx(K=cv)
            for pod in (False, True):
                for z in SYN_Z:
                    lines.append("x %s %d %d %d" % (s["spec"], cv, int(pod), z))
                    t = impl_roundtrip_text(s["ser"], block, z, pod)
                    expect.append(t)
                    meta.append(("synthetic:" + s["spec"][:60], {"K": cv}, pod, z))
                    if not t.startswith("i:"):
                        nontriv += 1
            for pod in (False, True):
                for z in SYN_Z[::13]:
                    impl_only += 1
                    st, bad = check_purity(s["ser"], z, pod, block=block)
                    bump("purity probe: " + st)
                    if st == "bad":
                        _report(res, counts, purity_case(bad, "synthetic:" + s["spec"][:60], {"K": cv}, pod, z,
                                                         kind="purity-synthetic", spec=s["spec"]))
            for vt, pv in s["values"]:
                lines.append("s %s %d %s" % (s["spec"], cv, vt))
                try:
                    expect.append(enc_text(s["ser"].serialize(block, pv)))
                except Exception:
                    expect.append("EXC")
                meta.append(("synthetic:" + s["spec"][:60], {"K": cv}, True, vt))
                nontriv += 1
    model = ctx.run_driver(lines)
    for ln, m, x, mt in zip(lines, model, expect, meta):
        if m != x:
            if len(res.disagreements) < 50:
                res.disagreements.append({"key": mt[0], "ctx": mt[1], "pod": mt[2], "z": mt[3], "line": ln[:200],
                                          "model": m[:200], "impl": x[:200]})
    res.evaluations = len(lines) + impl_only
    res.distinct_nontrivial = nontriv
    dist["model-vs-impl lines"] = len(lines)
    dist["impl-only clause checks"] = impl_only
    res.distribution = dist
    res.samples = [{"line": lines[i][:120], "result": model[i][:120]} for i in (0, len(lines) // 3, len(lines) // 2, len(lines) - 1)]
    return res


# =====================================================================================
# byte-payload serializers (implementation-level oracle)

def byte_keys(reg):
    out = []
    for e in reg.entries:
        if e.inert or e.modelled or e.vtype not in ("MVT_VARIABLE", "MVT_FIXED"):
            continue
        out.append(e)
    return out


def _force(v):
    import lazy_object_proxy
    if isinstance(v, lazy_object_proxy.Proxy):
        return v.__wrapped__
    return v


def check_payload(ser, block, payload: bytes, pod: bool, produced: bool):
    """C09's byte clauses on one payload.  Returns ("rejected", None) when the serializer does not accept the
    payload, ("ok", None), or ("bad", (clause, detail))."""
    se = _se()
    try:
        v = _force(ser.deserialize(block, payload, pod=pod))
        cv = c09_values.canon(v)
    except Exception as e:
        if produced:
            return "bad", ("own output is accepted", "EXC:%s" % type(e).__name__)
        return "rejected", None
    if v is se.UNSERIALIZABLE:
        return "rejected", None
    try:
        b1 = ser.serialize(block, v)
    except Exception as e:
        return "bad", ("accepted payload re-encodes", "EXC:%s: %s" % (type(e).__name__, str(e)[:80]))
    if b1 is se.UNSERIALIZABLE:
        return "rejected", None
    b1 = bytes(b1)
    if produced and b1 != payload:
        return "bad", ("own output survives byte-for-byte", b1.hex()[:120])
    try:
        v1 = _force(ser.deserialize(block, b1, pod=pod))
        cv1 = c09_values.canon(v1)
    except Exception as e:
        return "bad", ("re-encoded payload is accepted", "EXC:%s: %s" % (type(e).__name__, str(e)[:80]))
    if cv1 != cv:
        return "bad", ("re-encoded payload decodes to the same value", repr(cv1)[:120])
    try:
        b2 = bytes(ser.serialize(block, v1))
    except Exception as e:
        return "bad", ("fixed point after one pass", "EXC:%s" % type(e).__name__)
    if b2 != b1:
        return "bad", ("fixed point after one pass", b2.hex()[:120])
    if pod:
        if not c09_values.has_nonfinite(v):
            try:
                lit = ast.literal_eval(repr(v))
                ok = c09_values.canon(lit) == cv and bytes(ser.serialize(block, lit)) == b1
            except Exception as e:
                ok = False
            if not ok:
                return "bad", ("plain-data repr() evaluates back to an equal value", repr(v)[:120])
    return "ok", None


def mutate(rng, b: bytes) -> bytes:
    r = rng.random()
    ba = bytearray(b)
    if r < 0.35 and ba:
        for _ in range(rng.choice((1, 1, 2, 4))):
            ba[rng.randrange(len(ba))] ^= 1 << rng.randrange(8)
    elif r < 0.5 and ba:
        ba[rng.randrange(len(ba))] = rng.choice((0, 1, 0x7F, 0x80, 0xFF))
    elif r < 0.65 and ba:
        del ba[rng.randrange(len(ba)):]
    elif r < 0.8:
        ba += bytes(rng.randrange(256) for _ in range(rng.choice((1, 2, 4, 16))))
    elif r < 0.9 and ba:
        i = rng.randrange(len(ba))
        del ba[i:i + rng.choice((1, 2, 4))]
    else:
        i = rng.randrange(len(ba) + 1)
        ba[i:i] = bytes(rng.randrange(256) for _ in range(rng.choice((1, 2, 4))))
    return bytes(ba)


_SWEPT = {}
SWEEP_BYTES = (0x00, 0x01, 0x7F, 0x80, 0xFC, 0xFD, 0xFE, 0xFF)


def payload_cases(ctx, e, n_gen, n_fuzz):
    """yields (ctxvars, payload, origin) for one byte-payload key"""
    ser = e.serializer
    rng = ctx.rng
    gen = c09_values.Gen(rng)
    for ctxvars, spec in c09_values.contexts_for(ser):
        block = make_block(e.key, ctxvars)
        produced = []
        if spec is not None:
            for _ in range(n_gen):
                try:
                    val = gen.value(spec, {})
                    if getattr(ser, "EMPTY_IS_NONE", False) and rng.random() < 0.03:
                        val = None
                    b = ser.serialize(block, val)
                except c09_values.Unsupported:
                    raise
                except Exception:
                    continue                   # the generator left the serializer's domain: not a case
                if isinstance(b, (bytes, bytearray)):
                    produced.append(bytes(b))
                    yield ctxvars, bytes(b), "generated", val
        # systematic per-byte boundary sweep over valid payloads: one position at a time set to each boundary byte
        # (catches leaf codecs that lose the top / bottom raws of an integer-backed field wherever it sits)
        bases = []
        swept = _SWEPT.setdefault(id(ctx), set())
        sweep_key = (id(ser), tuple(sorted(ctxvars.items())))
        do_sweep = sweep_key not in swept     # once per distinct serializer object and context (several keys share one)
        swept.add(sweep_key)
        for b in (sorted(set(produced), key=lambda x: (-len(x), x)) if do_sweep else ()):
            if not any(len(b) == len(o) for o in bases):
                bases.append(b)                      # one base per distinct length, longest first
            if len(bases) >= ctx.pick(2, 3):
                break
        for base in bases:
            n = len(base)
            limit = ctx.pick(64, 100000)
            if n <= max(limit, 90):
                positions = range(n)
            else:
                stride = -(-n // limit)
                off = rng.randrange(stride)
                positions = range(off, n, stride)
            for pos in positions:
                for bv in SWEEP_BYTES:
                    if base[pos] != bv:
                        yield ctxvars, base[:pos] + bytes((bv,)) + base[pos + 1:], "sweep", None
        # payloads of exactly the sizes that select a sub-template / fill a fixed-size template
        se = _se()
        sizes = set()
        if spec is not None:
            try:
                if isinstance(spec.calc_size(), int):
                    sizes.add(spec.calc_size())
            except Exception:
                pass
            if isinstance(spec, se.LengthSwitch):
                sizes |= {k for k in spec._choice_specs if isinstance(k, int)}
        for n in sorted(sizes):
            yield ctxvars, bytes(n), "sized-zeros", None
            for _ in range(ctx.pick(3, 40)):
                yield ctxvars, bytes(rng.randrange(256) for _ in range(n)), "sized-random", None
        for i in range(n_fuzz):
            r = rng.random()
            if produced and r < 0.6:
                yield ctxvars, mutate(rng, rng.choice(produced)), "mutated", None
            else:
                n = rng.choice((0, 1, 2, 4, 16, 17, 32, 48, 60, 76, 86, 512, rng.randrange(0, 120)))
                if rng.random() < 0.3:
                    yield ctxvars, bytes(n), "zeros", None
                else:
                    yield ctxvars, bytes(rng.randrange(256) for _ in range(n)), "random", None


def corr_bytes(ctx, reg):
    res = CorrResult(suite="byte-payload serializers: impl-level oracle",
                     rule="per registered byte-payload key and per context value selecting a sub-template (every key of "
                          "TEMPLATES plus an absent one; every subset of the switch flags): values generated from the "
                          "sub-template's own spec tree and serialized (= payloads the serializer can itself produce: must be "
                          "accepted and survive decode-encode byte-for-byte), a per-byte boundary sweep of those (every position - a strided subset of long payloads in the "
                          "quick tier - set to each of 00 01 7F 80 FC FD FE FF, one at a time; once per distinct serializer object when "
                          "it is registered under several keys), random mutations, and raw random / "
                          "zero byte strings (if accepted: one decode-encode pass must reach a fixed point that decodes to the same "
                          "value); each in object and plain-data form; plain-data values must consist of literals only and, "
                          "when they hold no inf/nan, repr() must evaluate back (ast.literal_eval) to an equal value that "
                          "serializes to the same bytes; purity / no-aliasing probe (decoding must be a function of serializer, "
                          "context values and payload bytes, otherwise the clauses above depend on what the process did before): "
                          "on every generated payload and the first few accepted payloads of each other origin per context value, "
                          "in both forms: decode P, deep snapshot (NaN-stable canonical form, cross-checked against copy.deepcopy), "
                          "decode P again (equal; no mutable object shared with the first result), edit the first result in place "
                          "as far as its type allows (dict: delete / overwrite / add keys; list: delete / overwrite / append; "
                          "dataclass and recordclass instances: setattr on the fields; bytearray / ndarray; nested containers "
                          "recursively), then decode P again through the same serializer and block, through a fresh Block holding "
                          "byte-identical data and (object form) through Block.deserialize_var on a fresh Block and twice on one "
                          "Block with an edit in between: each must equal the snapshot and re-encode exactly as the first pass did; "
                          "immutable results are exempt, objects of unknown classes (the UNSERIALIZABLE singleton) are never touched, "
                          "deserialize_var(make_copy=False) is a documented opt-out and not probed; "
                          "no model involved; non-trivial = accepted payloads")
    n_gen, n_fuzz = ctx.pick(14, 150), ctx.pick(24, 300)
    n_pure = ctx.pick(3, 30)
    _SWEPT.pop(id(ctx), None)
    counts, dist, pstat = {}, {}, {}
    accepted = evals = 0
    samples = []
    for e in byte_keys(reg):
        keytxt = ".".join(e.key)
        ser = e.serializer
        seen = set()
        k_acc = k_all = k_pure = k_pure_mut = 0
        pure_left = {}
        try:
            for ctxvars, payload, origin, source in payload_cases(ctx, e, n_gen, n_fuzz):
                sig = (tuple(sorted(ctxvars.items())), payload)
                if sig in seen:
                    continue
                seen.add(sig)
                block = make_block(e.key, ctxvars)
                acc_here = False
                for pod in (False, True):
                    evals += 1
                    k_all += 1
                    st, bad = check_payload(ser, block, payload, pod, produced=(origin == "generated"))
                    if st == "rejected":
                        continue
                    accepted += 1
                    k_acc += 1
                    acc_here = True
                    if st == "bad":
                        _report(res, counts, {"kind": "bytes", "class": classify_bytes(keytxt, bad[0], ser, block, payload, source), "clause": bad[0],
                                              "detail": bad[1], "key": keytxt, "ctx": ctxvars, "pod": pod,
                                              "payload": payload.hex(), "origin": origin})
                # purity / no-aliasing probe, after the clauses above so that it never influences them: every
                # generated (= own output) payload and the first n_pure accepted payloads of every other origin,
                # per context value
                if acc_here:
                    bk = (sig[0], origin)
                    left = pure_left.get(bk, n_pure)
                    if origin == "generated" or left > 0:
                        pure_left[bk] = left - 1
                        for pod in (False, True):
                            evals += 1
                            k_pure += 1
                            st, bad = check_purity(ser, payload, pod, key=e.key, ctxvars=ctxvars)
                            pstat[st] = pstat.get(st, 0) + 1
                            if st in ("ok", "bad"):
                                k_pure_mut += 1
                            if st == "bad":
                                _report(res, counts, purity_case(bad, keytxt, ctxvars, pod, payload, origin=origin))
                if origin == "generated" and len(samples) < 6 and len(payload) < 40:
                    samples.append({"key": keytxt, "ctx": ctxvars, "payload": payload.hex()})
        except c09_values.Unsupported as ex:
            ctx.notes.append("value generator does not know spec %s used by %s: fuzz only" % (ex, keytxt))
        dist[keytxt] = "%d/%d accepted; purity probe %d (%d on editable results)" % (k_acc, k_all, k_pure, k_pure_mut)
    dist["~ purity probe, all keys"] = ", ".join("%s=%d" % kv for kv in sorted(pstat.items())) or "none"
    ctx.notes.append("purity / no-aliasing probe (byte-payload keys): " + dist["~ purity probe, all keys"] +
                     "; skip reasons so far (all suites): " +
                     ", ".join("%s=%d" % kv for kv in sorted(PURITY_STATS.items()) if kv[0].startswith("skip: ")))
    res.evaluations = evals
    res.distinct_nontrivial = accepted
    res.distribution = dist
    res.samples = samples
    return res


def classify_bytes(key, clause, ser=None, block=None, payload=None, source=None):
    """stable defect class of a byte-payload failure; two root-cause rules, else the failed clause"""
    try:
        v = source if isinstance(source, dict) else _force(ser.deserialize(block, payload, pod=False))
        if isinstance(v, dict) and "NameValue" in v and not v["NameValue"] and int(v.get("Flags", 0)) & 0x100:
            return "compressed-empty-namevalue-terminator"
        te = v.get("TextureEntry") if isinstance(v, dict) else v
        te = _force(te)
        rot = getattr(te, "Rotation", None)
        if isinstance(rot, dict) and any(x == -2 * math.pi for x in rot.values()):
            return "te-rotation-raw-min"          # PackedTERotation raw -32768 (C10's defect seen through a TE payload)
    except Exception:
        pass
    return "bytes:" + clause.replace(" ", "-")


# =====================================================================================
# byte-payload serializers: the combinator model (Spec.de / Spec.ser, through C08's extracted driver) vs the real
# registered serializers, on accepted NON-CANONICAL payloads

def _payload_driver(ctx):
    """C08's extracted interpreter (theories/Extract/ExC08.v + c08_driver.ml), built in a private directory"""
    from harness.common import framework as F
    ok, log, exe = F.build_driver("C09payload", "theories/Extract/ExC08.v", "c08_driver.ml")
    if not ok:
        raise RuntimeError("C08 driver (Spec.ser / Spec.de) did not build: " + log[-600:])
    return exe


def impl_pass(en, payload: bytes, pod: bool):
    """one decode-encode pass of the REAL registered serializer on one payload, observed for the comparison with the
    model.  -> ("skip", why) | ("reject",) | ("ok", value, value_sx | None, re-encoded bytes | "EXC:...")"""
    from harness.props import c08 as C08
    from harness.translate import c08_specs as S
    se = _se()
    ser = en.ser
    block = make_block(en.key, en.ctxvars)
    guess = getattr(ser, "_get_target_template", None)
    if guess is not None:
        try:
            if guess(block, payload) is not en.spec:
                return ("skip", "another template is guessed for this payload")
        except Exception:
            return ("skip", "template guess raised")
    cls = C08._guard_cls()
    C08._STATE["budget"] = C08.READ_BUDGET
    C08._STATE["neg"] = False
    old = se.BufferReader
    se.BufferReader = cls                 # detects negative byte counts (the real reader seeks backwards: not modelled)
    try:
        try:
            v = _force(ser.deserialize(block, payload, pod=pod))
            c09_values.canon(v)           # forces every lazy member
        except C08.Hang:
            return ("skip", "read budget")
        except Exception:
            return ("skip", "negative byte count") if C08._STATE["neg"] else ("reject",)
    finally:
        se.BufferReader = old
    if C08._STATE["neg"]:
        return ("skip", "negative byte count")
    if v is se.UNSERIALIZABLE:
        return ("reject",)
    try:
        vsx = S.to_sx(en.node, pod, v)
    except S.Shape:
        vsx = None
    except Exception:
        vsx = None
    if guess is not None:
        try:
            if guess(block, v) is not en.spec:
                return ("skip", "another template is guessed for the decoded value")
        except Exception:
            return ("skip", "template guess raised")
    try:
        b1 = ser.serialize(block, v)
        b1 = bytes(b1) if isinstance(b1, (bytes, bytearray)) else "EXC:not-bytes"
    except Exception as ex:
        b1 = "EXC:" + type(ex).__name__
    return ("ok", v, vsx, b1)


def payload_obs_text(obs, model=None):
    """one-line observation of a pass: 'reject' | 'accept <value> -> <bytes>' (value omitted when not representable)"""
    from harness.translate import c08_specs as S
    if obs[0] != "ok":
        return obs[0] if obs[0] == "reject" else "skip: " + str(obs[1])
    b1 = obs[3]
    return "accept %s -> %s" % (obs[2] if obs[2] is not None else "?", "ERR" if isinstance(b1, str) else S.hb(b1))


WITNESSES = [
    # (name in Props/C09.v, spec, payload, what one decode-encode pass does)
    ("C09_str_null_term_refuted", "( str u 1 1 )", bytes([255]) + b"A" * 255, "accepted, re-encoding fails"),
    ("C09_typed_fixed_noncanonical_refuted", "( typed ( fixed 2 ) 0 1 ( cstr ( 0 ) 1 1 ) )", b"AB", "accepted, re-encoding fails"),
    ("C09_lenswitch_default_noncanonical_refuted", "( lenswitch ( 1 ( prim u 1 ) ) ( none ( cstr ( 0 ) 1 1 ) ) )", b"",
     "accepted, re-encoding decodes to another value"),
    ("C09_bitfield_bool_unshifted_refuted", "( adapter ( bitfield 0 ( 0 7 ( none ) ) ( 1 1 ( bool ) ) ) ( prim u 1 ) )", bytes([128]),
     "accepted, re-encoding fails"),
]


def _witness_cases(exe, F):
    """the witnesses of the ..._refuted theorems, replayed on the REAL combinator classes and on the extracted model: the
    classes excluded from sound_frag really do accept a payload they cannot write back / that lands on another value"""
    from harness.props import c08 as C08
    from harness.translate import c08_specs as S
    out = []
    for name, sx, payload, expect in WITNESSES:
        node = S.node_of_sx(S.parse_sx(sx))
        obj = S.build(node)

        def classify(accepted, reenc, redecoded_same):
            if not accepted:
                return "rejected"
            if reenc is None:
                return "accepted, re-encoding fails"
            return "accepted, re-encoding decodes to the same value" if redecoded_same else "accepted, re-encoding decodes to another value"
        # implementation
        r = C08.impl_de(obj, payload, "<", False)
        if r[0] != "OK" or r[2] != 0:
            impl = classify(False, None, False)
        else:
            b1 = C08.impl_ser(obj, r[1], "<")
            if isinstance(b1, str):
                impl = classify(True, None, False)
            else:
                r2 = C08.impl_de(obj, bytes(b1), "<", False)
                try:
                    same = r2[0] == "OK" and r2[2] == 0 and S.to_sx(node, False, r2[1]) == S.to_sx(node, False, r[1])
                except Exception:
                    same = False
                impl = classify(True, bytes(b1), same)
        # model
        m = F.run_driver(exe, ["de < 0 %s %s" % (sx, S.hb(payload))])[0].strip()
        if not m.startswith("OK ") or m.rsplit(" ", 1)[1] != "0":
            model = classify(False, None, False)
        else:
            val = m[3:].rsplit(" ", 1)[0]
            m2 = F.run_driver(exe, ["ser < %s %s" % (sx, val)])[0].strip()
            if not m2.startswith("OK "):
                model = classify(True, None, False)
            else:
                m3 = F.run_driver(exe, ["de < 0 %s %s" % (sx, m2[3:])])[0].strip()
                model = classify(True, m2[3:], m3 == m)
        out.append({"name": name, "spec": sx, "payload": payload.hex(), "expect": expect, "impl": impl, "model": model})
    return out


def model_cases(ctx, en, n_gen, n_pos, n_vals):
    """payloads for one (key, context) spec tree: own output of generated values, a per-byte sweep of one or two of them
    (structured non-canonical inputs: presence bytes other than 0/1, unknown enum values and flag bits, lengths, ...),
    truncations / extensions, and the sizes that select LengthSwitch branches"""
    rng = ctx.rng
    gen = c09_values.Gen(rng)
    block = make_block(en.key, en.ctxvars)
    produced = []
    for _ in range(n_gen * 3):
        if len(produced) >= n_gen:
            break
        try:
            b = en.ser.serialize(block, gen.value(en.spec, {}))
        except c09_values.Unsupported:
            break
        except Exception:
            continue
        if isinstance(b, (bytes, bytearray)) and bytes(b) not in produced:
            produced.append(bytes(b))
    for b in produced:
        yield b, "generated"
    bases = sorted(set(produced), key=lambda x: (-len(x), x))[:2]
    if not bases:
        se = _se()
        try:
            n = en.spec.calc_size()
        except Exception:
            n = None
        bases = [bytes(n)] if isinstance(n, int) else []
    noncanon = not en.canon          # trees with non-canonical inputs: every position, presence-like bytes always included
    if noncanon:
        for b in produced:
            if b:
                yield b[:-1], "truncated"          # e.g. a final C string without its terminator
                yield b[:-1] + bytes((rng.randrange(1, 256),)), "mutated"
    for base in bases:
        n = len(base)
        cap = max(n_pos, 96) if noncanon else n_pos
        positions = list(range(n)) if n <= cap else sorted(rng.sample(range(n), cap))
        for pos in positions:
            vals = set(rng.sample(SWEEP_BYTES, min(n_vals, len(SWEEP_BYTES)))) | {2, rng.randrange(256)}
            if noncanon:
                vals |= {0, 1, 0xFF}
            for bv in sorted(vals):
                if base[pos] != bv:
                    yield base[:pos] + bytes((bv,)) + base[pos + 1:], "sweep"
        if n:
            yield base[:-1], "truncated"
            yield base[:n // 2], "truncated"
        yield base + b"\x00", "extended"
        yield base + bytes((rng.randrange(1, 256),)), "extended"
        for _ in range(n_vals):
            yield mutate(rng, base), "mutated"
    yield b"", "empty"
    se = _se()
    if isinstance(en.spec, se.LengthSwitch):
        for k in en.spec._choice_specs:
            if isinstance(k, int):
                yield bytes(k), "sized"
                yield bytes(rng.randrange(256) for _ in range(k)), "sized"


def corr_payload_model(ctx, reg):
    from harness.common import framework as F
    from harness.translate import c08_specs as S
    res = CorrResult(suite="byte-payload serializers: one decode-encode pass, real registered serializer vs the combinator model "
                           "(Spec.de then Spec.ser, extracted)",
                     rule="for every (registered byte-payload key, context value) whose spec tree is translated to a Spec term "
                          "(harness/translate/c09_payload.py; inside AND outside the proved fragment): payloads = the serializer's own "
                          "output on values generated from its spec, a per-byte sweep of those (positions x boundary bytes 00 01 02 7F 80 "
                          "FC..FF + a random byte: presence bytes other than 0/1, unknown enum values / flag bits, wrong lengths), "
                          "truncations, extensions, random mutations, the empty payload and the sizes selecting LengthSwitch branches; each "
                          "in object and plain-data form through (a) ser.deserialize(block, payload) / ser.serialize(block, value) of the "
                          "REAL registered serializer with the Block holding the context value and (b) the extracted Spec.de (little "
                          "endian, root context, accepted iff no byte is left = CHECK_TRAILING_BYTES; EMPTY_IS_NONE applied as in "
                          "SpecSound.simple_decode) followed by Spec.ser on the value the MODEL decoded.  Compared: accepted or not, the "
                          "decoded value (spec-directed translation of the Python value; NaN matches any NaN pattern), the re-encoded "
                          "bytes (skipped when the value holds a NaN: CPython quiets signalling NaNs, the model keeps float bits).  "
                          "Skipped (counted): payloads making the real reader seek backwards (negative byte count), TransferInfo payloads "
                          "for which the size-based guess picks another template.  non-trivial = accepted payloads that are NOT their own "
                          "re-encoding or that were not produced by the serializer itself")
    ents = [en for en in c09_payload.entries(reg) if en.node is not None]
    n_gen, n_pos, n_vals = ctx.pick(3, 10), ctx.pick(10, 120), ctx.pick(2, 4)
    cases = []        # (entry, payload, origin, pod, impl observation)
    dist = {}
    seen_tree = {}

    def bump(k, n=1):
        dist[k] = dist.get(k, 0) + n

    for en in ents:
        sx = S.sexp(en.node)
        tkey = (sx, en.empty_none, id(en.ser) if getattr(en.ser, "_get_target_template", None) else 0)
        first = tkey not in seen_tree          # several keys / context values share one tree (e.g. the two TypeData keys)
        seen_tree[tkey] = True
        seen = set()
        try:
            stream = list(model_cases(ctx, en, n_gen if first else 1, n_pos if first else 4, n_vals))
        except Exception as ex:
            ctx.notes.append("payload model suite: case generator failed for %s: %s" % (en.label, type(ex).__name__))
            continue
        for payload, origin in stream:
            if payload in seen:
                continue
            seen.add(payload)
            for pod in (False, True):
                if en.empty_none and payload == b"":
                    bump("EMPTY_IS_NONE shortcut (b'' <-> None, no template involved)")
                    continue
                obs = impl_pass(en, payload, pod)
                if obs[0] == "skip":
                    bump("skipped: " + obs[1])
                    continue
                cases.append((en, sx, payload, origin, pod, obs))
    exe = _payload_driver(ctx)
    try:
        lines = ["de < %d %s %s" % (int(pod), sx, S.hb(payload)) for en, sx, payload, origin, pod, obs in cases]
        out1 = F.run_driver(exe, lines, timeout=900) if lines else []
        second, idx = [], []
        for i, ((en, sx, payload, origin, pod, obs), m) in enumerate(zip(cases, out1)):
            m = m.strip()
            if m.startswith("OK "):
                val, left = m[3:].rsplit(" ", 1)
                if left == "0":
                    if en.empty_none and val.strip() == "( none )":
                        continue                      # simple_encode: None is written as b"" without the template
                    idx.append(i)
                    second.append("ser < %s %s" % (sx, val))
        out2 = F.run_driver(exe, second, timeout=900) if second else []
        wit = _witness_cases(exe, F)
    finally:
        import shutil
        shutil.rmtree(os.path.dirname(exe), ignore_errors=True)
    ser_of = dict(zip(idx, out2))
    nontriv = 0
    per_key = {}
    for i, ((en, sx, payload, origin, pod, obs), m) in enumerate(zip(cases, out1)):
        m = m.strip()
        st = per_key.setdefault(en.label, [0, 0])
        st[0] += 1
        m_acc, m_val, m_b = False, None, None
        if m.startswith("OK "):
            m_val, left = m[3:].rsplit(" ", 1)
            m_val = m_val.strip()
            m_acc = left == "0"
        if m_acc:
            m_b = "OK -" if (en.empty_none and m_val == "( none )") else ser_of.get(i, "?").strip()
        model_obs = "reject" if not m_acc else "accept %s -> %s" % (m_val, m_b[3:] if m_b.startswith("OK ") else "ERR")
        info = {"key": en.keytxt, "ctx": en.ctxvars, "pod": pod, "payload": payload.hex(), "origin": origin,
                "in_fragment": en.inside, "model_obs": model_obs[:1500], "impl_obs": payload_obs_text(obs)[:1500]}
        if not m.startswith(("OK ", "ERR")):
            res.disagreements.append(dict(info, what="model driver could not run the case", model=m[:200]))
            continue
        if obs[0] == "reject":
            bump("rejected by both" if not m_acc else "rejected by impl only")
            if m_acc:
                res.disagreements.append(dict(info, what="accepted by the model, rejected by the implementation", model=m[:300],
                                              impl="rejected"))
            continue
        _, v, vsx, b1 = obs
        if not m_acc:
            bump("accepted by impl only")
            res.disagreements.append(dict(info, what="accepted by the implementation, rejected by the model", model=m[:300],
                                          impl=(vsx or repr(v))[:300]))
            continue
        st[1] += 1
        bump("accepted by both: " + origin)
        if vsx is None:
            bump("decoded value not representable in the model's value language (value not compared)")
        elif not S.same_value(vsx, m_val):
            res.disagreements.append(dict(info, what="decoded value", model=m_val[:400], impl=vsx[:400]))
            continue
        i_b = "ERR" if isinstance(b1, str) else "OK " + S.hb(b1)
        if vsx is not None and "nan" in vsx:
            bump("re-encoded bytes not compared (NaN)")
            continue
        if i_b != ("ERR" if m_b.startswith("ERR") else m_b):
            res.disagreements.append(dict(info, what="re-encoded bytes", model=m_b[:400],
                                          impl=(b1 if isinstance(b1, str) else i_b)[:400], model_value=m_val[:300]))
            continue
        if not isinstance(b1, str) and (b1 != payload or origin != "generated"):
            nontriv += 1
        if not isinstance(b1, str) and b1 != payload:
            bump("accepted NON-CANONICAL payloads (re-encoding differs from the input)")
            if en.inside and en.canon:
                res.disagreements.append(dict(info, what="a payload of a spec proved canonical is not its own re-encoding",
                                              model=m_b[:300], impl=i_b[:300]))
    for w in wit:
        bump("refutation witnesses replayed on the real classes")
        if w["model"] != w["impl"] or w["model"] != w["expect"]:
            res.disagreements.append({"what": "refutation witness (Props/C09.v) no longer behaves as proved / as the real class",
                                      "witness": w["name"], "spec": w["spec"], "payload": w["payload"], "model": w["model"],
                                      "impl": w["impl"], "expected": w["expect"]})
    res.evaluations = len(cases) + len(second) + 2 * len(wit)
    res.distinct_nontrivial = nontriv
    dist["spec trees (key, context)"] = len(ents)
    dist["~ per (key, context): cases/accepted"] = "; ".join("%s %d/%d" % (k, a[0], a[1]) for k, a in sorted(per_key.items()))[:6000]
    res.distribution = dist
    res.samples = [{"key": en.label, "pod": pod, "payload": payload.hex()[:80], "origin": origin, "model": m[:100]}
                   for (en, sx, payload, origin, pod, obs), m in list(zip(cases, out1))[:: max(1, len(cases) // 5)][:5]]
    del res.disagreements[40:]
    return res


# =====================================================================================
# date fields per time zone

ZONES = ("UTC", "America/New_York")


def run_dates(ctx, tz, n, explicit=()):
    env = dict(os.environ)
    env["TZ"] = tz
    env["PYTHONPATH"] = ctx.repo + os.pathsep + VERIF
    cmd = [sys.executable, "-W", "ignore", "-m", "harness.translate.c09_dates", tz, str(ctx.seed), str(n)] + [str(x) for x in explicit]
    p = subprocess.run(cmd, env=env, cwd=VERIF, stdout=subprocess.PIPE, stderr=subprocess.PIPE, text=True, timeout=900)
    if p.returncode != 0:
        raise RuntimeError("date worker failed under TZ=%s: %s" % (tz, p.stderr[-600:]))
    return json.loads(p.stdout.strip().splitlines()[-1])


def corr_dates(ctx, reg):
    res = CorrResult(suite="date serializers per process time zone: impl-level integer clause",
                     rule="for every registered DateAdapter key, in a subprocess per zone (%s; TZ set + time.tzset()): wire "
                          "range boundaries, every quarter hour around six DST transitions (x multiplier, with and without a "
                          "sub-second part), float-precision witnesses, year-9999 limits and seeded random integers; each in "
                          "object and plain-data form through the integer clause; no model (datetime / zone database); "
                          "non-trivial = all" % ", ".join(ZONES))
    counts = {}
    for tz in ZONES:
        r = run_dates(ctx, tz, ctx.pick(400, 20000))
        res.evaluations += r["evaluations"]
        res.distinct_nontrivial += r["evaluations"]
        res.distribution[tz] = r["counts"] or "no failures"
        res.samples += r["samples"][:2]
        for v in r["violations"]:
            _report(res, counts, v)
    return res


# =====================================================================================

def correspond_te(ctx):
    """B5: extracted TextureEntry framing model vs TEFaceBitfield / TEExceptionField / TE_SERIALIZER / registered wrappers"""
    return c09_te.correspond_te(ctx)


def correspond(ctx):
    reg = c09_registry.load()
    out = [corr_registry(ctx, reg)]
    corpus_res = run_corpus(ctx)
    if corpus_res:
        out.append(corpus_res)
    POD_VALUES.clear()
    PURITY_STATS.clear()
    POD_CAP[0] = ctx.pick(4000, 80000)
    out += [corr_ints(ctx, reg), corr_literals(ctx), corr_bytes(ctx, reg), corr_payload_model(ctx, reg), corr_dates(ctx, reg)]
    out += correspond_te(ctx)       # B5
    summary = {}
    for r in out:
        for v in r.impl_violations:
            k = "%s @ %s" % (v.get("class"), v.get("key"))
            summary[k] = summary.get(k, 0) + 1
    if summary:
        ctx.notes.append("impl-level failures by defect class (before known-finding matching): " +
                         "; ".join("%s x%d" % kv for kv in sorted(summary.items())))
    return out


def run_corpus(ctx):
    d = os.path.join(VERIF, "corpus", "C09")
    if not os.path.isdir(d):
        return None
    res = CorrResult(suite="corpus/C09 regression cases", rule="every minimized case of corpus/C09/*.json is replayed through "
                     "the impl-level oracle first; cases marked expect=fails are known defects (must still be reported), "
                     "the others must hold; non-trivial = all", exhaustive=True)
    for fn in sorted(os.listdir(d)):
        if not fn.endswith(".json"):
            continue
        data = json.load(open(os.path.join(d, fn)))
        for case in data.get("cases", []):
            res.evaluations += 1
            res.distinct_nontrivial += 1
            fails, detail = replay(ctx, case)
            if fails:
                v = dict(case)
                if case.get("kind") == "purity" and isinstance(detail, tuple) and len(detail) == 3:
                    v["class"], v["clause"], v["detail"] = detail[0], detail[1], str(detail[2])[:700]
                else:
                    v.setdefault("clause", "corpus case holds")
                    v["detail"] = str(detail)[:200]
                res.impl_violations.append(v)
            elif case.get("kind") == "purity" and detail != "ok":
                ctx.notes.append("corpus case %s/%s: the purity probe is vacuous here (%s)" % (fn, case.get("key"), detail))
            elif case.get("expect") == "fails":
                ctx.notes.append("corpus case %s/%s (class %s) no longer fails" % (fn, case.get("key"), case.get("class")))
    return res


def _entry_by_key(reg, keytxt):
    for e in reg.entries:
        if ".".join(e.key) == keytxt:
            return e
    return None


def replay(ctx, case):
    reg = c09_registry.load()
    kind = case.get("kind")
    if str(kind).startswith("te"):      # B5
        return c09_te.replay(ctx, case)
    if kind == "date":
        r = run_dates(ctx, case["tz"], 0, explicit=(case["key"], case["z"]))
        bad = [v for v in r["violations"] if v["pod"] == case.get("pod", v["pod"])]
        return (bool(bad), bad[0] if bad else "holds")
    if kind == "purity-synthetic":
        for s in synthetic_suite():
            if s["spec"] == case.get("spec"):
                st, bad = check_purity(s["ser"], int(case["z"]), bool(case["pod"]), block=_DictCtx(case.get("ctx") or {}), full=True)
                return (st == "bad"), (bad or st)
        return False, "synthetic serializer %r does not exist any more" % case.get("spec")
    e = _entry_by_key(reg, case.get("key", ""))
    if e is None:
        return False, "key %r is not registered any more" % case.get("key")
    block = make_block(e.key, case.get("ctx") or {})
    if kind == "int":
        bad = check_int(e.serializer, block, int(case["z"]), bool(case["pod"]))
        return (bad is not None), (bad or "holds")
    if kind == "int-block":
        bad = check_block_api(e.key, e.serializer, case.get("ctx") or {}, int(case["z"]), int(case.get("z_before", 0)))
        return (bad is not None), (bad or "holds")
    if kind == "bytes":
        st, bad = check_payload(e.serializer, block, bytes.fromhex(case["payload"]), bool(case["pod"]),
                                produced=(case.get("origin") == "generated"))
        return (st == "bad"), (bad or st)
    if kind == "value":
        # a value given as a Python literal: the payload the serializer produces for it must survive
        try:
            payload = bytes(e.serializer.serialize(block, ast.literal_eval(case["value"])))
        except Exception as ex:
            return False, "value no longer serializes: %s" % type(ex).__name__
        st, bad = check_payload(e.serializer, block, payload, bool(case["pod"]), produced=True)
        return (st == "bad"), (bad or st)
    if kind == "purity":
        raw = bytes.fromhex(case["payload"]) if "payload" in case else int(case["z"])
        st, bad = check_purity(e.serializer, raw, bool(case["pod"]), key=e.key, ctxvars=case.get("ctx") or {}, full=True)
        return (st == "bad"), (bad or st)
    if kind == "payload-model":
        # a model / implementation disagreement on one decode-encode pass: first the property's own clauses on the
        # implementation, then the implementation's observation against the recorded observation of the model
        payload = bytes.fromhex(case["payload"])
        st, bad = check_payload(e.serializer, block, payload, bool(case["pod"]), produced=(case.get("origin") == "generated"))
        if st == "bad":
            return True, bad
        en = None
        for x in c09_payload.entries(reg):
            if x.keytxt == case["key"] and x.ctxvars == (case.get("ctx") or {}) and x.node is not None:
                en = x
                break
        if en is None:
            return False, "no translated spec tree for this key / context any more"
        obs = impl_pass(en, payload, bool(case["pod"]))
        now = payload_obs_text(obs)
        return (now != case.get("model_obs")), "implementation: %s; model (recorded): %s" % (now, case.get("model_obs"))
    if kind == "int-model":
        # a model/implementation disagreement on an integer case: report what the implementation does
        t = impl_roundtrip_text(e.serializer, block, int(case["z"]), bool(case["pod"]))
        bad = check_int(e.serializer, block, int(case["z"]), bool(case["pod"]))
        return (bad is not None), (bad or t)
    return False, "unknown case kind"


def search(ctx, hints):
    """impl-level oracle: first failing case of the property on the implementation"""
    reg = c09_registry.load()
    for h in hints:                     # B5: a TextureEntry model/implementation difference is its own concrete case
        d = h.get("disagreement")
        if d and str(d.get("kind", "")).startswith("te"):
            d = dict(d)
            d.setdefault("class", "te-model:" + str(d.get("what", "")).replace(" ", "-"))
            d.setdefault("clause", "the TextureEntry / ExtraParams framing does what the proved framing model computes (" + str(d.get("what")) + ")")
            return d
    for h in hints:
        d = h.get("disagreement")
        if d and isinstance(d.get("z"), int) and not str(d.get("key", "")).startswith("synthetic"):
            e = _entry_by_key(reg, d["key"])
            if e is not None:
                block = make_block(e.key, d.get("ctx") or {})
                bad = check_int(e.serializer, block, d["z"], bool(d["pod"]))
                if bad:
                    return {"kind": "int", "class": "int-lossy", "clause": bad[0], "got": bad[1], "key": d["key"],
                            "ctx": d.get("ctx") or {}, "pod": bool(d["pod"]), "z": d["z"]}
    for h in hints:
        d = h.get("disagreement")
        if d and "payload" in d and "key" in d:
            e = _entry_by_key(reg, d["key"])
            if e is None:
                continue
            block = make_block(e.key, d.get("ctx") or {})
            st, bad = check_payload(e.serializer, block, bytes.fromhex(d["payload"]), bool(d["pod"]),
                                    produced=(d.get("origin") == "generated"))
            if st == "bad":
                return shrink_case(ctx, reg, {"kind": "bytes", "class": classify_bytes(d["key"], bad[0], e.serializer, block,
                                                                                       bytes.fromhex(d["payload"]), None),
                                              "clause": bad[0], "detail": bad[1], "key": d["key"], "ctx": d.get("ctx") or {},
                                              "pod": bool(d["pod"]), "payload": d["payload"], "origin": d.get("origin")})
            return {"kind": "payload-model", "class": "payload-model:" + str(d.get("what", "")).replace(" ", "-"),
                    "clause": "one decode-encode pass of the registered serializer is what the proved combinator model computes (" +
                              str(d.get("what")) + ")",
                    "key": d["key"], "ctx": d.get("ctx") or {}, "pod": bool(d["pod"]), "payload": d["payload"],
                    "origin": d.get("origin"), "model_obs": d.get("model_obs"), "impl_obs": d.get("impl_obs"),
                    "model": d.get("model"), "impl": d.get("impl")}
    v = search_ints(ctx, reg)
    if v:
        return v
    for suite in (corr_bytes, corr_dates):
        try:
            r = suite(ctx, reg)
        except Exception:
            continue
        if r.impl_violations:
            return shrink_case(ctx, reg, r.impl_violations[0])
    return None


def search_ints(ctx, reg):
    """the integer clause on the implementation alone (no model, no driver needed)"""
    for e in reg.entries:
        if e.inert or e.ty is None:
            continue
        a = getattr(e.serializer, "ADAPTER", None)
        if type(a).__name__ == "DateAdapter":
            continue
        extra = [v for _, v in e.cls.names] if e.cls else []
        zs = int_sweep(ctx, e.ty, extra)
        for cv in ctx_values(e):
            ctxvars = entry_ctxvars(e, cv)
            block = make_block(e.key, ctxvars)
            for pod in (False, True):
                for z in zs:
                    bad = check_int(e.serializer, block, z, pod)
                    if bad:
                        return {"kind": "int", "class": "int-lossy", "clause": bad[0], "got": bad[1], "key": ".".join(e.key),
                                "ctx": ctxvars, "pod": pod, "z": z}
            for i in range(0, len(zs), max(1, len(zs) // 40)):
                bad = check_block_api(e.key, e.serializer, ctxvars, zs[i], zs[(i * 7 + 3) % len(zs)])
                if bad:
                    return {"kind": "int-block", "class": "block-cache", "clause": bad[0], "got": bad[1], "key": ".".join(e.key),
                            "ctx": ctxvars, "pod": False, "z": zs[i], "z_before": zs[(i * 7 + 3) % len(zs)]}
                for pod in (False, True):
                    st, bad = check_purity(e.serializer, zs[i], pod, key=e.key, ctxvars=ctxvars)
                    if st == "bad":
                        return purity_case(bad, ".".join(e.key), ctxvars, pod, zs[i])
    return None


def shrink_case(ctx, reg, case):
    if case.get("kind") != "bytes":
        return case
    e = _entry_by_key(reg, case["key"])
    block = make_block(e.key, case.get("ctx") or {})
    payload = bytes.fromhex(case["payload"])
    produced = case.get("origin") == "generated"
    if produced:
        return case
    changed = True
    while changed and len(payload) > 1:
        changed = False
        for i in range(len(payload)):
            t = payload[:i] + payload[i + 1:]
            st, bad = check_payload(e.serializer, block, t, bool(case["pod"]), False)
            if st == "bad" and bad[0] == case["clause"]:
                payload, changed = t, True
                case = dict(case, payload=t.hex(), detail=bad[1])
                break
    return case
