"""C12 - LLSD forms are faithful: messages over LLSD and the LLSD codecs round-trip.

Model: coq/theories/Llsd/{Llsd,LlsdString,LlsdBinary,LlsdNotation}.v
Suites:
  1. binary codec, implementation vs extracted model, byte for byte (format +-header, parse, malformed streams,
     BinaryLLSD reader consumption)
  2. notation: STRING formatter + _parse_string_delim escape machine + whole-tree formatter vs model, byte for byte
  3. impl-level oracle of the statement over generated LLSD trees x {binary +-header, notation, XML, zipped}
  4. dates in TZ in {UTC, America/New_York, Australia/Lord_Howe} (subprocesses)
  5. impl-level oracle over template-generated messages x {dict, XML}
"""
import calendar
import datetime
import itertools
import json
import os
import random
import struct
import subprocess
import sys
import uuid as uuidmod

from harness.common.framework import CorrResult, VERIF

PROP_ID = "C12"
COQ_PROPS = "theories/Props/C12.v"
EXTRACT = ("theories/Extract/ExC12.v", "c12_driver.ml")
EXTRACT_Z = True
TRUSTED = [
    "modelled by hand: llsd._format_binary_recurse/format_binary/parse_binary/HippoLLSDBinaryParser + "
    "llsd.serde_binary.LLSDBinaryParser (_parse, _parse_map, _parse_array, _parse_string_raw) + llsd.base "
    "(_peek/_getc/_parse_string_delim/_hex_as_nybble); HippoLLSDNotationFormatter/LLSDNotationFormatter "
    "(all type handlers); llsd.serde_notation.LLSDNotationParser (parse, _parse, _parse_map, _parse_array, all scalar "
    "parsers, the extents of _int_regex/_real_regex/_true_regex/_false_regex, _get_until)",
    "the notation parser model is a partial function refined by the implementation (Some = the implementation returns "
    "exactly this, None = parse error or outside the model); outside the model, never emitted by the formatter: the sized "
    "forms s(size)'..' and b(size)\"..\", UUID spellings other than 8-4-4-4-12 hex digits, non-canonical base64/base16 "
    "text, a missing closing quote after b64\"; on mutated notation text the correspondence is therefore one-sided "
    "(wherever the model is defined the implementation must agree), on formatter output it is exact",
    "abstraction: str/uri = their UTF-8 bytes (bytes.decode('utf-8') strictness is modelled by utf8_valid and "
    "compared with CPython on every case), float = its 64 IEEE bits (struct '!d'), datetime = the 64 bits of its POSIX "
    "timestamp; datetime.timestamp()/fromtimestamp()/isoformat(), repr(float)/float(text) and llsd._format_datestr/"
    "_parse_datestr are library functions, not modelled: the notation model takes them as oracle functions "
    "(rreal/preal/rdate/pdate), tabulated by the harness from the live library for every case; the notation theorem "
    "assumes (a) _real_regex matches exactly repr(x) before a separator and the date string is plain ASCII - both checked "
    "on every rendering met - and (b) per value float(repr(x)) = x and _parse_datestr(_format_datestr(d)) = d, the latter "
    "being false for the recorded microsecond-truncation finding; the date<->timestamp step is covered by the impl-level "
    "oracle (incl. three process time zones)",
    "XML (llsd.serde_xml + expat) and zlib are third-party oracles: those legs are covered by the impl-level "
    "round-trip oracle only (partial; C12_zip_roundtrip assumes zlib lossless)",
    "message<->LLSD: the per-variable packing table (LLSDDataPacker.SPECS + pass-through) is modelled (LlsdMsg.v) and "
    "proved to round-trip for the dict form; template lookup (_yield_vars), Message.to_dict/from_dict, Quaternion's "
    "derived W, socket.inet_aton/ntoa and the XML form are covered by the impl-level oracle over template-generated "
    "messages of every type only (partial)",
    "the binary model's flag ut (URI written with its own tag) is set from a probe of the live formatter (uri_tagged); "
    "the headline theorems are stated for ut = true, the code as it stands",
    "lengths >= 2^31 (struct.error in the formatter) are in the model (bin_ok) but cannot be exercised",
]

UTC = datetime.timezone.utc
EPOCH_N = datetime.datetime(1970, 1, 1)
EPOCH_A = datetime.datetime(1970, 1, 1, tzinfo=UTC)
US = datetime.timedelta(microseconds=1)
SEC = datetime.timedelta(seconds=1)


class _M:
    pass


def _mods():
    m = _M()
    from hippolyzer.lib.base import llsd
    from hippolyzer.lib.base import datatypes as dt
    import llsd as base_llsd
    m.llsd, m.dt, m.base = llsd, dt, base_llsd
    m.uri = llsd.uri
    return m


# --------------------------------------------------------------------------
# Python value <-> JSON case encoding, model tokens

def dt_micros(d):
    """instant of a datetime/date as integer microseconds since the epoch; naive = UTC by LLSD convention"""
    if not isinstance(d, datetime.datetime):
        d = datetime.datetime(d.year, d.month, d.day)
    if d.tzinfo is None:
        return (d - EPOCH_N) // US
    return (d - EPOCH_A) // US


def dt_ts_bits(d):
    """the abstraction datetime -> model Date: IEEE bits of the timestamp in seconds (correctly rounded)"""
    us = dt_micros(d)
    return struct.pack(">d", us / 1000000).hex()


def fbits(x):
    return struct.pack(">d", x).hex()


def hx(b):
    return b.hex() if b else "-"


def enc(m, v):
    """Python LLSD value -> JSON-able case"""
    if v is None:
        return ["undef"]
    if isinstance(v, bool):
        return ["bool", v]
    if isinstance(v, int):
        return ["int", v]
    if isinstance(v, float):
        return ["real", fbits(v)]
    if isinstance(v, m.uri):
        return ["uri", str(v)]
    if isinstance(v, str):
        return ["str", v]
    if isinstance(v, uuidmod.UUID):
        return ["uuid", v.bytes.hex(), "hippo" if isinstance(v, m.dt.UUID) else "std"]
    if isinstance(v, datetime.datetime):
        return ["date", [v.year, v.month, v.day, v.hour, v.minute, v.second, v.microsecond],
                "naive" if v.tzinfo is None else "utc" if not v.utcoffset() else "off%d" % (v.utcoffset() // datetime.timedelta(minutes=1))]
    if isinstance(v, datetime.date):
        return ["date", [v.year, v.month, v.day, 0, 0, 0, 0], "dateonly"]
    if isinstance(v, bytes):
        cls = "raw" if isinstance(v, m.dt.RawBytes) else "jank" if isinstance(v, m.dt.JankStringyBytes) else "bytes"
        return ["bin", v.hex(), cls]
    if isinstance(v, dict):
        return ["map", [[k if isinstance(k, str) else ["b", k.hex()], enc(m, x)] for k, x in v.items()]]
    for name, cls in (("vec2", m.dt.Vector2), ("vec3", m.dt.Vector3), ("vec4", m.dt.Vector4), ("quat", m.dt.Quaternion)):
        if isinstance(v, cls):
            return ["arr", name, [enc(m, x) for x in v.data()]]
    if isinstance(v, tuple):
        return ["arr", "tuple", [enc(m, x) for x in v]]
    if isinstance(v, list):
        return ["arr", "list", [enc(m, x) for x in v]]
    return ["other", repr(v)]


def dec(m, j):
    t = j[0]
    if t == "undef":
        return None
    if t in ("bool", "int"):
        return j[1]
    if t == "real":
        return struct.unpack(">d", bytes.fromhex(j[1]))[0]
    if t == "uri":
        return m.uri(j[1])
    if t == "str":
        return j[1]
    if t == "uuid":
        return m.dt.UUID(bytes=bytes.fromhex(j[1])) if j[2] == "hippo" else uuidmod.UUID(bytes=bytes.fromhex(j[1]))
    if t == "date":
        y, mo, d, h, mi, s, us = j[1]
        if j[2] == "dateonly":
            return datetime.date(y, mo, d)
        if j[2].startswith("off"):
            return datetime.datetime(y, mo, d, h, mi, s, us, tzinfo=datetime.timezone(datetime.timedelta(minutes=int(j[2][3:]))))
        return datetime.datetime(y, mo, d, h, mi, s, us, tzinfo=None if j[2] == "naive" else UTC)
    if t == "bin":
        b = bytes.fromhex(j[1])
        return m.dt.RawBytes(b) if j[2] == "raw" else m.dt.JankStringyBytes(b) if j[2] == "jank" else b
    if t == "map":
        return {(k if isinstance(k, str) else bytes.fromhex(k[1])): dec(m, x) for k, x in j[1]}
    if t == "arr":
        items = [dec(m, x) for x in j[2]]
        k = j[1]
        if k == "list":
            return items
        if k == "tuple":
            return tuple(items)
        return {"vec2": m.dt.Vector2, "vec3": m.dt.Vector3, "vec4": m.dt.Vector4, "quat": m.dt.Quaternion}[k](*items)
    raise ValueError(j)


def tok(m, v, out=None):
    """Python LLSD value -> model tree tokens (see coq/ocaml/c12_driver.ml)"""
    top = out is None
    if top:
        out = []
    if v is None:
        out.append("U")
    elif isinstance(v, bool):
        out.append("T" if v else "F")
    elif isinstance(v, int):
        out += ["I", str(v)]
    elif isinstance(v, float):
        out += ["R", fbits(v)]
    elif isinstance(v, m.uri):
        out += ["L", hx(str(v).encode("utf-8"))]
    elif isinstance(v, str):
        out += ["S", hx(v.encode("utf-8"))]
    elif isinstance(v, uuidmod.UUID):
        out += ["G", v.bytes.hex()]
    elif isinstance(v, (datetime.datetime, datetime.date)):
        out += ["D", dt_ts_bits(v)]
    elif isinstance(v, bytes):
        out += ["B", hx(bytes(v))]
    elif isinstance(v, dict):
        out += ["M", str(len(v))]
        for k, x in v.items():
            out.append(hx(k.encode("utf-8") if isinstance(k, str) else bytes(k)))
            tok(m, x, out)
    elif isinstance(v, (list, tuple)) or isinstance(v, m.dt.TupleCoord):
        items = list(v.data()) if isinstance(v, m.dt.TupleCoord) else list(v)
        out += ["A", str(len(items))]
        for x in items:
            tok(m, x, out)
    else:
        raise TypeError(type(v))
    return " ".join(out) if top else None


def norm_model_parse(line):
    """Model parse output -> what the implementation must return, as tokens.  The model keeps a date as the raw
    64 bits; the implementation applies datetime.fromtimestamp (library, trusted): do the same here."""
    if not line.startswith("OK"):
        return "ERR"
    ws = line.split()
    out = []
    i = 0
    while i < len(ws):
        if ws[i] == "D":
            secs = struct.unpack(">d", bytes.fromhex(ws[i + 1].rjust(16, "0")))[0]
            try:
                d = datetime.datetime.fromtimestamp(secs, tz=UTC)
            except (OverflowError, ValueError, OSError):
                return "ERR"
            out += ["D", dt_ts_bits(d)]
            i += 2
        else:
            out.append(ws[i])
            i += 1
    return " ".join(out)


def kind(m, v):
    if v is None:
        return "undef"
    if isinstance(v, bool):
        return "boolean"
    if isinstance(v, int):
        return "integer"
    if isinstance(v, float):
        return "real"
    if isinstance(v, m.uri):
        return "uri"
    if isinstance(v, str):
        return "string"
    if isinstance(v, uuidmod.UUID):
        return "uuid"
    if isinstance(v, (datetime.datetime, datetime.date)):
        return "date"
    if isinstance(v, bytes):
        return "binary"
    if isinstance(v, dict):
        return "map"
    if isinstance(v, (list, tuple)) or isinstance(v, m.dt.TupleCoord):
        return "array"
    return "?" + type(v).__name__


def same(m, a, b, path="$"):
    """the statement's 'unchanged': same LLSD type, same value, same instant.  Returns None or a description."""
    ka, kb = kind(m, a), kind(m, b)
    if ka != kb:
        return f"{path}: LLSD type {ka} became {kb}"
    if ka == "real":
        if fbits(a) != fbits(b):
            return f"{path}: real {a!r} became {b!r}"
    elif ka == "date":
        if dt_micros(a) != dt_micros(b):
            return f"{path}: instant {a!r} became {b!r}"
    elif ka == "uuid":
        if a.bytes != b.bytes:
            return f"{path}: uuid changed"
    elif ka == "binary":
        if bytes(a) != bytes(b):
            return f"{path}: binary changed"
    elif ka == "array":
        la = list(a.data()) if isinstance(a, m.dt.TupleCoord) else list(a)
        lb = list(b.data()) if isinstance(b, m.dt.TupleCoord) else list(b)
        if len(la) != len(lb):
            return f"{path}: array length {len(la)} became {len(lb)}"
        for i, (x, y) in enumerate(zip(la, lb)):
            r = same(m, x, y, f"{path}[{i}]")
            if r:
                return r
    elif ka == "map":
        if set(a.keys()) != set(b.keys()):
            return f"{path}: key set changed"
        for k in a:
            r = same(m, a[k], b[k], f"{path}[{k!r}]")
            if r:
                return r
    else:
        if a != b:
            return f"{path}: {ka} {a!r} became {b!r}"
    return None


def walk(m, v):
    yield v
    if isinstance(v, dict):
        for x in v.values():
            yield from walk(m, x)
    elif isinstance(v, (list, tuple)):
        for x in v:
            yield from walk(m, x)


def has_uri(m, v):
    return any(isinstance(x, m.uri) for x in walk(m, v))


def has_aware(m, v):
    return any(isinstance(x, datetime.datetime) and x.tzinfo is not None for x in walk(m, v))


def keys_uris_nl_free(m, v):
    for x in walk(m, v):
        if isinstance(x, m.uri) and "\n" in x:
            return False
        if isinstance(x, dict) and any("\n" in k for k in x):
            return False
    return True


# --------------------------------------------------------------------------
# generators

TEXT_ATOMS = ["a", "b", "Z", "0", "9", "x", "n", "\\", "'", '"', "\n", " ", ":", ",", "]", "}", "\t", "\u00e9",
              "\u20ac", "\U0001f600", "<", ">", "&", "\\n", "\\x41", "f",
              # non-ASCII characters that str.isprintable() rejects (separators, format controls, NEL): legal everywhere,
              # and exactly what an "escape the unprintables" rewrite of a formatter would touch
              "\u00a0", "\u00ad", "\u200d", "\u3000", "\u0085", "\u2028", "\ufeff", "\u0378"]
NASTY_ATOMS = ["\x00", "\x07", "\r", "\x1f", "\x7f", "\ufffd"]


def gen_text(rng, xml_legal=True, maxlen=8):
    n = rng.choice((0, 1, 1, 2, 3, rng.randrange(0, maxlen + 1)))
    atoms = TEXT_ATOMS if xml_legal else TEXT_ATOMS + NASTY_ATOMS
    return "".join(rng.choice(atoms) for _ in range(n))


INT_EDGES = [0, 1, -1, 7, 255, 65536, 2147483647, -2147483648, 2147483646, -2147483647, 1234567890]
REAL_EDGES = [0.0, -0.0, 1.0, -1.5, 0.1, 1e300, -1e-300, 5e-324, float("inf"), float("-inf"), 3.141592653589793,
              1.7976931348623157e308, 2.2250738585072014e-308, 16777217.0, 1e22, 123456789.123456789]


def gen_real(rng):
    if rng.random() < 0.5:
        return rng.choice(REAL_EDGES)
    while True:
        x = struct.unpack(">d", rng.getrandbits(64).to_bytes(8, "big"))[0]
        if x == x:
            return x


def gen_date(rng, aware_ok):
    r = rng.random()
    if r < 0.55:
        # microsecond precision where a double still resolves microseconds (|t| < 2^32 s)
        us = rng.randrange(-(2 ** 32) * 10 ** 6 + 1, (2 ** 32) * 10 ** 6)
        d = EPOCH_N + datetime.timedelta(microseconds=us)
    elif r < 0.85:
        # whole seconds anywhere in datetime's range
        secs = rng.randrange(dt_micros(datetime.datetime(1, 1, 1)) // 10 ** 6,
                             dt_micros(datetime.datetime(9999, 12, 31, 23, 59, 59)) // 10 ** 6 + 1)
        d = EPOCH_N + datetime.timedelta(seconds=secs)
    elif r < 0.93:
        d = rng.choice((EPOCH_N, datetime.datetime(2021, 11, 7, 1, 30), datetime.datetime(2021, 3, 14, 2, 30),
                        datetime.datetime(2038, 1, 19, 3, 14, 8), datetime.datetime(1969, 12, 31, 23, 59, 59, 999999),
                        datetime.datetime(2021, 4, 4, 1, 45), datetime.datetime(2000, 2, 29, 12, 0, 0, 500000)))
    else:
        return datetime.date(rng.randrange(1, 10000), rng.randrange(1, 13), rng.randrange(1, 29))
    if aware_ok and rng.random() < 0.5:
        d = d.replace(tzinfo=UTC)
        if aware_ok == "offsets" and rng.random() < 0.5 and datetime.datetime(2, 1, 1) < d.replace(tzinfo=None) < datetime.datetime(9999, 12, 30):
            # the same kind of value with another UTC offset (an aware datetime names an instant whatever its offset)
            d = d.replace(tzinfo=datetime.timezone(datetime.timedelta(minutes=rng.choice((330, -480, 60, -1, 765, -720)))))
    return d


def gen_scalar(m, rng, opts):
    k = rng.randrange(12)
    if k == 0:
        return None
    if k == 1:
        return rng.random() < 0.5
    if k == 2:
        return rng.choice(INT_EDGES) if rng.random() < 0.5 else rng.randrange(-2 ** 31, 2 ** 31)
    if k == 3:
        return gen_real(rng)
    if k in (4, 5):
        return gen_text(rng, opts.get("xml_legal", True))
    if k == 6:
        b = bytes(rng.getrandbits(8) for _ in range(16)) if rng.random() < 0.8 else bytes(16)
        return m.dt.UUID(bytes=b) if rng.random() < 0.7 else uuidmod.UUID(bytes=b)
    if k == 7:
        return gen_date(rng, opts.get("aware", False))
    if k == 8 and opts.get("uri", True):
        return m.uri("http://" + gen_text(rng, opts.get("xml_legal", True)))
    if k == 9:
        b = bytes(rng.choice((0, 10, 39, 92, 255, rng.getrandbits(8))) for _ in range(rng.choice((0, 1, 2, 3, 5, 17))))
        c = rng.random()
        return b if c < 0.7 else m.dt.RawBytes(b) if c < 0.85 else m.dt.JankStringyBytes(b)
    if k == 10:
        c = rng.randrange(4)
        f = lambda: rng.choice((0.0, 1.0, -2.5, 0.1, 128.0, 1e-3)) if rng.random() < 0.6 else gen_real(rng)
        if c == 0:
            return m.dt.Vector3(f(), f(), f())
        if c == 1:
            return m.dt.Vector4(f(), f(), f(), f())
        if c == 2:
            return m.dt.Vector2(f(), f())
        return m.dt.Quaternion(f(), f(), f(), f())
    return gen_text(rng, opts.get("xml_legal", True), maxlen=20)


def gen_tree(m, rng, depth, opts):
    if depth <= 0 or rng.random() < 0.35:
        return gen_scalar(m, rng, opts)
    n = rng.choice((0, 1, 2, 2, 3, 4))
    if rng.random() < 0.5:
        items = [gen_tree(m, rng, depth - 1, opts) for _ in range(n)]
        return tuple(items) if rng.random() < 0.15 else items
    d = {}
    for _ in range(n):
        key = gen_text(rng, opts.get("xml_legal", True), maxlen=5)
        if not opts.get("nl_keys", True):
            key = key.replace("\n", "_")
        d[key] = gen_tree(m, rng, depth - 1, opts)
    return d


def shrink_candidates(m, v):
    if isinstance(v, dict):
        for k in v:
            yield v[k]
        for k in v:
            yield {a: b for a, b in v.items() if a != k}
        for k in v:
            for c in shrink_candidates(m, v[k]):
                yield {a: (c if a == k else b) for a, b in v.items()}
    elif isinstance(v, (list, tuple)):
        for x in v:
            yield x
        for i in range(len(v)):
            yield list(v[:i]) + list(v[i + 1:])
        for i in range(len(v)):
            for c in shrink_candidates(m, v[i]):
                yield list(v[:i]) + [c] + list(v[i + 1:])
    elif isinstance(v, m.uri):
        if len(v) > 1:
            yield m.uri(v[:len(v) // 2])
            yield m.uri(v[1:])
    elif isinstance(v, str):
        if len(v) > 0:
            yield v[:len(v) // 2]
            yield v[1:]
            yield v[:-1]


def shrink(m, v, fails, budget=400):
    """greedy shrink of a tree while fails(v) stays truthy"""
    changed = True
    while changed and budget > 0:
        changed = False
        for c in shrink_candidates(m, v):
            budget -= 1
            if budget <= 0:
                break
            try:
                if fails(c):
                    v, changed = c, True
                    break
            except Exception:
                pass
    return v


# --------------------------------------------------------------------------
# implementation adapters (exceptions become observations)

def uri_tagged(m):
    """which branch order does the live formatter have?  (selects the model flag [ut])"""
    try:
        return m.llsd.format_binary(m.uri("a"), with_header=False)[:1] == b"l"
    except Exception:
        return False


def impl_fmt_bin(m, v, hdr):
    try:
        return m.llsd.format_binary(v, with_header=hdr).hex() or "-"
    except Exception as e:
        return "EXC:" + type(e).__name__


def impl_parse_bin(m, data):
    try:
        return "OK " + tok(m, m.llsd.parse_binary(data))
    except Exception as e:
        return "EXC:" + type(e).__name__


def impl_parse_rest(m, data):
    try:
        p = m.llsd.HippoLLSDBinaryParser()
        v = p.parse(data)
        return "OK %d %s" % (len(data) - p._index, tok(m, v))
    except Exception as e:
        return "EXC:" + type(e).__name__


def impl_reader_rest(m, data):
    """serialization.BinaryLLSD (BufferedLLSDBinaryParser over a Reader)"""
    try:
        from hippolyzer.lib.base import serialization as se
        r = se.BufferReader("<", data)
        v = se.BinaryLLSD.deserialize(r, None)
        return "OK %d %s" % (len(data) - r.tell(), tok(m, v))
    except Exception as e:
        return "EXC:" + type(e).__name__


def errclass(s):
    return "ERR" if s.startswith(("EXC:", "ERR")) else s


FORMATS = ("binary", "binary-header", "notation", "xml", "zip")


def fmt_bytes(m, fmt, v):
    L = m.llsd
    if fmt == "binary":
        return L.format_binary(v, with_header=False)
    if fmt == "binary-header":
        return L.format_binary(v, with_header=True)
    if fmt == "notation":
        return L.format_notation(v)
    if fmt == "xml":
        return L.format_xml(v)
    if fmt == "zip":
        return L.zip_llsd(v)
    raise ValueError(fmt)


def parse_bytes(m, fmt, b):
    L = m.llsd
    if fmt in ("binary", "binary-header"):
        return L.parse_binary(b)
    if fmt == "notation":
        return L.parse_notation(b)
    if fmt == "xml":
        return L.parse_xml(b)
    if fmt == "zip":
        return L.unzip_llsd(b)
    raise ValueError(fmt)


def roundtrip(m, fmt, v):
    return parse_bytes(m, fmt, fmt_bytes(m, fmt, v))


def scribble(v):
    """mutate every container reachable from a parse result (to expose aliasing between two results)"""
    if isinstance(v, dict):
        for x in list(v.values()):
            scribble(x)
        v["\x00scribble"] = 1
    elif isinstance(v, list):
        for x in v:
            scribble(x)
        v.append("\x00scribble")


def codec_side_effects(m, fmt, v):
    """format_* must leave its argument as it was and give the same bytes again; two parses of the same bytes must
    not share containers.  None or a (why, class) pair."""
    before = enc(m, v)
    b1 = fmt_bytes(m, fmt, v)
    if enc(m, v) != before:
        return "the formatter changed its argument", "codec-mutates-argument"
    b2 = fmt_bytes(m, fmt, v)
    if b1 != b2:
        return "formatting the same value twice gave different bytes", "codec-not-repeatable"
    r1 = parse_bytes(m, fmt, b1)
    r2 = parse_bytes(m, fmt, b1)
    e2 = enc(m, r2)
    if enc(m, r1) != e2:
        return "parsing the same bytes twice gave different values", "codec-not-repeatable"
    scribble(r1)
    if enc(m, r2) != e2 or enc(m, v) != before:
        return "two parse results (or a result and the formatted value) share containers", "codec-results-alias"
    return None


def strip_class(m, v, cls):
    """rewrite the input so that a *known* divergence class no longer applies (to classify a failure)"""
    if isinstance(v, dict):
        return {(k.replace("\r", "") if cls == "cr" else k): strip_class(m, x, cls) for k, x in v.items()}
    if isinstance(v, (list, tuple)):
        return [strip_class(m, x, cls) for x in v]
    if cls == "cr":
        if isinstance(v, m.uri):
            return m.uri(str(v).replace("\r", ""))
        if isinstance(v, str):
            return v.replace("\r", "")
        return v
    if cls == "uri" and isinstance(v, m.uri):
        return str(v)
    if cls == "aware" and isinstance(v, datetime.datetime) and v.tzinfo is not None:
        return v.replace(tzinfo=None)
    if cls == "micros" and isinstance(v, datetime.datetime):
        return v.replace(microsecond=0)
    return v


def check_tree(m, fmt, v):
    """The LLSD clause of C12 on the implementation for one tree and one format.  None or a violation dict."""
    try:
        back = roundtrip(m, fmt, v)
        why = same(m, v, back)
    except Exception as e:
        why = "raised " + type(e).__name__ + ": " + str(e)[:120]
    viol = None
    if why:
        viol = {"clause": "LLSD value survives format/parse unchanged (same value, type, instant)", "format": fmt,
                "why": why, "class": classify(m, fmt, v)}
    if viol is None:
        try:
            se_ = codec_side_effects(m, fmt, v)
        except Exception as e:
            se_ = None          # a raising codec is what the round-trip clause above reports
        if se_:
            viol = {"clause": "LLSD value survives format/parse unchanged (same value, type, instant)", "format": fmt,
                    "why": se_[0], "class": se_[1] + "-" + fmt}
    if viol is None and fmt == "notation" and keys_uris_nl_free(m, v):
        try:
            out = m.llsd.format_notation(v)
            if b"\n" in out:
                viol = {"clause": "no string value puts a raw newline into notation output", "format": fmt,
                        "why": "0x0A in output", "class": "notation-raw-newline"}
        except Exception:
            pass
    if viol:
        viol["tree"] = enc(m, v)
    return viol


def classify(m, fmt, v):
    """stable defect class of a failing tree (used to match known findings).  Open: date-microseconds-truncated-*.
    The uri-... and aware-... classes name regressions of repaired defects (fixes 22af88d, 698322b)."""
    def ok(w):
        try:
            return same(m, w, roundtrip(m, fmt, w)) is None
        except Exception:
            return False
    if has_uri(m, v) and fmt in ("binary", "binary-header", "zip") and ok(strip_class(m, v, "uri")):
        return "uri-returns-as-string-from-binary"
    if fmt in ("notation", "xml") and ok(strip_class(m, v, "micros")):
        return "date-microseconds-truncated-" + fmt
    if has_aware(m, v) and fmt in ("notation", "xml") and (
            ok(strip_class(m, v, "aware")) or ok(strip_class(m, strip_class(m, v, "aware"), "micros"))):
        return "aware-datetime-unparseable-" + fmt
    if fmt == "xml" and has_cr(m, v) and (ok(strip_class(m, v, "cr")) or ok(strip_class(m, strip_class(m, v, "cr"), "micros"))):
        return "carriage-return-lost-xml"
    return "other-" + fmt


def has_cr(m, v):
    for x in walk(m, v):
        if isinstance(x, str) and "\r" in x:
            return True
        if isinstance(x, dict) and any("\r" in k for k in x):
            return True
    return False


# --------------------------------------------------------------------------
# suite 1: binary codec vs model

def exhaustive_small_trees(m):
    """every tree over a small scalar alphabet with at most 2 levels and 2 children (exhaustive small scope)"""
    scal = [None, True, False, 0, -1, 2147483647, 1.5, "", "a\n", m.uri("u"), b"", b"\xff", m.dt.UUID(int=5),
            datetime.datetime(2001, 2, 3, 4, 5, 6, 7)]
    lvl1 = list(scal)
    for a in scal:
        lvl1.append([a])
        lvl1.append({"k": a})
    for a, b in itertools.product(scal[:8], repeat=2):
        lvl1.append([a, b])
        lvl1.append({"k": a, "": b})
    out = list(lvl1)
    for a in lvl1[len(scal):len(scal) + 60]:
        out.append([a, []])
        out.append({"x": a, "y": {}})
    return out


def mutate(rng, b):
    b = bytearray(b)
    r = rng.random()
    if not b:
        return bytes([rng.getrandbits(8)])
    if r < 0.3:
        i = rng.randrange(len(b))
        b[i] = rng.choice((0, 1, 0x7f, 0x80, 0xff, 0x5d, 0x7d, 0x5b, 0x7b, 0x27, 0x22, 0x5c, 0x6b, 0x6c, 0x64, 0x73, 0x62,
                           rng.getrandbits(8)))
    elif r < 0.5:
        del b[rng.randrange(len(b)):]
    elif r < 0.65:
        i = rng.randrange(len(b))
        del b[i]
    elif r < 0.8:
        i = rng.randrange(len(b) + 1)
        b[i:i] = bytes(rng.choice((0x27, 0x22, 0x5c, 0x78, 0x41, 0x6c, 0x5d, 0x7d, rng.getrandbits(8)))
                       for _ in range(rng.randrange(1, 4)))
    elif r < 0.9:
        i = rng.randrange(len(b))
        b[i] ^= 1 << rng.randrange(8)
    else:
        b += bytes(rng.getrandbits(8) for _ in range(rng.randrange(1, 5)))
    return bytes(b)


HAND_STREAMS = [
    b"", b"!", b"1", b"0", b"i\x00\x00\x00", b"i\xff\xff\xff\xff", b"[\x00\x00\x00\x00]", b"[\x00\x00\x00\x02!]",
    b"[\xff\xff\xff\xff]", b"[\x00\x00\x00\x01!!]", b"{\x00\x00\x00\x00}", b"{\xff\xff\xff\xff}",
    b"{\x00\x00\x00\x02k\x00\x00\x00\x01a!}", b"{\x00\x00\x00\x02k\x00\x00\x00\x01a!k\x00\x00\x00\x01a1}",
    b"{\x00\x00\x00\x03k\x00\x00\x00\x01a!k\x00\x00\x00\x01b0k\x00\x00\x00\x01a1}",
    b"{\x00\x00\x00\x01'a\\x41\\n'1}", b"{\x00\x00\x00\x01\"k\"1}", b"{\x00\x00\x00\x01k\x00\x00\x00\x01\xffi\x00\x00\x00\x05}",
    b"'abc\\'d'", b"\"a\\x4", b"'\\xzz'", b"'\xff'", b"s\x00\x00\x00\x02\xc3\xa9", b"s\x00\x00\x00\x01\xff",
    b"s\xff\xff\xff\xffab", b"s\x7f\xff\xff\xffab", b"l\x00\x00\x00\x01a", b"l\x00\x00\x00\x02\xff'", b"l\x00\x00\x00\x03\xff'\"",
    b"l\x00\x00\x00\x04\x00\n\\~", b"b\x00\x00\x00\x00", b"b\x00\x00\x00\x03ab", b"u" + bytes(range(16)), b"u" + bytes(15),
    b"d" + struct.pack("<d", 0.0), b"d" + struct.pack("<d", 1e18), b"d" + struct.pack("<d", 1577934245.000678),
    b"d" + struct.pack("<d", float("nan")), b"d" + struct.pack("<d", -1e11), b"r" + struct.pack(">d", 1.5), b"r\x00",
    b"<?llsd/binary?>\n!", b"<? LLSD/Binary ?>\n1", b"<?llsd/binary?>", b"<?llsd/binary?>!", b"<?llsd/binary?>x\ny\n0",
    b"x", b"k\x00\x00\x00\x00", b"]", b"}", b"[\x00\x00\x00\x01", b"{\x00\x00\x00\x01k", b"[\x00\x00\x00\x01[\x00\x00\x00\x01[\x00\x00\x00\x00]]]",
]


def suite_binary(ctx, m):
    ut = uri_tagged(m)
    U = "1" if ut else "0"
    res = CorrResult(
        suite="binary LLSD codec: implementation vs extracted model",
        rule="corpus + every tree of an exhaustive small scope (14 scalars, <=2 children, <=2 levels) + seeded random trees "
             "(depth<=4, all LLSD types incl. UUID/date/URI/binary/vectors/tuples, ints beyond S32 to hit the error path); "
             "each is formatted with and without header by llsd.format_binary and by the model (hex compared), the output "
             "is parsed by llsd.parse_binary / HippoLLSDBinaryParser (value + bytes consumed) / serialization.BinaryLLSD "
             "and by the model; then hand-written + seeded mutated streams (truncation, length/tag/escape edits) through "
             "both parsers; UTF-8 strictness (utf8_valid vs bytes.decode) on every byte string seen; "
             "non-trivial = distinct case containing an array, map, string or date")
    res.distribution = {"uri_written_with_own_tag": ut}
    trees = []
    for j in load_corpus():
        if j.get("kind") == "tree":
            trees.append(("corpus", dec(m, j["tree"])))
    for t in exhaustive_small_trees(m):
        trees.append(("exhaustive", t))
    rng = ctx.rng
    for i in range(ctx.pick(1500, 30000)):
        opts = {"xml_legal": rng.random() < 0.5, "aware": rng.random() < 0.3}
        t = gen_tree(m, rng, rng.choice((1, 2, 3, 4)), opts)
        trees.append(("random", t))
    for z in (2 ** 31, -2 ** 31 - 1, 2 ** 40, [1, {"a": 2 ** 33}]):
        trees.append(("int-out-of-range", z))
    lines, plan = [], []
    seen = set()
    nontriv = 0
    streams = []
    for kindname, t in trees:
        tk = tok(m, t)
        if tk in seen:
            continue
        seen.add(tk)
        res.distribution[kindname] = res.distribution.get(kindname, 0) + 1
        if any(isinstance(x, (list, tuple, dict, str, datetime.date)) for x in walk(m, t)):
            nontriv += 1
        for hdr in (False, True):
            lines.append(f"fb {U} {int(hdr)} {tk}")
            plan.append(("fmt", t, hdr))
        lines.append("wf " + tk)
        plan.append(("wf", t, None))
        f = impl_fmt_bin(m, t, False)
        if not f.startswith("EXC:"):
            streams.append(("formatted", bytes.fromhex(f) if f != "-" else b""))
            fh = impl_fmt_bin(m, t, True)
            if not fh.startswith("EXC:") and len(streams) % 4 == 0:
                streams.append(("formatted+header", bytes.fromhex(fh)))
    base = [s for _, s in streams]
    for s in HAND_STREAMS:
        streams.append(("hand", s))
    for i in range(ctx.pick(4000, 80000)):
        s = rng.choice(base)
        for _ in range(rng.choice((1, 1, 2, 3))):
            s = mutate(rng, s)
        streams.append(("mutated", s))
    sseen = set()
    splan = []
    for kindname, s in streams:
        if s in sseen:
            continue
        sseen.add(s)
        res.distribution["stream:" + kindname] = res.distribution.get("stream:" + kindname, 0) + 1
        h = hx(s)
        lines.append("pb " + h)
        lines.append("pr " + h)
        splan.append((kindname, s))
    # UTF-8 strictness on its own
    u8 = set()
    for _, s in splan:
        u8.add(s[:12])
    for n in range(0, 3):
        for t in itertools.product((0x41, 0x7f, 0x80, 0xbf, 0xc0, 0xc1, 0xc2, 0xdf, 0xe0, 0xa0, 0x9f, 0xed, 0xee, 0xef, 0xf0, 0x90,
                                    0x8f, 0xf4, 0xf5, 0xff), repeat=n):
            u8.add(bytes(t))
    for _ in range(ctx.pick(2000, 20000)):
        u8.add(bytes(rng.choice((0x41, 0x80, 0xbf, 0xc2, 0xe0, 0xa0, 0xed, 0x9f, 0xef, 0xf0, 0x90, 0xf4, 0x8f, 0xf1, 0xe1,
                                 rng.getrandbits(8))) for _ in range(rng.randrange(1, 6))))
    u8 = sorted(u8)
    for s in u8:
        lines.append("u8 " + hx(s))
    out = ctx.run_driver(lines)
    k = 0
    for (what, t, hdr) in plan:
        mo = out[k]
        k += 1
        if what == "fmt":
            io = impl_fmt_bin(m, t, hdr)
            if errclass(io) != mo:
                res.disagreements.append({"op": "format_binary", "with_header": hdr, "tree": enc(m, t), "impl": io[:300], "model": mo[:300]})
        else:
            # model's domain predicates on the generated tree: wf (hypothesis of the theorems), bin_ok
            res.distribution["trees_wf"] = res.distribution.get("trees_wf", 0) + (mo[0] == "1")
            res.distribution["trees_formatter_raises"] = res.distribution.get("trees_formatter_raises", 0) + (mo[1] == "0")
    for kindname, s in splan:
        mpb, mpr = out[k], out[k + 1]
        k += 2
        ipb = impl_parse_bin(m, s)
        want = norm_model_parse(mpb)
        if errclass(ipb) != want:
            res.disagreements.append({"op": "parse_binary", "stream": s.hex(), "impl": ipb[:300], "model": mpb[:300]})
        hdrd = s.startswith((b"<? LLSD/Binary ?>", b"<?llsd/binary?>"))
        ipr = impl_parse_rest(m, s)
        wantr = norm_model_parse(mpr)
        if errclass(ipr) != wantr:
            res.disagreements.append({"op": "HippoLLSDBinaryParser.parse", "stream": s.hex(), "impl": ipr[:300], "model": mpr[:300]})
        if kindname.startswith("formatted") and not hdrd:
            irr = impl_reader_rest(m, s)
            if errclass(irr) != wantr:
                res.disagreements.append({"op": "serialization.BinaryLLSD", "stream": s.hex(), "impl": irr[:300], "model": mpr[:300]})
    for s in u8:
        mo = out[k]
        k += 1
        try:
            s.decode("utf-8")
            io = "1"
        except UnicodeDecodeError:
            io = "0"
        if io != mo:
            res.disagreements.append({"op": "utf8_valid", "bytes": s.hex(), "impl": io, "model": mo})
    res.evaluations = len(lines)
    res.distinct_nontrivial = nontriv + sum(1 for kn, s in splan if len(s) > 5)
    res.samples = [{"tree": enc(m, t)} for _, t in trees[300:302]] + [{"stream": s.hex()[:80]} for _, s in splan[-3:]]
    return res


# --------------------------------------------------------------------------
# suite 2: notation vs model

def impl_not_parse_string(m, data):
    try:
        p = m.base.serde_notation.LLSDNotationParser()
        v = p.parse(data)
        if not isinstance(v, str) or isinstance(v, m.uri):
            return "EXC:notastring"
        return "OK %s %d" % (hx(v.encode("utf-8")), len(data) - p._index)
    except Exception as e:
        return "EXC:" + type(e).__name__


def impl_not_parse(m, buf):
    try:
        p = m.base.serde_notation.LLSDNotationParser()
        v = p.parse(buf)
        return "OK %d %s" % (len(buf) - p._index, tok(m, v))
    except Exception as e:
        return "EXC:" + type(e).__name__


def oracle_tables(m, buf):
    """the two library oracles of the notation parser model, tabulated for one buffer: float(text) for every text
    _real_regex can match after an 'r', and _parse_datestr(text) for every quoted text after a 'd'"""
    import re
    sn = m.base.serde_notation
    rt, dtab = {}, {}
    for i, c in enumerate(buf):
        if c == 0x72:
            mt = sn._real_regex.match(buf, i + 1)
            if mt:
                try:
                    rt[mt.group(0)] = fbits(float(mt.group(0)))
                except Exception:
                    pass
    for mt in re.finditer(rb"d\"([^\"\\\\]*)\"|d'([^'\\\\]*)'", buf):
        text = mt.group(1) if mt.group(1) is not None else mt.group(2)
        try:
            dtab[text] = dt_ts_bits(m.base.base._parse_datestr(text.decode("utf-8")))
        except Exception:
            pass
    return (" ".join("%s %s" % (hx(k), v) for k, v in rt.items()), " ".join("%s %s" % (hx(k), v) for k, v in dtab.items()))


def whole_tree_parse_leg(ctx, m, res, trees):
    """LLSDNotationParser.parse vs the extracted parse_not_rest on format_notation output (strict: value, bytes consumed,
    error) and on mutated notation text (one-sided: wherever the model is defined the implementation must agree)"""
    rng = ctx.rng
    lines, plan = [], []
    seen = set()
    hyp = set()
    for t in trees:
        try:
            buf = m.llsd.format_notation(t)
        except Exception:
            continue
        cands = [("formatted", buf)]
        if rng.random() < 0.3:
            cands.append(("formatted+tail", buf + rng.choice((b",", b"]x", b"}", b" ", b",i5"))))
        for _ in range(ctx.pick(2, 4)):
            b2 = buf
            for _ in range(rng.choice((1, 1, 2))):
                b2 = mutate_notation(rng, b2)
            cands.append(("mutated", b2))
        for kindname, b in cands:
            if b in seen or not b:
                continue
            seen.add(b)
            rtab, dtab = oracle_tables(m, b)
            lines.append("pn %s ; %s ; %s" % (hx(b), rtab, dtab))
            plan.append((kindname, b))
        # the lexical hypotheses of the round-trip theorem, checked on every library rendering met
        for x in walk(m, t):
            if isinstance(x, float):
                hyp.add(repr(x).encode())
            elif isinstance(x, (datetime.datetime, datetime.date)):
                d = m.base.base._format_datestr(x)
                if any(c >= 128 or c in (0x22, 0x5c) for c in d):
                    res.disagreements.append({"op": "hypothesis: date string is plain ASCII without quote/backslash", "text": d.hex()})
    for sp in (b"", b"!", b"i0", b"i-0", b"i+12x", b"i", b"r.5", b"r1e5,", b"rnan", b"r-inf]", b"t", b"T}", b"tr", b"true1", b"TRUE", b"FALSE_",
               b"f,", b"fa", b"[]", b"[,, ]", b"{}", b"{ , }", b"{'a':!}", b"{'a' :\t1}", b"{'a':1,'a':0,'b':!}", b"{'a'}", b"{'a'!}",
               b"[1 0]", b"[i1i2]", b"b16\"0aFF\"", b"b16\"0A\"", b"b64\"QQ==\"", b"b64\"QR==\"", b"b64\"QUI\"", b"b64\"Q Q==\"", b"b64\"\"",
               b"b64\"QQ", b"b(2)\"ab\"", b"s(2)'ab'", b"u00000000-0000-0000-0000-00000000000A", b"u{0000000-0000-0000-0000-00000000000A}",
               b"u0000", b"l'x'", b"l\"a\\\"b\"", b"d\"\"", b"d\"2020-01-02T03:04:05.000678Z\"", b"d\"x\"", b"\"a\\x41\"", b"'\xff'", b" !", b"x"):
        if sp not in seen:
            seen.add(sp)
            rtab, dtab = oracle_tables(m, sp)
            lines.append("pn %s ; %s ; %s" % (hx(sp), rtab, dtab))
            plan.append(("hand", sp))
    hyp = sorted(hyp)
    for r in hyp:
        for tail in (b"", b",", b"]", b"}"):
            lines.append("sr " + hx(r + tail))
    out = ctx.run_driver(lines)
    counts = {"formatted": 0, "mutated_model_defined": 0, "mutated_outside_model_or_error": 0, "hand": 0}
    k = 0
    for kindname, b in plan:
        mo = out[k]
        k += 1
        io = impl_not_parse(m, b)
        if kindname.startswith("formatted"):
            counts["formatted"] += 1
            if errclass(io) != mo:
                res.disagreements.append({"op": "parse_notation(formatted tree)", "input": b.hex(), "impl": io[:400], "model": mo[:400]})
        else:
            if kindname == "hand":
                counts["hand"] += 1
            if mo.startswith("OK"):
                counts["mutated_model_defined"] += 1
                if io != mo:
                    res.disagreements.append({"op": "parse_notation(model defined)", "input": b.hex(), "impl": io[:400], "model": mo[:400]})
            else:
                counts["mutated_outside_model_or_error"] += 1
                if not io.startswith("EXC:"):
                    counts["model_undefined_impl_value"] = counts.get("model_undefined_impl_value", 0) + 1
    for r in hyp:
        for tail in (b"", b",", b"]", b"}"):
            mo = out[k]
            k += 1
            if mo != "OK %s %d" % (hx(r), len(tail)):
                res.disagreements.append({"op": "hypothesis: _real_regex matches exactly repr(float) before a delimiter",
                                          "text": (r + tail).hex(), "model": mo})
    res.distribution["whole_tree_parse"] = counts
    res.distribution["repr_float_texts_checked"] = len(hyp)
    return len(lines)


def mutate_notation(rng, b):
    b = bytearray(b)
    if not b:
        return bytes([rng.choice(b"![{i")])
    r = rng.random()
    if r < 0.35:
        i = rng.randrange(len(b))
        b[i] = rng.choice(b" ,:[]{}'\"\\!01tfTFirusldb.+-eEx9aZ=_(\n\t")
    elif r < 0.55:
        i = rng.randrange(len(b) + 1)
        b[i:i] = bytes(rng.choice(b" ,:[]{}'\"\\!01tfir.+-e9a=\n") for _ in range(rng.randrange(1, 3)))
    elif r < 0.75:
        i = rng.randrange(len(b))
        del b[i]
    elif r < 0.9:
        del b[rng.randrange(len(b)):]
    else:
        i = rng.randrange(len(b))
        j = rng.randrange(len(b))
        b[i], b[j] = b[j], b[i]
    return bytes(b)


def suite_notation(ctx, m):
    res = CorrResult(
        suite="notation LLSD: STRING formatter, escape machine and whole-tree formatter vs extracted model",
        rule="every string over the alphabet {a,n,x,4,\\,',\",LF} up to length %d (exhaustive) and seeded random text "
             "(incl. non-ASCII and control characters) through llsd.format_notation and the model's fmt_not_string (bytes "
             "compared) and back through LLSDNotationParser / the model's escape machine (value and bytes consumed compared); "
             "every byte string over the same alphabet between quotes + seeded random escape soup through both parsers "
             "(malformed: bad hex, dangling escape, missing delimiter); generated trees (depth<=4, all types) through "
             "llsd.format_notation and the model's fmt_not (repr(float)/datestr supplied as tables) byte for byte; the "
             "formatted text (also with trailing bytes) through LLSDNotationParser.parse and the model's parse_not_rest "
             "(float()/_parse_datestr supplied as tables): value, bytes consumed and errors compared; seeded mutations of the "
             "text + hand-written inputs: wherever the partial model is defined the implementation must return the same; "
             "the theorem's lexical hypotheses on repr(float) and the date string checked on every rendering met; "
             "non-trivial = string containing an escape-relevant byte, or a tree with a container" % ctx.pick(5, 6))
    rng = ctx.rng
    alpha = ["a", "n", "x", "4", "\\", "'", '"', "\n"]
    strings = []
    for n in range(ctx.pick(5, 6) + 1):
        for t in itertools.product(alpha, repeat=n):
            strings.append("".join(t))
    nexh = len(strings)
    for _ in range(ctx.pick(1500, 20000)):
        strings.append(gen_text(rng, xml_legal=False, maxlen=24))
    lines, plan = [], []
    seen = set()
    nontriv = 0
    for s in strings:
        if s in seen:
            continue
        seen.add(s)
        b = s.encode("utf-8")
        lines.append("ns " + hx(b))
        plan.append(("ns", s))
        if any(c in s for c in "\\'\n"):
            nontriv += 1
    raw = set()
    for n in range(ctx.pick(5, 6) + 1):
        for t in itertools.product(b"anx4\\'\"\n", repeat=n):
            raw.add(b"'" + bytes(t))
            if n <= 4:
                raw.add(b'"' + bytes(t) + b"'\"")
    for _ in range(ctx.pick(3000, 40000)):
        q = rng.choice((b"'", b'"'))
        body = bytes(rng.choice(b"\\\\\\xxabfnrtv09AFgG'\"\n\xc3\xa9\xff ") for _ in range(rng.randrange(0, 12)))
        raw.add(q + body + rng.choice((q, b"", q + b",x")))
    raw = sorted(raw)
    for r in raw:
        lines.append("ps " + hx(r))
    # trees
    trees = []
    for j in load_corpus():
        if j.get("kind") == "tree":
            t = dec(m, j["tree"])
            if not has_aware(m, t):
                trees.append(t)
    trees += [t for t in exhaustive_small_trees(m)]
    for _ in range(ctx.pick(1500, 25000)):
        trees.append(gen_tree(m, rng, rng.choice((1, 2, 3, 4)), {"xml_legal": rng.random() < 0.5, "aware": False}))
    tplan = []
    tseen = set()
    for t in trees:
        tk = tok(m, t)
        if tk in tseen:
            continue
        tseen.add(tk)
        rt, dtab = [], []
        for x in walk(m, t):
            if isinstance(x, m.dt.TupleCoord):
                for c in x.data():
                    rt += [fbits(c), hx(repr(c).encode())]
            elif isinstance(x, float):
                rt += [fbits(x), hx(repr(x).encode())]
            elif isinstance(x, (datetime.datetime, datetime.date)):
                dtab += [dt_ts_bits(x), hx(m.base.base._format_datestr(x))]
        lines.append("fn %s ; %s ; %s" % (tk, " ".join(rt), " ".join(dtab)))
        lines.append("wf " + tk)
        tplan.append(t)
        if isinstance(t, (list, tuple, dict)):
            nontriv += 1
    out = ctx.run_driver(lines)
    k = 0
    for _, s in plan:
        mo = out[k]
        k += 1
        try:
            io = hx(m.llsd.format_notation(s))
        except Exception as e:
            io = "EXC:" + type(e).__name__
        if io != mo:
            res.disagreements.append({"op": "format_notation(str)", "input": s, "impl": io[:300], "model": mo[:300]})
            continue
        if b"\n" in bytes.fromhex(io):
            res.impl_violations.append({"clause": "no string value puts a raw newline into notation output",
                                        "format": "notation", "class": "notation-raw-newline", "tree": ["str", s]})
        # and back through the real parser: the statement's round trip for strings
        back = impl_not_parse_string(m, bytes.fromhex(io))
        if back != "OK %s 0" % hx(s.encode("utf-8")):
            res.impl_violations.append({"clause": "LLSD value survives format/parse unchanged (same value, type, instant)",
                                        "format": "notation", "class": "notation-string", "tree": ["str", s], "why": back})
    for r in raw:
        mo = out[k]
        k += 1
        io = impl_not_parse_string(m, r)
        if errclass(io) != mo:
            res.disagreements.append({"op": "notation _parse_string", "input": r.hex(), "impl": io[:300], "model": mo[:300]})
    for t in tplan:
        mo, mwf = out[k], out[k + 1]
        k += 2
        try:
            io = hx(m.llsd.format_notation(t))
        except Exception as e:
            io = "EXC:" + type(e).__name__
        if io != mo:
            res.disagreements.append({"op": "format_notation(tree)", "tree": enc(m, t), "impl": io[:400], "model": mo[:400]})
        nlf = keys_uris_nl_free(m, t)
        if (mwf[2] == "1") != nlf:
            res.disagreements.append({"op": "keys_uris_nl_free", "tree": enc(m, t), "impl": nlf, "model": mwf})
    npn = whole_tree_parse_leg(ctx, m, res, tplan)
    res.evaluations = len(lines) + npn
    res.distinct_nontrivial = nontriv + len(raw)
    res.distribution.update({"strings_exhaustive": nexh, "strings_random": len(plan) - nexh, "quoted_inputs": len(raw), "trees": len(tplan)})
    res.samples = [{"string": s} for _, s in plan[200:203]] + [{"quoted": r.hex()} for r in raw[1000:1002]]
    return res


# --------------------------------------------------------------------------
# suite 3: impl-level oracle over trees and formats

def suite_oracle(ctx, m):
    res = CorrResult(
        suite="impl-level oracle: LLSD trees x {binary, binary+header, notation, XML, zipped}",
        rule="corpus + exhaustive small scope + seeded random trees (depth<=4; all LLSD types; naive datetimes, UTC-aware "
             "datetimes as parse_binary returns them and aware datetimes with other UTC offsets, dates; XML-legal text without CR for the XML leg (CR through XML is the recorded "
             "finding c12-xml-cr, whose witness is replayed on every run), arbitrary text otherwise); parse(format(v)) must have the same LLSD type, value (reals by bits) and instant; notation output "
             "of a tree whose keys and URIs have no newline must contain no 0x0A; side effects: a formatter leaves its argument "
             "unchanged and is repeatable, two parses of the same bytes are equal and share no containers; non-trivial = tree with a container, "
             "date, URI or string")
    rng = ctx.rng
    trees = []
    for j in load_corpus():
        if j.get("kind") == "tree":
            trees.append((dec(m, j["tree"]), tuple(j.get("formats", FORMATS))))
    for t in exhaustive_small_trees(m):
        trees.append((t, FORMATS))
    for _ in range(ctx.pick(2500, 40000)):
        xml = rng.random() < 0.5
        t = gen_tree(m, rng, rng.choice((1, 2, 3, 4)), {"xml_legal": xml, "aware": "offsets" if rng.random() < 0.25 else False})
        trees.append((t, FORMATS if xml else ("binary", "binary-header", "notation", "zip")))
    per_class = {}
    counts = {}
    nontriv = 0
    leaks = {"keys": 0, "uris": 0}
    for t, fmts in trees:
        if any(isinstance(x, (list, tuple, dict, str, datetime.date)) for x in walk(m, t)):
            nontriv += 1
        for fmt in fmts:
            res.evaluations += 1
            v = check_tree(m, fmt, t)
            if v:
                c = v["class"]
                counts[c] = counts.get(c, 0) + 1
                if c not in per_class:
                    per_class[c] = (fmt, t)
        if not keys_uris_nl_free(m, t):
            try:
                if b"\n" in m.llsd.format_notation(strip_class(m, t, "aware")):
                    if any(isinstance(x, dict) and any("\n" in k for k in x) for x in walk(m, t)):
                        leaks["keys"] += 1
                    else:
                        leaks["uris"] += 1
            except Exception:
                pass
    for c, (fmt, t) in sorted(per_class.items()):
        small = shrink(m, t, lambda w: (lambda r: r is not None and r["class"] == c)(check_tree(m, fmt, w)))
        v = check_tree(m, fmt, small)
        v["occurrences"] = counts[c]
        res.impl_violations.append(v)
    # format limit, not a defect of the code: an LLSD binary date is a double of seconds, which no longer resolves
    # microseconds after 2106 (|t| >= 2^32 s); the generator keeps microsecond dates inside that range
    lost = 0
    far = 0
    for _ in range(300):
        d = datetime.datetime(rng.randrange(2300, 9999), rng.randrange(1, 13), rng.randrange(1, 29), rng.randrange(24),
                              rng.randrange(60), rng.randrange(60), rng.randrange(1, 10 ** 6))
        far += 1
        try:
            if dt_micros(m.llsd.parse_binary(m.llsd.format_binary(d))) != dt_micros(d):
                lost += 1
        except Exception:
            lost += 1
    ctx.notes.append("format limit (reported, not flagged): %d of %d microsecond datetimes in years 2300..9998 come back from the "
                     "binary codec up to 30 us off - a binary LLSD date is a double of seconds" % (lost, far))
    ctx.notes.append("outside the statement (reported, not flagged): raw 0x0A reaches notation output through map keys in "
                     "%d and through URIs in %d generated trees (replay: format_notation({'a\\nb': 1}), format_notation(uri('h\\nx')))"
                     % (leaks["keys"], leaks["uris"]))
    res.distinct_nontrivial = nontriv
    res.distribution = {"trees": len(trees), "violations_by_class": counts}
    res.samples = [{"tree": enc(m, t)} for t, _ in trees[-3:]]
    return res


# --------------------------------------------------------------------------
# suite 4: dates under three process time zones

TZ_SCRIPT = r'''
import os, sys, time, json, datetime, struct
os.environ["TZ"] = sys.argv[1]
time.tzset()
from hippolyzer.lib.base import llsd
UTC = datetime.timezone.utc
def micros(d):
    if not isinstance(d, datetime.datetime):
        d = datetime.datetime(d.year, d.month, d.day)
    e = datetime.datetime(1970, 1, 1, tzinfo=d.tzinfo)
    return (d - e) // datetime.timedelta(microseconds=1)
cases = json.load(sys.stdin)
out = []
for y, mo, d, h, mi, s, us, flavour in cases:
    if flavour == "dateonly":
        v = datetime.date(y, mo, d)
    else:
        v = datetime.datetime(y, mo, d, h, mi, s, us, tzinfo=None if flavour == "naive" else UTC)
    row = {"tz": time.tzname[0], "in": micros(v)}
    for name, f, p in (("binary", lambda x: llsd.format_binary(x, with_header=False), llsd.parse_binary),
                       ("notation", llsd.format_notation, llsd.parse_notation),
                       ("xml", llsd.format_xml, llsd.parse_xml),
                       ("zip", llsd.zip_llsd, llsd.unzip_llsd)):
        try:
            b = f({"d": [v]})
            r = p(b)["d"][0]
            row[name] = [b.hex() if name != "zip" else "", micros(r), isinstance(r, datetime.datetime)]
        except Exception as e:
            row[name] = ["EXC:" + type(e).__name__, None, False]
    out.append(row)
json.dump(out, sys.stdout)
'''

TZS = ("UTC", "America/New_York", "Australia/Lord_Howe")


def run_tz(ctx, tz, cases):
    env = dict(os.environ)
    env["TZ"] = tz
    env["PYTHONPATH"] = ctx.repo
    p = subprocess.run([sys.executable, "-W", "ignore", "-c", TZ_SCRIPT, tz], input=json.dumps(cases), env=env,
                       stdout=subprocess.PIPE, stderr=subprocess.PIPE, text=True, timeout=600)
    if p.returncode != 0:
        raise RuntimeError("tz subprocess failed: " + p.stderr[-500:])
    return json.loads(p.stdout)


def tz_check(ctx, cases):
    """returns list of violation dicts"""
    runs = {tz: run_tz(ctx, tz, cases) for tz in TZS}
    viols = []
    for i, c in enumerate(cases):
        flavour = c[7]
        for fmt in ("binary", "notation", "xml", "zip"):
            rows = [runs[tz][i] for tz in TZS]
            for tz, row in zip(TZS, rows):
                hexout, back, isdt = row[fmt]
                want = row["in"]
                if hexout.startswith("EXC:") or back != want or not isdt:
                    if flavour == "utc" and fmt in ("notation", "xml") and hexout.startswith("EXC:"):
                        cls = "aware-datetime-unparseable-" + fmt
                    elif fmt in ("notation", "xml") and back is not None and abs(back - want) == 1:
                        cls = "date-microseconds-truncated-" + fmt
                    else:
                        cls = "date-instant-" + fmt
                    viols.append({"clause": "same instant for dates in any process time zone", "format": fmt, "tz": tz,
                                  "date": c, "class": cls, "why": f"in={want} back={back} out={hexout[:60]}"})
                    break
            else:
                if len({r[fmt][0] for r in rows}) != 1:
                    viols.append({"clause": "same instant for dates in any process time zone", "format": fmt,
                                  "date": c, "class": "date-bytes-depend-on-tz-" + fmt, "why": "formatted bytes differ between time zones"})
    return viols


def suite_tz(ctx, m):
    res = CorrResult(
        suite="impl-level oracle: dates under TZ in {UTC, America/New_York, Australia/Lord_Howe}",
        rule="DST-edge and seeded random datetimes (naive, UTC-aware, date) formatted and parsed in three subprocesses with "
             "TZ set + time.tzset(); the instant that comes back must equal the instant that went in and the formatted bytes "
             "must not depend on the zone; formats binary/notation/XML/zip; non-trivial = every case")
    rng = ctx.rng
    cases = [j["date"] for j in load_corpus() if j.get("kind") == "date"]
    for d in (datetime.datetime(2021, 11, 7, 1, 30), datetime.datetime(2021, 11, 7, 5, 30), datetime.datetime(2021, 3, 14, 2, 30),
              datetime.datetime(2021, 3, 14, 7, 0), datetime.datetime(2021, 4, 3, 15, 15), datetime.datetime(2021, 10, 2, 15, 45),
              datetime.datetime(1970, 1, 1), datetime.datetime(2020, 6, 1, 12, 0, 0, 123456), datetime.datetime(1969, 7, 20, 20, 17, 40)):
        for fl in ("naive", "utc"):
            cases.append([d.year, d.month, d.day, d.hour, d.minute, d.second, d.microsecond, fl])
    cases.append([2021, 11, 7, 0, 0, 0, 0, "dateonly"])
    cases.append([2021, 3, 14, 0, 0, 0, 0, "dateonly"])
    for _ in range(ctx.pick(150, 3000)):
        d = gen_date(rng, True)
        e = enc(m, d)
        cases.append(e[1] + [e[2]])
    viols = tz_check(ctx, cases)
    seen = set()
    for v in viols:
        if v["class"] not in seen:
            seen.add(v["class"])
            v["occurrences"] = sum(1 for w in viols if w["class"] == v["class"])
            res.impl_violations.append(v)
    res.evaluations = len(cases) * 4 * len(TZS)
    res.distinct_nontrivial = len(cases)
    res.distribution = {"cases": len(cases), "zones": list(TZS)}
    res.samples = [{"date": c} for c in cases[:3]]
    return res


# --------------------------------------------------------------------------
# suite 5: messages <-> LLSD

def gen_var(m, rng, T, var, xml):
    t = var.type.name
    if t in ("MVT_FIXED", "MVT_VARIABLE"):
        if t == "MVT_FIXED":
            return bytes(rng.getrandbits(8) for _ in range(var.size))
        if rng.random() < 0.5:
            return gen_text(rng, xml_legal=True, maxlen=10).replace("\r", "")
        return bytes(rng.getrandbits(8) for _ in range(rng.choice((0, 1, 2, 7))))
    rngs = {"MVT_U8": (0, 2 ** 8), "MVT_U16": (0, 2 ** 16), "MVT_U32": (0, 2 ** 32), "MVT_U64": (0, 2 ** 64),
            "MVT_S8": (-2 ** 7, 2 ** 7), "MVT_S16": (-2 ** 15, 2 ** 15), "MVT_S32": (-2 ** 31, 2 ** 31),
            "MVT_S64": (-2 ** 63, 2 ** 63), "MVT_IP_PORT": (0, 2 ** 16)}
    if t in rngs:
        lo, hi = rngs[t]
        return rng.choice((lo, hi - 1, 0, rng.randrange(lo, hi)))
    if t == "MVT_BOOL":
        return rng.choice((0, 1, True, False))
    if t in ("MVT_F32", "MVT_F64"):
        return gen_real(rng)
    f = lambda: gen_real(rng) if rng.random() < 0.3 else rng.choice((0.0, 1.0, -2.5, 255.5))
    if t in ("MVT_LLVector3", "MVT_LLVector3d"):
        return m.dt.Vector3(f(), f(), f())
    if t == "MVT_LLVector4":
        return m.dt.Vector4(f(), f(), f(), f())
    if t == "MVT_LLQuaternion":
        while True:
            x, y, z = (rng.uniform(-1, 1) for _ in range(3))
            if x * x + y * y + z * z <= 1:
                return m.dt.Quaternion(x, y, z)   # W derived: the form a quaternion has on the wire
    if t == "MVT_LLUUID":
        return m.dt.UUID(bytes=bytes(rng.getrandbits(8) for _ in range(16)))
    if t == "MVT_IP_ADDR":
        return ".".join(str(rng.randrange(256)) for _ in range(4))
    raise ValueError(t)


def gen_message(m, rng, tmpl, xml):
    from hippolyzer.lib.base.message.message import Message, Block
    blocks = []
    empty = []
    for b in tmpl.blocks:
        bt = int(b.block_type)     # MsgBlockType: 0 single, 1 multiple, 2 variable
        n = 1 if bt == 0 else b.number if bt == 1 else rng.choice((0, 0, 1, 2, 3))
        if n == 0 and rng.random() < 0.7:
            empty.append(b.name)   # a Variable block that is PRESENT with zero entries (what a decoded count byte of 0 gives)
        for _ in range(n):
            blocks.append(Block(b.name, **{v.name: gen_var(m, rng, tmpl, v, xml) for v in b.variables}))
    msg = Message(tmpl.name, *blocks)
    if empty:
        # keep the template's block order in the dict: rebuild the block table in order
        order = [b.name for b in tmpl.blocks]
        for name in empty:
            msg.create_block_list(name)
        msg.blocks = {k: msg.blocks[k] for k in order if k in msg.blocks}
    return msg


def same_exact(m, a, b, path="$"):
    """message values: same Python type (bytes subclasses aside) and same value, reals by bits"""
    if isinstance(a, dict) and isinstance(b, dict):
        if list(a.keys()) != list(b.keys()):
            return f"{path}: keys {list(a.keys())!r} became {list(b.keys())!r}"
        for k in a:
            r = same_exact(m, a[k], b[k], f"{path}.{k}")
            if r:
                return r
        return None
    if isinstance(a, list) and isinstance(b, list):
        if len(a) != len(b):
            return f"{path}: {len(a)} items became {len(b)}"
        for i, (x, y) in enumerate(zip(a, b)):
            r = same_exact(m, x, y, f"{path}[{i}]")
            if r:
                return r
        return None
    if isinstance(a, m.dt.TupleCoord):
        if type(a) is not type(b):
            return f"{path}: {type(a).__name__} became {type(b).__name__}"
        if [fbits(x) for x in a.data()] != [fbits(x) for x in b.data()]:
            return f"{path}: {a!r} became {b!r}"
        return None
    if isinstance(a, float):
        if not isinstance(b, float) or fbits(a) != fbits(b):
            return f"{path}: {a!r} became {b!r}"
        return None
    if isinstance(a, bytes):
        if not isinstance(b, bytes) or bytes(a) != bytes(b):
            return f"{path}: {a!r} became {b!r}"
        return None
    if isinstance(a, uuidmod.UUID):
        # the XML parser returns uuid.UUID, the message held datatypes.UUID (a subclass): equal, same LLSD type
        if not isinstance(b, uuidmod.UUID) or a.bytes != b.bytes:
            return f"{path}: {a!r} became {b!r}"
        return None
    if type(a) is not type(b) or a != b:
        return f"{path}: {a!r} ({type(a).__name__}) became {b!r} ({type(b).__name__})"
    return None


def check_message_reuse(m, ser, msg):
    """The in-memory (event-queue) form is an object the proxy keeps using: it is deserialized for the handlers, then
    formatted to XML for the viewer and deserialized again by the logger.  Converting must not consume it.
      (a) deserialize(d) leaves d as it was        (b) deserialize(d) a second time gives the original message
      (c) format_xml(d) after (a) still deserializes to the original and is the XML serialize(msg) gives
      (d) serialize leaves the Message as it was and gives equal forms when repeated"""
    import copy
    clause = "message -> LLSD form -> message equals the original (in-memory form reused, XML form of the same dict)"

    def viol(why):
        return {"clause": clause, "form": "reuse", "message": msg.name, "why": why, "class": "message-llsd-form-not-reusable",
                "body": json.loads(json.dumps(enc_msg(m, orig)))}
    orig = copy.deepcopy(msg.to_dict())
    try:
        d1 = ser.serialize(msg, as_dict=True)
        x1 = ser.serialize(msg)
        why = same_exact(m, orig, msg.to_dict())
        if why:
            return viol("(d) serialize changed the Message: " + why)
        d2 = ser.serialize(msg, as_dict=True)
        why = same_exact(m, d1, d2) or (None if ser.serialize(msg) == x1 else "$: XML differs")
        if why:
            return viol("(d) serializing twice gave different forms: " + why)
        if any(a is b for blks_a, blks_b in zip(d1["body"].values(), d2["body"].values()) for a, b in zip(blks_a, blks_b)):
            return viol("(d) two serialized forms share their block dicts")
        snap = copy.deepcopy(d1)
        b1 = ser.deserialize(d1)
        why = same_exact(m, orig, b1.to_dict())
        if why:
            return viol("first deserialize: " + why)
        why = same_exact(m, snap, d1)
        if why:
            return viol("(a) deserialize changed the caller's dict form: " + why)
        b2 = ser.deserialize(d1)
        why = same_exact(m, orig, b2.to_dict())
        if why:
            return viol("(b) second deserialize of the same dict: " + why)
        xml = m.llsd.format_xml(d1)
        if xml != x1:
            return viol("(c) format_xml(dict form) after deserialize differs from serialize(msg)")
        b3 = ser.deserialize(xml)
        why = same_exact(m, orig, b3.to_dict())
        if why:
            return viol("(c) dict form -> XML -> message: " + why)
        why = same_exact(m, snap, d1) or same_exact(m, orig, msg.to_dict())
        if why:
            return viol("(a) inputs changed by later conversions: " + why)
    except Exception as e:
        return viol("raised " + type(e).__name__ + ": " + str(e)[:160])
    return None


def check_message(m, ser, msg, form):
    if form == "reuse":
        return check_message_reuse(m, ser, msg)
    orig = msg.to_dict()
    try:
        if form == "dict":
            back = ser.deserialize(ser.serialize(msg, as_dict=True))
        else:
            back = ser.deserialize(ser.serialize(msg))
        why = same_exact(m, orig, back.to_dict())
    except Exception as e:
        why = "raised " + type(e).__name__ + ": " + str(e)[:160]
    if why:
        return {"clause": "message -> LLSD form -> message equals the original", "form": form, "message": msg.name,
                "why": why, "class": "message-llsd-" + form, "body": json.loads(json.dumps(enc_msg(m, orig)))}
    return None


def enc_msg(m, d):
    return {"message": d["message"],
            "body": {bn: [{k: enc(m, v) for k, v in blk.items()} for blk in blks] for bn, blks in d["body"].items()}}


def dec_msg(m, j):
    from hippolyzer.lib.base.message.message import Message, Block
    blocks = []
    for bn, blks in j["body"].items():
        for blk in blks:
            blocks.append(Block(bn, **{k: dec(m, v) for k, v in blk.items()}))
    return Message(j["message"], *blocks)


def mval_tok(m, tname, v):
    """message-side value -> model mval tokens (see coq/theories/Llsd/LlsdMsg.v)"""
    import socket
    if isinstance(v, bool):
        return "VT" if v else "VF"
    if isinstance(v, int):
        return "VI %d" % v
    if isinstance(v, float):
        return "VR " + fbits(v)
    if isinstance(v, m.dt.Quaternion):
        return "VQ %s %s %s" % (fbits(v.X), fbits(v.Y), fbits(v.Z))
    if isinstance(v, m.dt.TupleCoord):
        d = v.data()
        return "VV %d %s" % (len(d), " ".join(fbits(c) for c in d))
    if isinstance(v, uuidmod.UUID):
        return "VG " + v.bytes.hex()
    if tname == "MVT_IP_ADDR" and isinstance(v, str):
        return "VA " + socket.inet_aton(v).hex()     # dotted quad <-> 4 octets: library, trusted
    if isinstance(v, bytes):
        return "VB " + hx(bytes(v))
    if isinstance(v, str):
        return "VS " + hx(v.encode("utf-8"))
    raise TypeError(type(v))


def packing_table_leg(ctx, m, res, pairs):
    """LLSDDataPacker / pass-through per variable: implementation vs extracted model (to_llsd_var, of_llsd_var)"""
    from hippolyzer.lib.base.message.data_packer import LLSDDataPacker as P
    from hippolyzer.lib.base.message.msgtypes import MsgType
    edge = []
    for tn, vals in (("MVT_U32", (-1, 2 ** 32, 2 ** 32 - 1, 0)), ("MVT_U64", (-1, 2 ** 64, 2 ** 64 - 1)),
                     ("MVT_S64", (2 ** 63, -2 ** 63 - 1, -2 ** 63, 2 ** 63 - 1, -1)), ("MVT_U8", (300, -1)),
                     ("MVT_S32", (2 ** 31 - 1, -2 ** 31))):
        for z in vals:
            edge.append((MsgType[tn], z))
    lines, plan, seen = [], [], set()
    for t, v in edge + pairs:
        try:
            mt = mval_tok(m, t.name, v)
        except Exception:
            continue
        key = (t.name, mt)
        if key in seen:
            continue
        seen.add(key)
        try:
            x = P.pack(v, t) if t in P.SPECS else v
            io = "OK " + tok(m, x)
        except Exception as e:
            x, io = None, "ERR"
        lines.append("mp %s %s" % (t.name, mt))
        plan.append(("mp", t, v, io, None))
        if x is not None:
            try:
                y = P.unpack(x, t) if t in P.SPECS else x
                iu = "OK " + mval_tok(m, t.name, y)
                if isinstance(y, m.dt.TupleCoord) and type(y) is not type(v):
                    iu += " (class %s)" % type(y).__name__
            except Exception as e:
                iu = "ERR"
            lines.append("mu %s %s" % (t.name, tok(m, x)))
            plan.append(("mu", t, v, iu, x))
    out = ctx.run_driver(lines)
    nconf = 0
    for (op, t, v, io, x), mo in zip(plan, out):
        if op == "mp":
            nconf += mo.startswith("1")
            mo = mo[2:]
        if mo != io:
            res.disagreements.append({"op": "LLSDDataPacker." + ("pack" if op == "mp" else "unpack"), "type": t.name,
                                      "value": repr(v)[:120], "impl": io[:200], "model": mo[:200]})
    res.evaluations += len(lines)
    res.distribution["packing_table_cases"] = len(lines)
    res.distribution["packing_table_values_conforming"] = nconf


def suite_messages(ctx, m):
    from hippolyzer.lib.base.message.llsd_msg_serializer import LLSDMessageSerializer
    from hippolyzer.lib.base.message.template_dict import DEFAULT_TEMPLATE_DICT
    res = CorrResult(
        suite="impl-level oracle: template-generated messages x {dict, XML} through LLSDMessageSerializer",
        rule="(packing table: every generated (template type, value) pair + range-edge ints through LLSDDataPacker.pack/unpack "
             "or the pass-through and through the extracted to_llsd_var/of_llsd_var, LLSD trees compared) for every message of the live template (all 481), %d seeded instances with values of every variable type "
             "(ints at both range ends incl. U32/U64/S64 packed as binary, F32/F64 reals by bits, vectors, wire-form "
             "quaternions, UUIDs, IPs, ports, text XML-legal without CR, raw bytes), Variable blocks 0..3 entries; "
             "serialize(as_dict) / serialize() (XML) then deserialize must give a message with the same to_dict(), values "
             "compared with their Python types; reuse probes per message: serialize leaves the Message unchanged and is "
             "repeatable, deserialize leaves the caller's dict form unchanged (deep snapshot, types included), the same dict "
             "deserializes a second time and, formatted to XML afterwards, again to the original message; non-trivial = message with at least one template-packed variable" % ctx.pick(2, 12))
    rng = ctx.rng
    ser = LLSDMessageSerializer()
    packed = set(t.name for t in m_packed_types(m))
    types = {}
    nontriv = 0
    for j in load_corpus():
        if j.get("kind") == "message":
            msg = dec_msg(m, j["message"])
            for form in ("dict", "xml", "reuse"):
                res.evaluations += 1
                v = check_message(m, ser, msg, form)
                if v:
                    res.impl_violations.append(v)
    first = {}
    pairs = []
    for tmpl in DEFAULT_TEMPLATE_DICT:
        has_packed = any(v.type.name in packed for b in tmpl.blocks for v in b.variables)
        for b in tmpl.blocks:
            for v in b.variables:
                types[v.type.name] = types.get(v.type.name, 0) + 1
        for i in range(ctx.pick(2, 12)):
            msg = gen_message(m, rng, tmpl, True)
            if has_packed:
                nontriv += 1
            if i == 0 and has_packed:
                _poison(m, ser, tmpl, packed, rng)
            if len(pairs) < ctx.pick(6000, 60000):
                for b in tmpl.blocks:
                    for blk in msg.blocks.get(b.name, ()):
                        for v in b.variables:
                            pairs.append((v.type, blk[v.name]))
            for form in ("dict", "xml", "reuse"):
                res.evaluations += 1
                v = check_message(m, ser, msg, form)
                if v:
                    key = (form, v["why"].split(":")[0][:40] if v["why"].startswith("raised") else "changed")
                    if key not in first and len(first) < 5:
                        first[key] = v
    res.impl_violations += list(first.values())
    res.distinct_nontrivial = nontriv
    res.distribution = {"variables_by_type": types}
    packing_table_leg(ctx, m, res, pairs)
    res.samples = [{"message": "EnableSimulator", "forms": ["dict", "xml"]}]
    return res


def _poison(m, ser, tmpl, packed, rng):
    """the SAME serializer object first meets this message type in an operation that fails part-way: a message whose LAST
    template-packed variable holds something unpackable, then an event dict that lacks that field.  A rejected message must leave
    nothing behind for the valid ones that follow."""
    try:
        bad = gen_message(m, rng, tmpl, True)
        last = None
        for b in tmpl.blocks:
            for v in b.variables:
                if v.type.name in packed and bad.blocks.get(b.name):
                    last = (b.name, v.name)
        if not last:
            return
        for blk in bad.blocks[last[0]]:
            blk[last[1]] = object()
        try:
            ser.serialize(bad, True)
        except Exception:
            pass
        try:
            good = ser.serialize(gen_message(m, random.Random(1), tmpl, True), True)
            for blk in good["body"].get(last[0], []):
                blk.pop(last[1], None)
            ser.deserialize(good)
        except Exception:
            pass
    except Exception:
        pass


def m_packed_types(m):
    from hippolyzer.lib.base.message.data_packer import LLSDDataPacker
    return list(LLSDDataPacker.SPECS.keys())


# --------------------------------------------------------------------------

def load_corpus():
    d = os.path.join(VERIF, "corpus", "C12")
    out = []
    if os.path.isdir(d):
        for f in sorted(os.listdir(d)):
            if f.endswith(".json"):
                try:
                    out.append(json.load(open(os.path.join(d, f))))
                except Exception:
                    pass
    return out


def correspond(ctx):
    m = _mods()
    return [suite_binary(ctx, m), suite_notation(ctx, m), suite_oracle(ctx, m), suite_tz(ctx, m), suite_messages(ctx, m)]


def _recorded(v):
    """a failure that known_findings.json already lists is not the replay of a *new* violation"""
    from harness.common.framework import load_findings, _matches_known
    return v is not None and _matches_known(v, load_findings("C12"))


def search(ctx, hints):
    m = _mods()
    _ct = check_tree

    def check_tree(m_, fmt, t):          # noqa  (shadows the module-level oracle inside the search only)
        v = _ct(m_, fmt, t)
        return None if _recorded(v) else v
    for h in hints:
        v = h.get("impl_violation")
        if v:
            if not _recorded(v):
                return v
    # disagreements between model and code: look for a property-level failure near the disagreeing input
    for h in hints:
        d = h.get("disagreement")
        if d and "tree" in d:
            t = dec(m, d["tree"])
            for fmt in FORMATS:
                v = check_tree(m, fmt, t)
                if v:
                    return v
    rng = ctx.rng
    for t in exhaustive_small_trees(m):
        for fmt in FORMATS:
            v = check_tree(m, fmt, t)
            if v:
                return v
    for _ in range(3000):
        t = gen_tree(m, rng, rng.choice((1, 2, 3)), {"xml_legal": True, "aware": "offsets" if rng.random() < 0.3 else False})
        for fmt in FORMATS:
            v = check_tree(m, fmt, t)
            if v:
                small = shrink(m, t, lambda w: check_tree(m, fmt, w) is not None)
                return check_tree(m, fmt, small)
    r = suite_tz(ctx, m)
    if r.impl_violations:
        return r.impl_violations[0]
    r = suite_messages(ctx, m)
    if r.impl_violations:
        return r.impl_violations[0]
    return None


def replay(ctx, case):
    m = _mods()
    if "tree" in case and "format" in case:
        v = check_tree(m, case["format"], dec(m, case["tree"]))
        return (v is not None), (v or "holds")
    if "date" in case:
        vs = [v for v in tz_check(ctx, [case["date"]]) if v["format"] == case.get("format", v["format"])]
        return bool(vs), (vs[0] if vs else "holds")
    if "body" in case:
        from hippolyzer.lib.base.message.llsd_msg_serializer import LLSDMessageSerializer
        mj = case["body"] if isinstance(case["body"], dict) and "body" in case["body"] and "message" in case["body"] \
            else {"message": case["message"], "body": case["body"]}
        ser_ = LLSDMessageSerializer()
        try:
            # as in the suite: the serializer has first rejected a message of this type part-way
            from hippolyzer.lib.base.message.template_dict import DEFAULT_TEMPLATE_DICT as _TD
            _poison(m, ser_, _TD.get_template_by_name(mj["message"]), set(t.name for t in m_packed_types(m)), random.Random(0))
        except Exception:
            pass
        v = check_message(m, ser_, dec_msg(m, mj), case["form"])
        return (v is not None), (v or "holds")
    return False, "unrecognised case"
