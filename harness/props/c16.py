"""C16 - capability URLs are attributed to the right cap, region and session.
Model: coq/theories/Http/Caps.v (extracted, driven by coq/ocaml/c16_driver.ml) against the real
ProxiedRegion / Session / SessionManager / MITMProxyEventManager objects."""
import contextlib
import copy
import functools
import logging
import hashlib
import json
import os
import itertools
import urllib.parse
import uuid as uuid_mod

from harness.common.framework import CorrResult

PROP_ID = "C16"
COQ_PROPS = "theories/Props/C16.v"
EXTRACT = ("theories/Extract/ExC16.v", "c16_driver.ml")
TRUSTED = [
    "modelled by hand (Http/Caps.v): CapsMultiDict.add, ProxiedRegion.__init__/update_caps/_recalc_caps/register_cap/"
    "register_wrapper_cap/register_proxy_cap/resolve_cap, Session.resolve_cap, SessionManager.resolve_cap/create_session, "
    "BaseClientSession.register_region/from_login_data, the Seed and upload-creating-cap branches of "
    "MITMProxyEventManager._handle_request/_handle_response; multidict.MultiDict as an ordered association list and the "
    "insertion-ordered dict _caps_url_lookup as an association list with in-place overwrite",
    "strings are UTF-8 byte lists; regions/sessions are identified by their index in Session.regions/SessionManager.sessions "
    "(close_session and weakref death are not modelled); circuit addresses are opaque ids",
    "oracles of the model: uuid.uuid4 (patched to a counter in the harness; theorems that need it assume only what they state) and "
    "the wrapper URL (urlsplit + sha256(seed id)[:16] + urlunsplit), re-implemented in the OCaml driver for URLs of the shape "
    "scheme://netloc[/?#rest] and compared with the real code on every case",
    "out of the model: LLSD (de)serialisation of flow bodies, addon hooks (none installed), asset-repo serving, the "
    "EventQueueGet/ProxyWrapper/LoginRequest branches; non-str 'uploader' values; ValueError of list.remove in the temporary-"
    "consumption path is unreachable by the proved invariant C16_lookup_fresh",
    "seed_request: exact upstream list proved for requests without duplicate names, permutation and per-name count laws for all "
    "requests (C16_seed_request_counts); a request listing a proxy-only name twice keeps one copy upstream "
    "(C16_seed_request_dup_refuted) - viewers send each name once, the oracle does not generate or judge duplicate names; "
    "proxy_cap_idempotent is proved for any interleaving that does not grant the same name in the same region in between "
    "(a simulator grant shadowing a proxy-only name makes the next registration mint a new URL: documented boundary, not checked as a violation)",
    "harness code, not extracted: the driver's tree walk (T lines: applies the extracted step to the parent's model state, in "
    "alphabet order, and prints the extracted cap_url / md_getall of the watched name) and every-step mode (E lines); the "
    "family's snapshot/restore of ProxiedRegion.caps/_caps_url_lookup between siblings assumes these two containers are the only "
    "state update_caps/register_cap/resolve_cap touch (the random suites run every sequence on fresh objects)",
    "C16_wrapper_urls_distinct assumes the stated oracle hypotheses (sha256(seed id)[:16] + lower-cased cap name give distinct "
    "hosts for distinct (name, seed id); urlsplit recovers the netloc urlunsplit was given); C16_temporary_once and "
    "C16_resolve_sound assume `unambiguous` (prefix-related grants agree), which excludes the recorded prefix finding",
]

WRAPPABLE = ("GetMesh2", "GetMesh", "GetTexture", "ViewerAsset")
TY_NAMES = {"N": "NORMAL", "T": "TEMPORARY", "W": "WRAPPER", "P": "PROXY_ONLY"}
TY_SHORT = {v: k for k, v in TY_NAMES.items()}


class _TyLetter(dict):
    """CapType member -> one-letter code (Enum.name is slow; this is on the hot path of the sweeps)"""
    def __missing__(self, t):
        self[t] = TY_SHORT[t.name]
        return self[t]


TYL = _TyLetter()
UPLOAD_CREATING = ("NewFileAgentInventory", "UpdateGestureAgentInventory", "UpdateGestureTaskInventory",
                   "UpdateNotecardAgentInventory", "UpdateNotecardTaskInventory", "UpdateScriptAgent", "UpdateScriptTask",
                   "UpdateSettingsAgentInventory", "UpdateSettingsTaskInventory", "UploadBakedTexture",
                   "UploadAgentProfileImage")
PREFIX_CLASS = "prefix-related-urls-first-inserted-wins"


# --------------------------------------------------------------------------- encoding

@functools.lru_cache(maxsize=8192)
def hx(s):
    return "x" + s.encode("utf8").hex()


def opt(v, f=str):
    return "-" if v is None else f(v)


def val_tok(v):
    return ("s" + v[1].encode("utf8").hex()) if v[0] == "s" else "o%d" % v[1]


def val_py(v):
    return v[1]


def py_val(x):
    return ("s", x) if isinstance(x, str) else ("o", int(x) if isinstance(x, int) and not isinstance(x, bool) else 0)


def op_tokens(op, worder):
    k = op[0]
    if k == "CS":
        _, sid, globs, addr, seed, handle = op
        out = ["CS", str(sid), str(len(globs))]
        for n, u in globs:
            out += [hx(n), hx(u)]
        return out + [opt(addr), opt(seed, hx), opt(handle)]
    if k == "RR":
        _, si, addr, seed, handle = op
        return ["RR", str(si), opt(addr), opt(seed, hx), opt(handle)]
    if k == "UC":
        _, si, ri, items = op
        out = ["UC", str(si), str(ri), str(len(items))]
        for n, v in items:
            out += [hx(n), val_tok(v)]
        return out
    if k == "RC":
        _, si, ri, name, url, ty = op
        return ["RC", str(si), str(ri), hx(name), hx(url), ty]
    if k in ("RW", "RP"):
        _, si, ri, name = op
        return [k, str(si), str(ri), hx(name)]
    if k == "RS":
        return ["RS", hx(op[1])]
    if k == "RQ":
        _, url, names = op
        return ["RQ", hx(url), str(len(names))] + [hx(n) for n in names]
    if k == "RE":
        _, fid, status, items = op
        out = ["RE", str(fid), str(status), str(len(worder))] + [hx(n) for n in worder] + [str(len(items))]
        for n, v in items:
            out += [hx(n), val_tok(v)]
        return out
    raise ValueError(op)


def case_line(ops, worder, uuid_base=0):
    toks = []
    if uuid_base:
        toks.append("U%d" % uuid_base)
    for i, op in enumerate(ops):
        if i:
            toks.append("|")
        toks += op_tokens(op, worder)
    return " ".join(toks)


def norm_op(op):
    """JSON round trip gives lists; normalise to the tuple shapes used here"""
    op = list(op)
    k = op[0]
    if k == "CS":
        op[2] = [tuple(g) for g in op[2]]
    if k in ("UC", "RE"):
        op[3] = [(n, tuple(v)) for n, v in op[3]]
    if k == "RQ":
        op[2] = list(op[2])
    return tuple(op)


# --------------------------------------------------------------------------- the implementation side

class World:
    """real SessionManager + MITMProxyEventManager, driven op by op"""

    def __init__(self, uuid_base=0):
        from hippolyzer.lib.proxy.sessions import SessionManager
        from hippolyzer.lib.proxy.settings import ProxySettings
        from hippolyzer.lib.proxy.addons import AddonManager
        from hippolyzer.lib.proxy.http_event_manager import MITMProxyEventManager
        self.sm = SessionManager(ProxySettings())
        AddonManager.init([], self.sm, [])
        self.em = MITMProxyEventManager(self.sm, self.sm.flow_context)
        self.uuid_base = uuid_base
        self.uuid_n = 0
        self.flows = []
        self.worder = list({"GetMesh2", "GetMesh", "GetTexture", "ViewerAsset"})

    # deterministic uuid4
    def _uuid4(self):
        n = self.uuid_base + self.uuid_n
        self.uuid_n += 1
        return uuid_mod.UUID(int=(0x4000 << 64) | (0x8000 << 48) | n)

    @contextlib.contextmanager
    def patched(self):
        # region.py does `import uuid` and calls uuid.uuid4(): swap that module reference only
        # (mitmproxy draws its own uuid4s for flow ids)
        import types
        import hippolyzer.lib.proxy.region as region_mod
        old = region_mod.uuid
        shim = types.SimpleNamespace(uuid4=self._uuid4, UUID=uuid_mod.UUID)
        region_mod.uuid = shim
        try:
            yield
        finally:
            region_mod.uuid = old

    def region(self, si, ri):
        if si < len(self.sm.sessions):
            s = self.sm.sessions[si]
            if ri < len(s.regions):
                return s.regions[ri]
        return None

    def cd_str(self, cd):
        reg = "-"
        if cd.region is not None and cd.region() is not None:
            r = cd.region()
            for si, s in enumerate(self.sm.sessions):
                for ri, rr in enumerate(s.regions):
                    if rr is r:
                        reg = "%d.%d" % (si, ri)
        ses = "-"
        if cd.session is not None and cd.session() is not None:
            for si, s in enumerate(self.sm.sessions):
                if s is cd.session():
                    ses = str(si)
        return ",".join([opt(cd.cap_name, hx), reg, ses, opt(cd.base_url, hx), cd.type.name[0] if cd.type.name != "PROXY_ONLY" else "P"])

    def apply(self, op):
        with self.patched():
            try:
                return self._apply(op)
            except Exception as e:  # an escaping exception is an observation
                return "EXC:" + type(e).__name__

    def _apply(self, op):
        from hippolyzer.lib.base.datatypes import UUID
        from hippolyzer.lib.base import llsd
        from hippolyzer.lib.proxy.caps import CapType, SerializedCapData
        from hippolyzer.lib.proxy.http_flow import HippoHTTPFlow
        k = op[0]
        if k == "CS":
            _, sid, globs, addr, seed, handle = op
            login = {"session_id": str(UUID(int=sid)), "secure_session_id": str(UUID(int=1000 + sid)),
                     "agent_id": str(UUID(int=2000 + sid)), "circuit_code": sid,
                     "sim_ip": "127.0.0.1" if addr is not None else None, "sim_port": addr,
                     "region_x": (handle or 0) >> 32, "region_y": (handle or 0) & 0xffffffff,
                     "seed_capability": seed}
            for n, u in globs:
                login[{"AppearanceService": "agent_appearance_service", "MapImageService": "map-server-url"}[n]] = u
            try:
                self.sm.create_session(login)
            except ValueError:
                return "err"
            return "idx:%d" % (len(self.sm.sessions) - 1)
        if k == "RR":
            _, si, addr, seed, handle = op
            if si >= len(self.sm.sessions):
                return "none"
            s = self.sm.sessions[si]
            try:
                r = s.register_region(("127.0.0.1", addr) if addr is not None else None, seed_url=seed, handle=handle)
            except ValueError:
                return "err"
            return "idx:%d" % [i for i, x in enumerate(s.regions) if x is r][0]
        if k == "UC":
            _, si, ri, items = op
            r = self.region(si, ri)
            if r is None:
                return "none"
            r.update_caps({n: val_py(v) for n, v in items})
            return "none"
        if k == "RC":
            _, si, ri, name, url, ty = op
            r = self.region(si, ri)
            if r is None:
                return "none"
            r.register_cap(name, url, CapType[TY_NAMES[ty]])
            return "none"
        if k == "RW":
            _, si, ri, name = op
            r = self.region(si, ri)
            if r is None:
                return "none"
            try:
                return "url:" + hx(r.register_wrapper_cap(name))
            except KeyError:
                return "err"
        if k == "RP":
            _, si, ri, name = op
            r = self.region(si, ri)
            if r is None:
                return "none"
            return "url:" + hx(r.register_proxy_cap(name))
        if k == "RS":
            return "cap:" + self.cd_str(self.sm.resolve_cap(op[1]))
        if k == "RQ":
            from mitmproxy.test import tflow, tutils
            _, url, names = op
            fake = tflow.tflow(req=tutils.treq(method=b"POST"))
            fake.request.url = url
            if fake.request.url != url:
                raise RuntimeError("harness: URL %r is normalised by mitmproxy to %r" % (url, fake.request.url))
            body = llsd.format_xml(list(names)) + b" "
            fake.request.content = body
            fake.metadata["cap_data_ser"] = SerializedCapData()
            flow = HippoHTTPFlow.from_state(fake.get_state(), self.sm)
            self.em._handle_request(flow)
            cd = flow.cap_data
            needed = flow.metadata.get("needed_proxy_caps", [])
            content = "-"
            if flow.request.content != body:
                content = "[" + ",".join(hx(n) for n in llsd.parse_xml(flow.request.content)) + "]"
            out = "req:%s:%s:%s" % (self.cd_str(cd), ",".join(hx(n) for n in needed), content)
            self.flows.append(flow.get_state())
            return out
        if k == "RE":
            import mitmproxy.http
            _, fid, status, items = op
            if fid >= len(self.flows):
                return "none"
            flow = HippoHTTPFlow.from_state(copy.deepcopy(self.flows[fid]), self.sm)
            body = llsd.format_xml({n: val_py(v) for n, v in items}) + b" "
            flow.flow.response = mitmproxy.http.Response.make(status, body, {"Content-Type": "application/llsd+xml"})
            self.em._handle_response(flow)
            if flow.response.content == body:
                return "resp:-"
            parsed = llsd.parse_xml(flow.response.content)
            return "resp:[" + ",".join(hx(n) + "=" + val_tok(py_val(v)) for n, v in parsed.items()) + "]"
        raise ValueError(op)

    def dump(self):
        parts = []
        for s in self.sm.sessions:
            regs = []
            for r in s.regions:
                regs.append("R %s %s C %s L %s" % (
                    opt(r.circuit_addr[1] if r.circuit_addr else None), opt(r.handle),
                    " ".join([hx(n) + ":" + TYL[t] + ":" + hx(u) for n, (t, u) in r.caps.items()]),
                    " ".join([hx(u) + ":" + TYL[t] + ":" + hx(n) for u, (t, n) in r._caps_url_lookup.items()])))
            parts.append("S %d %s" % (s.id.int, " ".join(regs)))
        return " ; ".join(parts) + " U %d" % self.uuid_n

    # snapshot / restore of exactly the state the modelled code reads and writes (for the prefix-sharing sweep)
    def snapshot(self):
        return (list(self.sm.sessions),
                [(s, list(s.regions), [(r, list(r.caps.items()), dict(r._caps_url_lookup), r.handle) for r in s.regions])
                 for s in self.sm.sessions], self.uuid_n, len(self.flows))

    def restore(self, snap):
        import multidict
        sessions, per, un, nf = snap
        self.sm.sessions[:] = sessions
        for s, regs, rstates in per:
            s.regions[:] = regs
            for r, items, lookup, handle in rstates:
                r.caps.clear()
                for k, v in items:
                    multidict.MultiDict.add(r.caps, k, v)
                r._caps_url_lookup.clear()
                r._caps_url_lookup.update(lookup)
                r.handle = handle
        self.uuid_n = un
        del self.flows[nf:]


# --------------------------------------------------------------------------- the property, stated on the history

def is_asset(n):
    return bool(n) and (n.startswith("GetMesh") or n.startswith("GetTexture") or n.startswith("ViewerAsset"))


def expected_wrapper(name, seed_url, orig):
    parsed = list(urllib.parse.urlsplit(orig))
    seed_id = seed_url.split("/")[-1].encode("utf8")
    parsed[1] = "%s-%s.hippo-proxy.localhost" % (name.lower(), hashlib.sha256(seed_id).hexdigest()[:16])
    parsed[0] = "http"
    return urllib.parse.urlunsplit(parsed)


class Spec:
    """The statement of C16 over the history of grants: per region and name the unconsumed grants, most recent first."""

    def __init__(self):
        self.sessions = []      # {"globals": [(n,u)], "regions": [{"addr":, "hist": {name: [(ty,url)]}}]}
        self.flows = []         # per request: None or (si, ri, needed)
        self.seen_urls = set()

    def hist(self, si, ri):
        if si < len(self.sessions) and ri < len(self.sessions[si]["regions"]):
            return self.sessions[si]["regions"][ri]["hist"]
        return None

    def grant(self, si, ri, name, ty, url):
        self.hist(si, ri).setdefault(name, []).insert(0, (ty, url))
        self.seen_urls.add(url)

    def head(self, si, ri, name):
        h = self.hist(si, ri).get(name)
        return h[0] if h else None

    def capdata(self, si, ri, name, ty, url):
        if ri is None:
            return "%s,-,-,%s,N" % (hx(name), hx(url))
        if is_asset(name) and ty != "W":
            return "%s,-,-,%s,%s" % (hx(name), hx(url), ty)
        return "%s,%d.%d,%d,%s,%s" % (hx(name), si, ri, si, hx(url), ty)

    def sites(self):
        for si, s in enumerate(self.sessions):
            for n, u in s["globals"]:
                yield (si, None, n, "N", u)
            for ri, r in enumerate(s["regions"]):
                for n, l in r["hist"].items():
                    for ty, u in l:
                        yield (si, ri, n, ty, u)

    def expected_resolve(self, url):
        hits = [s for s in self.sites() if url.startswith(s[4])]
        if not hits:
            return ("none", None, [])
        longest = max(len(s[4]) for s in hits)
        best = {self.capdata(*s) for s in hits if len(s[4]) == longest}
        others = [self.capdata(*s) for s in hits if len(s[4]) < longest]
        if len(best) != 1:
            return ("ambiguous", None, others)
        return ("cd", best.pop(), others)

    def clone(self):
        """cheap copy for the depth-first sweeps (entries are immutable tuples)"""
        c = Spec()
        c.sessions = [{"globals": s["globals"],
                       "regions": [{"addr": r["addr"], "hist": {n: list(l) for n, l in r["hist"].items()}} for r in s["regions"]]}
                      for s in self.sessions]
        c.flows = list(self.flows)
        c.seen_urls = set(self.seen_urls)
        return c

    def consume(self, got_cd):
        """the implementation reported resolving a TEMPORARY cap: drop that grant from the history"""
        for si, ri, n, ty, u in list(self.sites()):
            if ri is not None and ty == "T" and self.capdata(si, ri, n, ty, u) == got_cd:
                self.hist(si, ri)[n].remove((ty, u))
                return True
        return False


def observable(l):
    """the part of a name's grant list (most recent first) that lookups by name can ever yield: up to the first non-TEMPORARY grant"""
    out = []
    for ty, u in l:
        out.append([ty, u])
        if ty != "T":
            break
    return out


def check_ops(world, ops, collect=None, stop_at_first=True):
    """Run ops on the implementation and evaluate the clauses of C16 on the way.
    Returns (outs, violations).  `collect(i, out, dump)` is called after each op when given."""
    spec = Spec()
    outs, viols = [], []
    for i, op in enumerate(ops):
        out = world.apply(op)
        outs.append(out)
        viols += spec_step(world, spec, op, out, i)
        viols += spec_by_name(world, spec, i)
        if collect:
            collect(i, out)
        if viols and stop_at_first:
            break
    return outs, viols


def spec_by_name(world, spec, i):
    v = []
    for si, s in enumerate(spec.sessions):
        for ri, r in enumerate(s["regions"]):
            reg = world.region(si, ri)
            if reg is None:
                v.append({"clause": "region exists", "step": i, "region": [si, ri]})
                continue
            for n, l in r["hist"].items():
                want = l[0][1] if l else None
                try:
                    got = reg.cap_urls.get(n)
                except Exception as e:
                    got = "EXC:" + type(e).__name__
                if got != want:
                    v.append({"clause": "latest_by_name", "class": "by-name-lookup-not-most-recent-grant", "step": i,
                              "region": [si, ri], "name": n, "want": want, "got": got})
                    continue
                # the same clause after future consumptions: only one-shot grants are ever removed, so what lookups by name can
                # ever yield is the run of TEMPORARY grants ahead of the most recent permanent grant, and that grant - in
                # this order (the entries behind it, and hence multiplicities there, are not observable by name: the model
                # comparison covers them)
                want_obs = observable(l)
                try:
                    got_obs = observable([(TYL[t], u) for t, u in reg.caps.getall(n, [])])
                    got_urls = list(reg.cap_urls.getall(n, []))[:len(got_obs)]
                except Exception as e:
                    got_obs, got_urls = "EXC:" + type(e).__name__, None
                if got_obs != want_obs or got_urls != [u for _, u in want_obs]:
                    v.append({"clause": "latest_by_name after consumptions (one-shot grants ahead of the most recent permanent grant, most recent first)",
                              "class": "by-name-order-not-most-recent-first", "step": i,
                              "region": [si, ri], "name": n, "want": want_obs, "got": got_obs, "got_urls": got_urls})
    return v


def spec_resolve(spec, url, got_cd, i, what):
    v = []
    kind, want, others = spec.expected_resolve(url)
    empty = "-,-,-,-,N"
    if kind == "none":
        if got_cd != empty:
            v.append({"clause": "temporary_once / resolve only granted URLs", "class": "resolved-without-live-grant",
                      "step": i, "url": url, "got": got_cd, "op": what})
    elif kind == "cd":
        if got_cd != want:
            cls = PREFIX_CLASS if got_cd in others else "wrong-attribution"
            v.append({"clause": "resolve_sound", "class": cls, "step": i, "url": url, "want": want, "got": got_cd, "op": what})
    if got_cd.endswith(",T") and not v:
        if not spec.consume(got_cd):
            v.append({"clause": "temporary_once", "class": "temporary-not-in-history", "step": i, "url": url, "got": got_cd})
    elif got_cd.endswith(",T"):
        spec.consume(got_cd)
    return v


def spec_step(world, spec, op, out, i):
    v = []
    k = op[0]
    if out.startswith("EXC:"):
        return [{"clause": "no exception escapes the cap API", "class": "exception:" + out[4:], "step": i, "op": list(op)}]
    if k == "CS":
        _, sid, globs, addr, seed, handle = op
        if out.startswith("idx:"):
            spec.sessions.append({"globals": list(globs), "regions": [{"addr": addr, "hist": {}}]})
            if seed:
                spec.grant(len(spec.sessions) - 1, 0, "Seed", "N", seed)
    elif k == "RR":
        _, si, addr, seed, handle = op
        if out.startswith("idx:") and si < len(spec.sessions):
            ri = int(out[4:])
            regs = spec.sessions[si]["regions"]
            if ri == len(regs):
                regs.append({"addr": addr, "hist": {}})
                if seed:
                    spec.grant(si, ri, "Seed", "N", seed)
            elif ri < len(regs) and regs[ri]["addr"] == addr:
                h = spec.head(si, ri, "Seed")
                if seed and (h is None or h[1] != seed) and seed.startswith("http"):
                    spec.grant(si, ri, "Seed", "N", seed)
    elif k == "UC":
        _, si, ri, items = op
        if spec.hist(si, ri) is not None:
            for n, val in items:
                if val[0] == "s" and val[1].startswith("http"):
                    spec.grant(si, ri, n, "N", val[1])
    elif k == "RC":
        _, si, ri, name, url, ty = op
        if spec.hist(si, ri) is not None:
            spec.grant(si, ri, name, ty, url)
    elif k == "RW":
        _, si, ri, name = op
        if spec.hist(si, ri) is not None and out.startswith("url:"):
            w = bytes.fromhex(out[5:]).decode()
            spec.grant(si, ri, name + "ProxyWrapper", "W", w)
    elif k == "RP":
        _, si, ri, name = op
        if spec.hist(si, ri) is not None and out.startswith("url:"):
            u = bytes.fromhex(out[5:]).decode()
            h = spec.head(si, ri, name)
            if h is not None and h[0] == "P":
                if u != h[1]:
                    v.append({"clause": "proxy_cap_idempotent", "class": "proxy-cap-reregistered-with-new-url", "step": i,
                              "name": name, "first": h[1], "second": u})
            else:
                if u in spec.seen_urls:
                    v.append({"clause": "proxy cap URL is fresh", "class": "proxy-cap-url-reused", "step": i, "url": u})
                spec.grant(si, ri, name, "P", u)
    elif k == "RS":
        if out.startswith("cap:"):
            v += spec_resolve(spec, op[1], out[4:], i, "resolve_cap")
    elif k == "RQ":
        _, url, names = op
        if out.startswith("req:"):
            cd, needed, content = out[4:].split(":")
            v += spec_resolve(spec, url, cd, i, "_handle_request")
            f = None
            parts = cd.split(",")
            name = bytes.fromhex(parts[0][1:]).decode() if parts[0] != "-" else None
            injected = parts[4] == "P"
            if parts[1] != "-" and not injected:
                si, ri = map(int, parts[1].split("."))
                if name == "Seed" and spec.hist(si, ri) is not None:
                    hist = spec.hist(si, ri)
                    got_needed = [bytes.fromhex(x[1:]).decode() for x in needed.split(",") if x]
                    if len(set(names)) == len(names):
                        proxy_only = [n for n in names if any(t == "P" for t, _ in hist.get(n, []))]
                        upstream = names if content == "-" else [bytes.fromhex(x[1:]).decode() for x in content[1:-1].split(",") if x]
                        if sorted(got_needed) != sorted(proxy_only):
                            v.append({"clause": "seed_request: proxy-only names recorded", "class": "seed-request-needed-wrong",
                                      "step": i, "want": sorted(proxy_only), "got": got_needed})
                        if upstream != [n for n in names if n not in proxy_only]:
                            v.append({"clause": "seed_request: proxy-only names stripped, nothing else changed",
                                      "class": "seed-request-upstream-wrong", "step": i,
                                      "want": [n for n in names if n not in proxy_only], "got": upstream})
                    f = ("seed", si, ri, got_needed)
                elif name in UPLOAD_CREATING and spec.hist(si, ri) is not None:
                    f = ("upload", si, ri, name)
            spec.flows.append(f)
    elif k == "RE":
        _, fid, status, items = op
        f = spec.flows[fid] if fid < len(spec.flows) else None
        if f is not None and status == 200 and out.startswith("resp:") and f[0] == "upload":
            _, si, ri, name = f
            d = dict(items)
            if "uploader" in d and d["uploader"][0] == "s":
                spec.grant(si, ri, name + "Uploader", "T", d["uploader"][1])
        elif f is not None and status == 200 and out.startswith("resp:"):
            _, si, ri, needed = f
            keys = [n for n, _ in items]
            for n, val in items:
                if val[0] == "s" and val[1].startswith("http"):
                    spec.grant(si, ri, n, "N", val[1])
            want = dict(items)
            aborted = False
            degenerate = any(n in WRAPPABLE and not (val[0] == "s" and val[1].startswith("http")) for n, val in items)
            for n in world.worder:
                if n in keys:
                    h = spec.head(si, ri, n)
                    seed = spec.head(si, ri, "Seed")
                    if h is None or seed is None:
                        aborted = True
                        break
                    w = expected_wrapper(n, seed[1], h[1])
                    spec.grant(si, ri, n + "ProxyWrapper", "W", w)
                    want[n] = ("s", w)
            if not aborted:
                for n in needed:
                    h = spec.head(si, ri, n)
                    if h is None:
                        aborted = True
                        break
                    want[n] = ("s", h[1])
            if not aborted and not degenerate:
                got = None
                if out != "resp:-":
                    got = {}
                    for kv in out[6:-1].split(","):
                        if kv:
                            a, b = kv.split("=")
                            got[bytes.fromhex(a[1:]).decode()] = ("s", bytes.fromhex(b[1:]).decode()) if b[0] == "s" else ("o", int(b[1:]))
                if got != want:
                    v.append({"clause": "seed_response: granted caps preserved, asset caps wrapped, requested proxy caps added",
                              "class": "seed-response-wrong", "step": i, "want": sorted(want.items()),
                              "got": None if got is None else sorted(got.items())})
    return v


# --------------------------------------------------------------------------- generators

U1 = "http://a.test/cap/1"
U2 = "http://a.test/cap/12"           # extends U1 on purpose
U3 = "http://b.test/x"
U4 = "https://c.test:8443/c/zz"
SEED00 = "http://sim1.test/seed/aaaa"
SEED01 = "http://sim1.test/seed/bbbb"
SEED10 = "http://sim2.test/seed/cccc"
SEED11 = "http://sim2.test/seed/dddd"

SETUP = [
    ("CS", 1, [], 11, SEED00, 5),
    ("RR", 0, 12, SEED01, None),
    ("CS", 2, [("MapImageService", "http://map.test/m/")], 21, SEED10, 7),
    ("RR", 1, 22, SEED11, 9),
]


def sv(u):
    return ("s", u)


def alphabet(ctx):
    """ops of the exhaustive sweep (after SETUP): 2 sessions x 2 regions x 3 names x 4 URLs, prefix-related on purpose"""
    a = [
        ("UC", 0, 0, [("A", sv(U1))]),
        ("UC", 0, 0, [("A", sv(U2))]),
        ("UC", 0, 0, [("B", sv(U2))]),
        ("UC", 0, 0, [("GetTexture", sv(U3)), ("B", sv(U1))]),
        ("RC", 0, 0, "A", U3, "T"),
        ("RC", 0, 0, "B", U2, "T"),
        ("RP", 0, 0, "Prox"),
        ("RW", 0, 0, "GetTexture"),
        ("UC", 0, 0, [("Prox", sv(U4))]),
        ("UC", 0, 1, [("A", sv(U1))]),
        ("UC", 0, 1, [("B", sv(U2))]),
        ("RC", 0, 1, "A", U3, "T"),
        ("RP", 0, 1, "Prox"),
        ("UC", 1, 0, [("A", sv(U2))]),
        ("UC", 1, 0, [("GetTexture", sv(U3))]),
        ("RC", 1, 0, "B", U1, "N"),
        ("UC", 1, 1, [("A", sv(U4))]),
        ("RS", U1 + "/x"),
        ("RS", U2 + "/x"),
        ("RS", U2),
        ("RS", U3 + "?q=1"),
        ("RS", U4),
        ("RQ", SEED00, ["A", "Prox", "GetTexture"]),
        ("RE", 0, 200, [("A", sv(U1)), ("GetTexture", sv(U3))]),
        ("RE", 0, 200, [("B", sv(U2)), ("X", ("o", 7))]),
        ("RR", 0, 12, "http://sim1.test/seed/eeee", 3),
    ]
    if ctx.thorough:
        a += [
            ("RC", 0, 0, "A", U1, "T"),
            ("RW", 1, 0, "GetTexture"),
            ("RQ", SEED10, ["Prox", "A"]),
            ("RE", 0, 404, [("A", sv(U4))]),
            ("RR", 1, 23, SEED11, None),
            ("RS", "http://map.test/m/1"),
        ]
    return a


NAMES = ["A", "B", "Seed", "Prox", "Px2", "GetTexture", "GetMesh2", "ViewerAsset", "UploadBakedTexture",
         "UploadBakedTextureUploader", "Z"]
URLS = [U1, U2, U3, U4, "http://a.test/cap/123", "http://a.test/", "http://d.test/p?x=1", "https://e.test/cap/abc/def",
        SEED00, SEED01, SEED10, SEED11, "http://sim3.test/seed/ffff"]
BAD_VALUES = [("s", "ftp://x.test/y"), ("s", ""), ("o", 3), ("s", "hxxp"), ("o", 0)]
SUFFIXES = ["", "/", "/x", "?a=1", "2", "/x/y?z", "#f"]


def random_ops(rng, n, prefix_related):
    urls = URLS if prefix_related else [u for u in URLS if u not in (U2, "http://a.test/cap/123", "http://a.test/")]
    ops = []
    # start with one or two sessions
    ops.append(("CS", 1, rng.choice([[], [("MapImageService", "http://map.test/m/")]]), 11, SEED00, rng.choice([5, 0])))
    if rng.random() < 0.7:
        ops.append(("CS", 2, rng.choice([[], [("AppearanceService", "http://app.test/"), ("MapImageService", "http://map.test/m/")]]),
                    21, rng.choice([SEED10, SEED00, None, ""]), 7))
    nflows = 0
    granted = [SEED00, SEED10]
    for _ in range(n):
        si, ri = rng.randrange(2), rng.randrange(3)
        x = rng.random()
        if x < 0.08:
            ops.append(("RR", si, rng.choice([11, 12, 13, 21, 22, None]), rng.choice([SEED01, SEED11, SEED00, None, "", "http://sim3.test/seed/ffff", "notaurl"]),
                        rng.choice([None, 0, 4, 9])))
        elif x < 0.30:
            k = rng.choice([1, 1, 2, 3])
            names = rng.sample(NAMES, k)
            items = []
            for nm in names:
                if rng.random() < 0.12:
                    items.append((nm, rng.choice(BAD_VALUES)))
                else:
                    u = rng.choice(urls)
                    granted.append(u)
                    items.append((nm, sv(u)))
            ops.append(("UC", si, ri, items))
        elif x < 0.42:
            u = rng.choice(urls)
            granted.append(u)
            ops.append(("RC", si, ri, rng.choice(NAMES), u, rng.choice("NTTTWP")))
        elif x < 0.50:
            ops.append(("RW", si, ri, rng.choice(["GetTexture", "GetMesh2", "ViewerAsset", "A", "Seed", "Prox"])))
        elif x < 0.60:
            ops.append(("RP", si, ri, rng.choice(["Prox", "Px2", "A"])))
        elif x < 0.78:
            ops.append(("RS", rng.choice(granted + urls[:4]) + rng.choice(SUFFIXES)))
        elif x < 0.88:
            k = rng.randrange(0, 5)
            names = rng.sample(NAMES, k)
            url = rng.choice([SEED00, SEED10, SEED01, SEED11, rng.choice(granted)])
            if urllib.parse.urlsplit(url).netloc and "#" not in url:
                ops.append(("RQ", url, names))
                nflows += 1
        elif nflows:
            k = rng.randrange(0, 4)
            names = rng.sample(NAMES, k)
            items = [(nm, sv(rng.choice(urls)) if rng.random() < 0.9 else rng.choice(BAD_VALUES)) for nm in names]
            if rng.random() < 0.2:
                items.append(("uploader", sv(rng.choice(urls))))
            ops.append(("RE", rng.randrange(nflows), rng.choice([200, 200, 200, 404, 500]), items))
    return ops




def samename_ops(rng):
    """Random histories that pile 3..6 grants (NORMAL via update_caps / Seed responses, TEMPORARY via register_cap or an
    upload-creating response) under ONE name of ONE region before one-shot URLs are consumed, then interleave consumptions
    (newest first / oldest first / random order), further grants, repeated resolutions of consumed URLs and resolutions of
    NORMAL URLs.  All URLs are fixed-width and pairwise prefix-free.  By-name lookups are read after every op by the checker."""
    ops = [("CS", 1, [], 11, SEED00, 5)]
    regions = [(0, 0)]
    if rng.random() < 0.5:
        ops.append(("CS", 2, [], 21, SEED10, 7))
        regions.append((1, 0))
    if rng.random() < 0.4:
        ops.append(("RR", 0, 12, SEED01, None))
        regions.append((0, 1))
    counter = [0]

    def fresh(si, kind):
        counter[0] += 1
        return "http://sim%d.test/cap/%s%03d" % (si + 1, kind, counter[0])

    nflows = 0
    scripts = []
    targets = rng.sample([(r, n) for r in regions for n in ("UploadThing", "NewFileAgentInventoryUploader", "UploadBakedTextureUploader", "A")],
                         rng.choice([1, 1, 2, 3]))
    for (si, ri), name in targets:
        base = name[:-len("Uploader")] if name.endswith("Uploader") and name[:-len("Uploader")] in UPLOAD_CREATING else None
        flow = None
        if base is not None and rng.random() < 0.8:
            bu = fresh(si, "b")
            ops.append(("UC", si, ri, [(base, sv(bu))]))
            ops.append(("RQ", bu + rng.choice(["", "/", "?a=1"]), []))
            flow = nflows
            nflows += 1
        live_t, live_n, dead_t = [], [], []
        script = []

        def grant(temp_bias):
            if rng.random() < temp_bias:
                u = fresh(si, "t")
                if flow is not None and rng.random() < 0.7:
                    script.append(("RE", flow, 200, [("state", sv("upload")), ("uploader", sv(u))]))
                else:
                    script.append(("RC", si, ri, name, u, "T"))
                live_t.append(u)
            else:
                u = fresh(si, "n") if (not live_n or rng.random() < 0.85) else rng.choice(live_n)   # sometimes the same URL again
                if rng.random() < 0.75:
                    items = [(name, sv(u))]
                    if rng.random() < 0.2:
                        items.insert(rng.randrange(2), ("Z", sv(fresh(si, "z"))))
                    script.append(("UC", si, ri, items))
                else:
                    script.append(("RC", si, ri, name, u, "N"))
                live_n.append(u)

        tb = rng.choice([0.3, 0.5, 0.8, 1.0])
        for _ in range(rng.randint(3, 6)):
            grant(tb)
        if not live_t:
            grant(1.0)
        order = rng.choice(["newest", "oldest", "random", "random"])
        for _ in range(rng.randint(2, 8)):
            x = rng.random()
            if x < 0.5 and live_t:
                i = {"newest": len(live_t) - 1, "oldest": 0}.get(order, rng.randrange(len(live_t)))
                u = live_t.pop(i)
                dead_t.append(u)
                if rng.random() < 0.7:
                    script.append(("RS", u + rng.choice(["", "/", "/x", "?a=1"])))
                else:       # the viewer hits the one-shot URL: consumption inside _handle_request
                    script.append(("RQ", u + rng.choice(["", "/", "?a=1"]), []))
            elif x < 0.72:
                grant(tb)
            elif x < 0.84 and live_n:
                script.append(("RS", rng.choice(live_n) + rng.choice(["", "/x", "?a=1"])))
            elif x < 0.94 and dead_t:
                script.append(("RS", rng.choice(dead_t) + rng.choice(["", "/x"])))
            else:
                script.append(("RP", si, ri, rng.choice(["Prox", name])))
        scripts.append(script)
    # order-preserving random interleaving of the per-name scripts
    while scripts:
        sc = rng.choice(scripts)
        ops.append(sc.pop(0))
        if not sc:
            scripts.remove(sc)
    return ops


def every_step_line(ops, worder, uuid_base=0):
    return ("U%d " % uuid_base if uuid_base else "") + "E " + case_line(ops, worder)


def run_sequences(ctx, res, seqs, known_classes=()):
    """run op sequences on fresh worlds; compare result + complete state with the model after EVERY op; judge with the oracle"""
    lines, expect, meta = [], [], []
    cls, nt = {}, 0
    stats = {"consumptions": 0, "consumptions_with_2plus_survivors": 0, "max_entries_of_a_name": {}}   # per sequence: peak number of live grants under one name
    for ops, base in seqs:
        w = World(uuid_base=base)
        spec = Spec()
        recs = []
        peak = 0
        for i, op in enumerate(ops):
            o = w.apply(op)
            recs.append(o + " || " + w.dump())
            viols = spec_step(w, spec, op, o, i) + spec_by_name(w, spec, i)
            for s_ in spec.sessions:
                for r_ in s_["regions"]:
                    for l_ in r_["hist"].values():
                        if len(l_) > peak:
                            peak = len(l_)
            if op[0] in ("RS", "RQ") and (o.endswith(",T") or ",T:" in o):
                stats["consumptions"] += 1
                cd = (o[4:] if op[0] == "RS" else o[4:].split(":")[0]).split(",")
                if cd[0] != "-" and cd[1] != "-":
                    si, ri = map(int, cd[1].split("."))
                    h = spec.hist(si, ri)
                    if h is not None and len(h.get(bytes.fromhex(cd[0][1:]).decode(), [])) >= 2:
                        stats["consumptions_with_2plus_survivors"] += 1
            fresh = []
            for v in viols:
                key = (v.get("class"), v.get("clause"))
                cls[key] = cls.get(key, 0) + 1
                if cls[key] == 1 and key not in known_classes:
                    fresh.append(v)
            for v in fresh:
                res.impl_violations.append(shrunk_case(ops, v))
            if viols:
                # the history and the implementation have diverged; stop judging this sequence
                ops = ops[:i + 1]
                break
        stats["max_entries_of_a_name"][peak] = stats["max_entries_of_a_name"].get(peak, 0) + 1
        lines.append(every_step_line(ops, w.worder, base))
        expect.append("\t".join(recs))
        meta.append(ops)
        if any(x[0] in ("RS", "RQ", "RE") for x in ops):
            nt += 1
    model = ctx.run_driver(lines)
    for ops, m, e in zip(meta, model, expect):
        if m.strip() != e.strip():
            er, mr = e.split("\t"), m.split("\t")
            i = 0
            while i < min(len(er), len(mr)) and er[i] == mr[i]:
                i += 1
            res.disagreements.append({"ops": [list(o) for o in ops[:i + 1]], "first_different_step": i,
                                      "impl": er[i][:1500] if i < len(er) else None, "model": mr[i][:1500] if i < len(mr) else None})
            if len(res.disagreements) > 20:
                break
    res.evaluations = sum(len(o) for o in meta)
    res.distinct_nontrivial = nt
    stats["max_entries_of_a_name"] = {str(a): b for a, b in sorted(stats["max_entries_of_a_name"].items())}
    res.distribution = dict(stats, sequences=len(meta), violation_classes={str(a): b for a, b in cls.items()})
    res.samples = [{"ops": [list(o) for o in meta[i]][:10], "result": expect[i][:300]} for i in (0, 1) if i < len(meta)]
    return cls


# --------------------------------------------------------------------------- one region, one name: consumption order

FAM_NAME = "UploadThing"
FAM_N = ["http://sim1.test/cap/grant-%d" % i for i in (1, 2, 3)]
FAM_T = ["http://sim1.test/cap/shot-%d" % i for i in (1, 2)]
FAM_SETUP = [("CS", 1, [], 11, SEED00, 5)]
# mutating / resolving ops of the family; "lookup by name" is not a letter of its own: caps[name], cap_urls[name] and the
# getall order are read after EVERY step (and the state is compared after the reads), which covers every sequence
# that has lookups inserted anywhere
FAM_ALPHA = ([("UC", 0, 0, [(FAM_NAME, sv(u))]) for u in FAM_N] +
             [("RC", 0, 0, FAM_NAME, u, "T") for u in FAM_T] +
             [("RS", FAM_T[0] + "?x=1"), ("RS", FAM_T[1] + "/y"), ("RS", FAM_N[0] + "/x")])
# the same letters as seen by the history-level statement: grant (ty, url) / resolve (ty, url)
FAM_SEM = ([("G", "N", u) for u in FAM_N] + [("G", "T", u) for u in FAM_T] +
           [("R", "T", FAM_T[0]), ("R", "T", FAM_T[1]), ("R", "N", FAM_N[0])])


def tree_size(k, d):
    return sum(k ** j for j in range(1, d + 1))


def tree_path(j, k, d):
    """op indices of the j-th node (pre-order) of the complete k-ary tree of depth d"""
    path = []
    while True:
        sub = 1 + tree_size(k, d - 1)
        path.append(j // sub)
        j %= sub
        if j == 0:
            return path
        j -= 1
        d -= 1


def by_name_obs(reg, name):
    """every by-name view of one name: caps[name], cap_urls[name], cap_urls.get, getall of both, items() order"""
    try:
        c = reg.caps[name]
    except KeyError:
        c = None
    cu = reg.cap_urls
    try:
        u = cu[name]
    except KeyError:
        u = None
    ga = reg.caps.getall(name, [])
    gu = cu.getall(name, [])
    items = [v for n, v in reg.caps.items() if n == name]
    ok = (items == ga and gu == [x[1] for x in ga] and c == (ga[0] if ga else None)
          and u == (ga[0][1] if ga else None) and cu.get(name) == u)
    return u, ga, ok


def family_suite(ctx):
    depth = ctx.pick(6, 7)
    k = len(FAM_ALPHA)
    res = CorrResult(suite="caps: one region, one name - consumption order (impl vs extracted model)",
                     rule="one session, one region, one cap name: EVERY sequence of 1..%d ops over %d letters {grant NORMAL url_1..3 "
                          "(update_caps), register TEMPORARY shot_1/shot_2, resolve shot_1, resolve shot_2, resolve a NORMAL url "
                          "(SessionManager.resolve_cap)}; after EVERY step the op's result, the complete caps.items() order, "
                          "_caps_url_lookup and the by-name views (caps[name], cap_urls[name], cap_urls.get, caps.getall / "
                          "cap_urls.getall order) are compared with the extracted model (step / cap_url / md_getall applied down the "
                          "same tree by the driver) and the history-level statement is evaluated (by-name = most recent unconsumed "
                          "grant, also for the one-shot grants ahead of the most recent permanent one; one-shot resolves once); lookups are read at every "
                          "node, so sequences with 'lookup by name' inserted anywhere are subsumed; non-trivial = a one-shot cap was "
                          "consumed on the path while >= 2 other grants of the name survived" % (depth, k))
    logging.disable(logging.CRITICAL)
    world = World()
    outs0 = [world.apply(op) for op in FAM_SETUP]
    reg = world.region(0, 0)
    import multidict
    md_extend = multidict.MultiDict.extend
    toks = [" ".join(op_tokens(op, world.worder)) for op in FAM_ALPHA]
    pre_tok = " | ".join(" ".join(op_tokens(op, world.worder)) for op in FAM_SETUP)
    alpha_tok = " | ".join(toks)
    empty = "cap:-,-,-,-,N"
    stats = {"nodes": 0, "nontrivial": 0, "consumptions_with_2plus_survivors": 0, "entries_hist": {}}
    seen_classes = {}
    recs = []

    def violation(path, v):
        key = (v["class"], v["clause"])
        seen_classes[key] = seen_classes.get(key, 0) + 1
        if seen_classes[key] == 1:
            ops = FAM_SETUP + [FAM_ALPHA[i] for i in path]
            v = dict(v, step=len(ops) - 1)
            # confirm with the general oracle and shrink; fall back to the family's own verdict
            res.impl_violations.append(shrunk_case(ops, v))

    def walk(path, exp, d, nt, judged, letters):
        for idx in letters:
            op, sem = FAM_ALPHA[idx], FAM_SEM[idx]
            items, lk = list(reg.caps.items()), dict(reg._caps_url_lookup)
            try:
                o = world._apply(op)
            except Exception as e:
                o = "EXC:" + type(e).__name__
            u, ga, ok = by_name_obs(reg, FAM_NAME)
            rec = "%s || %s || BN %s G %s%s" % (o, world.dump(), opt(u, hx),
                                               " ".join([TYL[t] + ":" + hx(x) for t, x in ga]),
                                               "" if ok else " VIEWS-INCONSISTENT")
            recs.append(rec)
            stats["nodes"] += 1
            p2, e2, nt2, j2 = path + (idx,), exp, nt, judged
            if judged:
                vs = []
                ent = (sem[1], sem[2])
                if sem[0] == "G":
                    e2 = (ent,) + exp
                    want_o = "none"
                else:
                    if ent in exp:
                        want_o = "cap:%s,0.0,0,%s,%s" % (hx(FAM_NAME), hx(sem[2]), sem[1])
                        if sem[1] == "T":
                            i0 = exp.index(ent)
                            e2 = exp[:i0] + exp[i0 + 1:]
                            if len(e2) >= 2:
                                nt2 = True
                                stats["consumptions_with_2plus_survivors"] += 1
                    else:
                        want_o = empty
                if o.startswith("EXC:"):
                    vs.append({"clause": "no exception escapes the cap API", "class": "exception:" + o[4:]})
                elif o != want_o:
                    if want_o == empty or o == empty:
                        vs.append({"clause": "temporary_once / resolve only granted URLs",
                                   "class": "resolved-without-live-grant" if want_o == empty else "wrong-attribution",
                                   "want": want_o, "got": o})
                    else:
                        vs.append({"clause": "resolve_sound", "class": "wrong-attribution", "want": want_o, "got": o})
                want_u = e2[0][1] if e2 else None
                got_all = [(TYL[t], x) for t, x in ga]
                if u != want_u:
                    vs.append({"clause": "latest_by_name", "class": "by-name-lookup-not-most-recent-grant",
                               "name": FAM_NAME, "want": want_u, "got": u})
                elif observable(got_all) != observable(e2) or not ok:
                    vs.append({"clause": "latest_by_name after consumptions (one-shot grants ahead of the most recent permanent grant, most recent first)",
                               "class": "by-name-order-not-most-recent-first", "name": FAM_NAME,
                               "want": observable(e2), "got": observable(got_all), "views_consistent": ok})
                for v in vs:
                    violation(p2, v)
                if vs:
                    j2 = False      # history and implementation have diverged: keep walking (the model is still compared)
            if nt2:
                stats["nontrivial"] += 1
            n_ent = len(ga)
            stats["entries_hist"][n_ent] = stats["entries_hist"].get(n_ent, 0) + 1
            if d > 1:
                walk(p2, e2, d - 1, nt2, j2, all_letters)
            reg.caps.clear()
            md_extend(reg.caps, items)
            reg._caps_url_lookup.clear()
            reg._caps_url_lookup.update(lk)

    def compare(first, recs, model_recs):
        if len(model_recs) != len(recs):
            res.disagreements.append({"ops": [list(o) for o in FAM_SETUP + [FAM_ALPHA[first]]], "impl_records": len(recs),
                                      "model_records": len(model_recs), "model": "\t".join(model_recs)[:300]})
            return
        for j, (e, m) in enumerate(zip(recs, model_recs)):
            if e != m:
                if len(res.disagreements) > 20:
                    break
                path = [first] + (tree_path(j - 1, k, depth - 1) if j else [])
                res.disagreements.append({"ops": [list(o) for o in FAM_SETUP + [FAM_ALPHA[i] for i in path]],
                                          "impl": e[:1500], "model": m[:1500]})

    def model_chunk(first):
        line1 = "T 1 0 0 %s || %s || %s" % (hx(FAM_NAME), pre_tok, toks[first])
        lineN = "T %d 0 0 %s || %s | %s || %s" % (depth - 1, hx(FAM_NAME), pre_tok, toks[first], alpha_tok)
        m1, mN = ctx.run_driver([line1, lineN])
        return m1.split("\t") + mN.split("\t")

    all_letters = range(k)
    samples = []
    import concurrent.futures
    try:
        # one chunk per first letter: the node itself, then its subtree (pre-order); the model walks the same chunk in a
        # driver process while the implementation is being walked here
        with concurrent.futures.ThreadPoolExecutor(max_workers=2) as pool:
            pending = {first: pool.submit(model_chunk, first) for first in range(min(2, k))}
            for first in all_letters:
                if first + 2 < k:
                    pending[first + 2] = pool.submit(model_chunk, first + 2)     # at most three chunks of the model in memory
                del recs[:]
                walk((), (), depth, False, True, [first])
                compare(first, recs, pending.pop(first).result())
                j = len(recs) // 3
                samples.append({"ops": [list(FAM_ALPHA[i]) for i in [first] + (tree_path(j - 1, k, depth - 1) if j else [])],
                                "result": recs[j][:400]})
    finally:
        logging.disable(logging.NOTSET)
    if outs0 != ["idx:0"]:
        res.disagreements.append({"ops": [list(o) for o in FAM_SETUP], "impl": outs0, "model": ["idx:0"]})
    res.evaluations = stats["nodes"]
    res.distinct_nontrivial = stats["nontrivial"]
    res.exhaustive = True
    res.distribution = {"depth": depth, "alphabet": k, "sequences": tree_size(k, depth),
                        "consumptions_with_2plus_survivors": stats["consumptions_with_2plus_survivors"],
                        "nodes_by_number_of_entries_of_the_name": {str(a): b for a, b in sorted(stats["entries_hist"].items())},
                        "violation_classes": {str(a): b for a, b in seen_classes.items()}}
    res.samples = samples[:4]
    return res


# --------------------------------------------------------------------------- correspondence

def load_corpus():
    d = os.path.join(os.path.dirname(os.path.dirname(os.path.dirname(os.path.abspath(__file__)))), "corpus", "C16")
    out = []
    if os.path.isdir(d):
        for f in sorted(os.listdir(d)):
            if f.endswith(".json"):
                c = json.load(open(os.path.join(d, f)))
                out.append((f, [norm_op(o) for o in c["ops"]]))
    return out


def diff_case(ops, e, m):
    i = 0
    while i < min(len(e), len(m)) and e[i] == m[i]:
        i += 1
    lo = max(0, i - 120)
    return {"ops": [list(o) for o in ops], "first_difference_at": i, "impl": e[lo:i + 300], "model": m[lo:i + 300]}


def viol_case(ops, v):
    c = dict(v)
    c["ops"] = [list(o) for o in ops[:v.get("step", len(ops) - 1) + 1]]
    return c


def correspond(ctx):
    logging.disable(logging.CRITICAL)
    try:
        return _correspond(ctx)
    finally:
        logging.disable(logging.NOTSET)


def _correspond(ctx):
    import time
    results = []
    t_start = time.time()
    marks = []
    # ---- suite 1: corpus + exhaustive prefix-sharing sweep
    depth = ctx.pick(3, 4)
    alpha = alphabet(ctx)
    if ctx.thorough:
        alpha = alpha[:26]      # depth 4 over the base alphabet; the extended ops are exercised by the random suite
    res = CorrResult(suite="caps: exhaustive op sequences (impl vs extracted model)",
                     rule="corpus/C16 first; then after a fixed setup (2 sessions x 2 regions) every sequence of up to %d ops over an "
                          "alphabet of %d ops (grants of 3 names x 4 URLs with U2 extending U1, temporary/proxy/wrapper registrations, "
                          "lookups, a Seed request and two Seed responses, a region re-registration) - one model line per sequence prefix; "
                          "compared: every op's result and the full caps/_caps_url_lookup state of every region; the history-level "
                          "statement of C16 is evaluated on the implementation at every step; non-trivial = sequence containing a lookup "
                          "or a seed flow" % (depth, len(alpha)))
    lines, expect, meta = [], [], []
    world = World()
    worder = world.worder
    nontriv = 0
    seen_classes = {}

    def record(ops, outs, dump):
        lines.append(case_line(ops, worder))
        expect.append(" | ".join(outs) + " || " + dump)
        meta.append(ops)

    for name, ops in load_corpus():
        w = World()
        outs, viols = check_ops(w, ops, stop_at_first=False)
        record(list(ops), outs, w.dump())
        for v in viols:
            key = (v.get("class"), v.get("clause"))
            if key not in seen_classes:
                seen_classes[key] = 1
                res.impl_violations.append(shrunk_case(ops, v))
    # setup
    spec = Spec()
    outs0 = []
    for i, op in enumerate(SETUP):
        o = world.apply(op)
        outs0.append(o)
        spec_step(world, spec, op, o, i)
    def dfs(path, outs, spec, d):
        nonlocal nontriv
        for op in alpha:
            snap = world.snapshot()
            sp = spec.clone()
            o = world.apply(op)
            i = len(SETUP) + len(path)
            viols = spec_step(world, sp, op, o, i) + spec_by_name(world, sp, i)
            p2, o2 = path + [op], outs + [o]
            record(SETUP + p2, outs0 + o2, world.dump())
            if any(x[0] in ("RS", "RQ", "RE") for x in p2):
                nontriv += 1
            for v in viols:
                key = (v.get("class"), v.get("clause"))
                seen_classes[key] = seen_classes.get(key, 0) + 1
                if seen_classes[key] == 1:
                    res.impl_violations.append(shrunk_case(SETUP + p2, v))
            if d > 1 and all(x.get("class") == PREFIX_CLASS for x in viols):
                dfs(p2, o2, sp, d - 1)
            world.restore(snap)

    dfs([], [], spec, depth)
    model = ctx.run_driver(lines)
    for ops, m, e in zip(meta, model, expect):
        if m.strip() != e.strip():
            res.disagreements.append(diff_case(ops, e, m))
            if len(res.disagreements) > 20:
                break
    res.impl_violations.sort(key=lambda v: v.get("class") == PREFIX_CLASS)   # a recorded finding never hides a fresh one
    res.evaluations = len(lines)
    res.distinct_nontrivial = nontriv
    res.exhaustive = True
    res.distribution = {"depth": depth, "alphabet": len(alpha), "violation_classes": {str(k): n for k, n in seen_classes.items()}}
    res.samples = [{"ops": [list(o) for o in meta[i][len(SETUP):]], "result": expect[i][:300]} for i in (5, len(meta) // 2, len(meta) - 1) if i < len(meta)]
    results.append(res)
    marks.append(("sweep", time.time() - t_start))

    # ---- suite 2: random long sequences from fresh objects
    res2 = CorrResult(suite="caps: random op sequences from fresh sessions (impl vs extracted model)",
                      rule="seeded random sequences of 5..30 ops over 11 names (asset, proxy-only, upload-creating, *ProxyWrapper), "
                           "13 URLs (half of the runs without prefix-related URLs), malformed seed values, region (re-)registration with "
                           "clashing addresses/seeds, seed flows on any granted URL, non-200 responses, upload responses; every prefix of "
                           "every sequence is compared (results + full state) and checked against the statement; non-trivial = contains "
                           "a lookup or flow after at least one grant")
    nseq = ctx.pick(250, 4000)
    seqs = [(random_ops(ctx.rng, ctx.rng.randrange(5, 31), prefix_related=(j % 2 == 0)), ctx.rng.choice([0, 0, 4096]))
            for j in range(nseq)]
    cls2 = run_sequences(ctx, res2, seqs, known_classes=seen_classes)
    results.append(res2)
    marks.append(("random", time.time() - t_start))

    # ---- suite 3: random histories with many grants under one name before one-shot consumptions
    res3 = CorrResult(suite="caps: random same-name histories with one-shot consumptions (impl vs extracted model)",
                      rule="seeded random histories: 1..3 (region, name) targets over up to 3 regions in 2 sessions; per target 3..6 grants "
                           "under the SAME name (NORMAL via update_caps/register_cap incl. repeated URLs, TEMPORARY via register_cap or "
                           "upload-creating responses through _handle_response) before the first consumption, then 2..8 of: consume a "
                           "live one-shot URL (newest/oldest/random first; SessionManager.resolve_cap or _handle_request), further grants, "
                           "resolve a NORMAL URL, resolve an already consumed URL, register_proxy_cap; scripts of different targets are "
                           "interleaved; after EVERY op the result and the complete state (caps.items() order, _caps_url_lookup of every "
                           "region) are compared with the model and the statement is evaluated (by-name head of every name = most recent unconsumed "
                           "grant, incl. the one-shot grants ahead of the most recent permanent one); non-trivial = contains a lookup or flow")
    nseq3 = ctx.pick(400, 6000)
    seqs3 = [(samename_ops(ctx.rng), ctx.rng.choice([0, 0, 4096])) for _ in range(nseq3)]
    known = dict(seen_classes)
    known.update(cls2)
    run_sequences(ctx, res3, seqs3, known_classes=known)
    results.append(res3)
    marks.append(("same-name", time.time() - t_start))

    # ---- suite 3b: seed flows with every arrangement of proxy-only names in the viewer's request
    res3b = CorrResult(suite="caps: seed request/response rewriting, every arrangement of the requested names (impl vs extracted model)",
                       rule="one session/region; every subset of {Prox, Px2, Px3} registered as proxy-only caps (8) x every duplicate-free "
                            "list of length <= 4 over {A, Prox, Px2, Px3, GetTexture} plus lists with a repeated name (proxy-only names "
                            "adjacent, at the ends, separated, repeated) as the viewer's Seed request, followed by the simulator's response: "
                            "request sent upstream, rewritten response and complete state compared with the model after every op and "
                            "judged by the statement (proxy-only names stripped upstream, presented in the response, granted caps preserved)")
    pool = ["A", "Prox", "Px2", "Px3", "GetTexture"]
    reqs = [list(t) for k in range(0, 5) for t in itertools.permutations(pool, k)]
    reqs += [["Prox", "Prox"], ["Prox", "Px2", "Prox"], ["Px2", "Px2", "Px3", "A"], ["A", "Prox", "Prox", "Px2"]]
    if not ctx.thorough:
        reqs = [r for j, r in enumerate(reqs) if len(r) <= 3 or j % 3 == ctx.seed % 3]
    seqs3b = []
    for mask in range(8):
        regs = [n for b, n in enumerate(["Prox", "Px2", "Px3"]) if mask >> b & 1]
        for rq in reqs:
            ops = [("CS", 1, [], 11, SEED00, 5)] + [("RP", 0, 0, n) for n in regs] + [
                ("RQ", SEED00, rq), ("RE", 0, 200, [("A", sv(U1)), ("GetTexture", sv(U3))])]
            seqs3b.append((ops, 0))
    known.update({})
    run_sequences(ctx, res3b, seqs3b, known_classes=known)
    results.append(res3b)
    marks.append(("seed-arrangements", time.time() - t_start))

    # ---- suite 4: exhaustive one-region/one-name family
    results.append(family_suite(ctx))
    marks.append(("family", time.time() - t_start))
    ctx.notes.append("correspondence wall time (cumulative s): " + ", ".join("%s %.1f" % m for m in marks))
    return results


# --------------------------------------------------------------------------- search / replay

def first_violation(ops):
    prev = logging.root.manager.disable
    logging.disable(logging.CRITICAL)
    try:
        w = World()
        outs, viols = check_ops(w, ops)
    finally:
        logging.disable(prev)
    return viols[0] if viols else None


def shrunk_case(ops, v):
    """the case recorded for a fresh violation: confirmed from fresh objects by the general oracle and shrunk when the
    same class reproduces, the raw observation otherwise (the recorded prefix finding is kept as observed)"""
    ops = list(ops[:v.get("step", len(ops) - 1) + 1])
    if v.get("class") != PREFIX_CLASS:
        try:
            g = first_violation(ops)
            if g and g.get("class") == v.get("class"):
                return shrink(ops, g)
        except Exception:
            pass
    return viol_case(ops, v)


def shrink(ops, v):
    ops = list(ops[:v.get("step", len(ops) - 1) + 1])
    cls = v.get("class")
    changed = True
    while changed:
        changed = False
        for i in range(len(ops) - 1):
            t = ops[:i] + ops[i + 1:]
            try:
                w = first_violation(t)
            except Exception:
                w = None
            if w and w.get("class") == cls:
                ops, v, changed = t[:w.get("step", len(t) - 1) + 1], w, True
                break
    return viol_case(ops, v)


def search(ctx, hints):
    cands = []
    for h in hints:
        d = h.get("disagreement") or h.get("impl_violation")
        if d and "ops" in d:
            cands.append([norm_op(o) for o in d["ops"]])
    for ops in cands:
        v = first_violation(ops)
        if v:
            return shrink(ops, v)
    for _, ops in load_corpus():
        v = first_violation(ops)
        if v:
            return shrink(ops, v)
    # the one-region/one-name family, shortest sequences first (depth 4: 4680 sequences, judged by the general oracle)
    k = len(FAM_ALPHA)
    for d in range(1, ctx.pick(4, 5) + 1):
        for j in range(k ** d):
            ops = FAM_SETUP + [FAM_ALPHA[(j // k ** i) % k] for i in range(d)]
            v = first_violation(ops)
            if v:
                return shrink(ops, v)
    for j in range(ctx.pick(300, 3000)):
        ops = samename_ops(ctx.rng) if j % 2 else random_ops(ctx.rng, ctx.rng.randrange(5, 31), prefix_related=(j % 4 == 0))
        v = first_violation(ops)
        if v:
            return shrink(ops, v)
    return None


def replay(ctx, case):
    ops = [norm_op(o) for o in case["ops"]]
    logging.disable(logging.CRITICAL)
    try:
        w = World()
        outs, viols = check_ops(w, ops, stop_at_first=False)
    finally:
        logging.disable(logging.NOTSET)
    want = case.get("class")
    for v in viols:
        if want is None or v.get("class") == want:
            return True, v
    return False, "holds (%d ops)" % len(ops)
