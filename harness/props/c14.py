"""C14 - tracked world stays self-consistent under any object update / kill history.
Model: coq/theories/Obj/SceneGraph.v (extracted, run by coq/ocaml/c14_driver.ml); reference semantics of the "exactly the
objects announced and not since killed / unloaded" clause: coq/theories/Obj/SceneGraphRef.v (ref_step, extracted too; driver
lines prefixed "REF "), transcribed literally by class Spec below.

Universe: regions 1,2 are registered (real handles 123,124), region 3 is a handle nobody registered (999);
local ids 1..4 (0 = no parent); full ids 1..5 (UUID(int=f)); small values v for the non-structural fields.

Event syntax (one token group, events of a history separated by ';'):
  F r l f p a v   ObjectUpdate            (region, local id, full id, parent id, avatar?, value)
  C r l f p a v   ObjectUpdateCompressed
  D r l f p a v w ObjectUpdate whose two ObjectData blocks describe the same object (values v, then w)
  T r l v         ImprovedTerseObjectUpdate (value = Position.X)
  H r l c v       ObjectUpdateCached      (crc, update flags)
  P f v           ObjectProperties        (value = Name)
  K r l           KillObject arriving on region r's circuit
  X r             region.objects.clear()  (region teardown / mark_dead)
  R r             session.objects.track_region_objects(handle r)
  Q r l           region.objects.request_objects(l)
  S r l           region.objects.request_object_properties(l)
  M r             region.objects.request_missing_objects()
"""
import asyncio
import itertools
import json
import logging
import os

from harness.common.framework import CorrResult

PROP_ID = "C14"
COQ_PROPS = "theories/Props/C14.v"
EXTRACT = ("theories/Extract/ExC14.v", "c14_driver.ml")
TRUSTED = [
    "modelled by hand (coq/theories/Obj/SceneGraph.v): ClientWorldObjectManager._handle_object_update/_compressed/_cached/"
    "_terse_object_update/_handle_object_properties_generic/_handle_kill_object, _update_existing_object, _track_new_object, "
    "_kill_object_by_local_id, untrack_region_objects, track_region_objects, ClientObjectManager.clear/request_objects/"
    "request_object_properties/request_missing_objects and all of RegionObjectsState; Python object identity is modelled by "
    "the (immutable) FullID, dicts as association lists, weakref proxies as the parent's FullID, asyncio futures as a log of "
    "(region, local id, kind, state) entries whose done-callbacks have run (the harness flushes the loop between messages, "
    "as the datagram loop does); a message is one ObjectData block (a multi-block message is the sequence of its blocks); "
    "the kill cascade recurses with fuel = number of tracked objects + 1",
    "not modelled: Object fields other than LocalID/FullID/ParentID/RegionHandle/PCode==AVATAR/CRC/UpdateFlags/Position.X/"
    "Name/Velocity-is-set, the Avatar/coarse-location bookkeeping, the viewer object cache hit path (_lookup_cache_entry "
    "returns None; ProxySettings.ALLOW_AUTO_REQUEST_OBJECTS is switched off so no timers are started), session teardown "
    "(ClientWorldObjectManager.clear), region handle changes of a registered region, materials, ObjectPropertiesFamily; the "
    "generated messages give OwnerID (the one unmodelled field carried both by compressed updates and by ObjectProperties) the "
    "same zero value in every message kind, so that 'a reply that changes nothing' means the same in model and code",
    "PROVED in Coq for all histories (Qed, closed; Props/C14.v, Obj/SceneGraphProofs.v, SceneGraphTree.v, SceneGraphKill.v, "
    "SceneGraphFut.v, SceneGraphNoErr.v, SceneGraphRef.v, SceneGraphRefProofs.v): (1) the index clause of the statement (Idx: lookup "
    "by local id and by full id agree and hold the same objects), (2) the children clause (c in children(p) <-> c tracked, parent_id "
    "c = lid p, same region, p tracked; duplicate-free), the orphan clause (c in orphans[p] <-> c tracked, parent_id c = p <> 0, p "
    "untracked; duplicate-free) and the Parent back-link (obj.Parent is the tracked object with local id obj.ParentID in obj's "
    "region, None otherwise; it names exactly the object whose children list holds obj) as step-preserved invariants for EVERY "
    "event kind: ObjectUpdate/ObjectUpdateCompressed (new object with orphan adoption, re-parenting, local-id change, region move), "
    "terse, cached, properties, KillObject with its full cascade (descendants die, avatars survive as orphans, unknown id with "
    "orphans), region teardown, track region, the three request kinds; hence after every history; (3) pending requests: "
    "unconditionally no request is dropped, re-keyed or reopened and a done request is never touched again; KillObject only cancels "
    "and leaves no pending request for the killed id nor for any object removed by the cascade; ObjectUpdate(Compressed) resolves "
    "every pending UPDATE request of its (region, local id) with that object and cancels those under the id the object moved away "
    "from; property / terse updates that change something resolve; teardown cancels; history-level forms; (4) no handler raises: "
    "under Idx, Tree, the input assumptions and acyclic parent links (a ranking of (region, local id) keys with every object "
    "strictly below its ParentID key) every step returns Some - no assert of _parent_object/track_object/untrack_object fires, no "
    "KeyError/AttributeError-on-None, and the kill fuel (tracked objects + 1) suffices; hence such a history runs to its end with "
    "Idx and Tree; (5) THE EXACT REFERENCE SET (C14_reference_exact, _exact_set, _local_lookup, _exact_nokill, C14_step_reference, "
    "C14_kill_reference, C14_kill_closed, C14_doomed_exact): ref_set h (Obj/SceneGraphRef.v) is a flat recursive function over the "
    "history that mentions no local-id index, child list or orphan list - live full ids with (region, local id, parent id, avatar?) "
    "and the tracked regions; an update into a tracked region announces, a later update moves / re-parents, KillObject (r, l) of a "
    "tracked region removes every live object of r whose walk up the parent ids reaches l through non-avatar objects (the object at "
    "l dies even if it is an avatar, avatars sitting on a dying object are spared with everything on them, parent id 0 = none; fuel "
    "= live objects + 1), teardown unloads the region - and after every history inside input_full_ok the model's full-id lookup "
    "equals ref_set h as a finite map, its local-id lookup is the reference's at(), i.e. both lookups contain EXACTLY the reference "
    "tuples; for kill-free histories input_idx_ok alone suffices; the step form holds from any related pair of states (KillObject "
    "needs Idx, Tree and acyclic parent links in the state it arrives in, every other kind only Idx).  Proof: every handler keeps "
    "(lid, full id, region, parent id, avatar?) of all other objects; the kill cascade removes a set that is sound and complete "
    "w.r.t. the parent links (through the recursion, with the generalised invariant TreeG and a set of detached objects), and under "
    "a ranking of the parent links any such set is the one the walk-up test decides.  "
    "Hypotheses (input_tree_ok): updates name a tracked region; no local id given to two live objects; an object is not "
    "(re)indexed under a local id equal to the parent id it carries at that moment (1-cycle; for a local-id change inside a region "
    "this is the OLD parent id - an extra hypothesis beyond the statement, a proof gap that the correspondence exercises: the code "
    "passes through a state where the object is its own child); for (4) and (5) also: KillObject/teardown/track/request name a "
    "registered region (the message comes from a known circuit) and parent links are acyclic in every state an event arrives in",
    "TIE of the reference: harness Spec (this file) is the literal Python transcription of ref_at / doomed / ref_kill / ref_step; the "
    "'reference' correspondence suite compares, after every step of every generated history, the extracted ref_step, Spec and the "
    "real _fullid_lookup / _region_managers as strings (three-way), so the reference that generates and judges the histories is "
    "itself tied to the Coq definition and to the code; Spec.input_ok (the generator-side check of the statement's assumption: lid "
    "uniqueness and no parent cycle, evaluated on the flat reference state) is NOT a transcription of the Coq predicates "
    "input_full_ok / acyclic, which are stated on model states - the harness only needs it to be no weaker than what the theorems "
    "assume on the strict kinds, and the model-vs-code suite does not depend on it",
    "NOT PROVED in Coq (checked by the correspondence + impl-level oracle only): the local-id-change case new local id = old parent "
    "id for histories that also contain a KillObject (all clauses; kill-free histories are covered for the reference set by "
    "C14_reference_exact_nokill); the reference-set equality outside 'updates name a tracked region' when kills are present (it "
    "holds on the known-finding witness, C14_untracked_region_reference, but Idx, which the kill argument needs, fails there); that "
    "a reply which changes no property leaves its request pending is the code's behaviour and is modelled, not judged",
    "the full statement is false of the faithful model outside the hypothesis 'updates name a tracked region': witness proved as "
    "C14_untracked_region_refuted and recorded as known finding c14-untracked-region; the histories of the three repaired "
    "defects (0de120a, 7f5640d, 4cb9d70) are kept in corpus/C14/findings.txt and must pass",
]

REG = {1: 123, 2: 124, 3: 999}
REGISTERED = (1, 2)
AVATAR = 47

_COMPRESSED_TEMPLATE_DATA = (
    b"\x12\x12\x10\xbf\x16XB~\x8f\xb4\xfb\x00\x1a\xcd\x9b\xe5\xd2\x04\x00\x00\t\x00\xcdG\x00\x00"
    b"\x03\x00\x00\x00\x1cB\x00\x00\x1cB\xcd\xcc\xcc=\xedG,"
    b"B\x9e\xb1\x9eBff\xa0A\x00\x00\x00\x00\x00\x00\x00\x00["
    b"\x8b\xf8\xbe\xc0\x00\x00\x00k\x9b\xc4\xfe3\nOa\xbb\xe2\xe4\xb2C\xac7\xbd\x00\x00\x00\x00"
    b"\x00\x00\x00\x00\x00\x00\xa2=\x010\x00\x11\x00\x00\x00\x89UgG$\xcbC\xed\x92\x0bG\xca\xed"
    b"\x15F_@ \x00\x00\x00\x00d\x96\x00\x00\x00\x00\x00\x00\x00\x00\x00\x00\x00\x00\x00\x00\x00"
    b"\x00?\x00\x00\x00\x1c\x9fJoI\x8dH\xa0\x9d\xc4&''\x19=g\x00\x00\x00\x003\x00ff\x86\xbf"
    b"\x00ff\x86?\x00\x00\x00\x00\x00\x00\x00\x00\x00\x00\x00\x00\x00\x00\x00\x00\x89UgG$\xcbC"
    b"\xed\x92\x0bG\xca\xed\x15F_\x10\x00\x00\x003\x00\x01\x01\x00\x00\x00\x00\xdb\x0f\xc9@\xa6"
    b"\x9b\xc4="
)


# --------------------------------------------------------------------------
# events

def ev_str(e):
    return " ".join(str(x) for x in e)


def hist_str(h):
    return " ; ".join(ev_str(e) for e in h)


def parse_hist(s):
    out = []
    for part in s.split(";"):
        ws = part.split()
        if ws:
            out.append(tuple([ws[0]] + [int(x) for x in ws[1:]]))
    return out


# --------------------------------------------------------------------------
# the implementation under test, driven by real Messages

class Impl:
    """One fresh proxy Session with two registered regions; messages are built through the real (de)serializer."""
    _static = None

    @classmethod
    def static(cls):
        if cls._static is None:
            logging.disable(logging.CRITICAL)
            from hippolyzer.lib.base.message.udpdeserializer import UDPMessageDeserializer
            from hippolyzer.lib.base.message.udpserializer import UDPMessageSerializer
            import hippolyzer.lib.base.templates as tmpls
            import hippolyzer.lib.base.serialization as se
            reader = se.BufferReader("<", _COMPRESSED_TEMPLATE_DATA)
            cls._static = {
                "ser": UDPMessageSerializer(), "des": UDPMessageDeserializer(), "bytes": {},
                "cdata": reader.read(tmpls.ObjectUpdateCompressedDataSerializer.TEMPLATE),
            }
        return cls._static

    def __init__(self):
        st = self.static()
        from hippolyzer.lib.base.datatypes import UUID
        from hippolyzer.lib.base.test_utils import MockTransport
        from hippolyzer.lib.proxy.sessions import SessionManager
        from hippolyzer.lib.proxy.settings import ProxySettings
        from hippolyzer.lib.proxy.addons import AddonManager
        self.st = st
        self.sm = SessionManager(ProxySettings())
        self.sm.settings.ALLOW_AUTO_REQUEST_OBJECTS = False
        AddonManager.init([], self.sm, [])
        self.session = self.sm.create_session({
            "session_id": UUID(int=101), "secure_session_id": UUID(int=102), "agent_id": UUID(int=103),
            "circuit_code": 1234, "sim_ip": "127.0.0.1", "sim_port": 3, "region_x": 0, "region_y": 123,
            "seed_capability": "https://test.localhost:4/foo"})
        self.transport = MockTransport()
        self.session.register_region(("127.0.0.1", 9), "https://localhost:5", 124)
        self.regions = {1: self.session.region_by_handle(123), 2: self.session.region_by_handle(124)}
        for r in self.session.regions:
            self.session.open_circuit(("127.0.0.1", 1), r.circuit_addr, self.transport)
        self.world = self.session.objects
        self.futs = []        # (region, lid, kind, future) in creation order
        self.loop_errors = []

    # -- message construction (cached as wire bytes; deserialized fresh every time like a real datagram)
    def _wire(self, key, build):
        b = self.st["bytes"].get(key)
        if b is None:
            b = self.st["ser"].serialize(build())
            self.st["bytes"][key] = b
        return self.st["des"].deserialize(b)

    def msg_full(self, r, l, f, p, a, v):
        from hippolyzer.lib.base.datatypes import UUID, Vector3
        from hippolyzer.lib.base.message.message import Block, Message

        def build():
            msg = Message(
                "ObjectUpdate",
                Block("RegionData", RegionHandle=REG[r], TimeDilation=123),
                Block("ObjectData", ID=l, FullID=UUID(int=f), PCode=AVATAR if a else 9, CRC=v,
                      Scale=Vector3(0.5, 0.5, 0.5), UpdateFlags=v, PathCurve=16, ParentID=p, ProfileCurve=1,
                      PathScaleX=100, PathScaleY=100, NameValue=None,
                      TextureEntry=b'\x89UgG$\xcbC\xed\x92\x0bG\xca\xed\x15F_\x00\x00\x00\x00\x00\x00\x00\x00\x80?\x00\x00'
                                   b'\x00\x80?\x00\x00\x00\x00\x00\x00\x00\x00\x00\x00\x00\x00\x00\x00\x00\x00\x00\x00\x00'
                                   b'\x00\x00\x00\x00\x00\x00\x00\x00\x00\x00\x00\x00\x00',
                      TextColor=b'\x00\x00\x00\x00', ExtraParams=b'\x00', fill_missing=True))
            msg["ObjectData"][0].serialize_var("ObjectData", (60, {
                'Position': (float(v), 2.0, 3.0), 'Velocity': (0.0, 0.0, 0.0), 'Acceleration': (0.0, 0.0, 0.0),
                'Rotation': (0.0, 0.0, 0.0, 1.0), 'AngularVelocity': (0.0, 0.0, 0.0)}))
            return msg
        return self._wire(("F", r, l, f, p, a, v), build)

    def msg_double(self, r, l, f, p, a, v, v2):
        m1 = self.msg_full(r, l, f, p, a, v)
        m2 = self.msg_full(r, l, f, p, a, v2)
        m1["ObjectData"]      # force the lazy body parse before touching the block list
        m1.blocks["ObjectData"].append(m2["ObjectData"][0])
        return m1

    def msg_compressed(self, r, l, f, p, a, v):
        from hippolyzer.lib.base.datatypes import UUID, Vector3, Quaternion
        from hippolyzer.lib.base.message.message import Block, Message
        import hippolyzer.lib.base.templates as tmpls
        import hippolyzer.lib.base.serialization as se

        def build():
            val = dict(self.st["cdata"])
            val["FullID"] = UUID(int=f)
            val["ID"] = l
            val["PCode"] = tmpls.PCode.AVATAR if a else tmpls.PCode.PRIMITIVE
            val["CRC"] = v
            # OwnerID is carried by compressed updates AND by ObjectProperties; the model abstracts the ObjectProperties
            # fields by Name alone, so every message kind must carry the same (zero) OwnerID, as ObjectUpdate /
            # ObjectProperties built with fill_missing do - otherwise a properties reply after a compressed update
            # "changes" OwnerID and resolves a request the model leaves pending (harness artifact found by the thorough tier)
            val["OwnerID"] = UUID(int=0)
            val["Position"] = Vector3(float(v), 2.0, 3.0)
            val["Rotation"] = Quaternion(0.0, 0.0, 0.0, 1.0)
            val["AngularVelocity"] = Vector3(0.0, 0.0, 0.0)
            val["Flags"] = val["Flags"] | tmpls.CompressedFlags.ANGULAR_VELOCITY
            if p:
                val["ParentID"] = p
                val["Flags"] = val["Flags"] | tmpls.CompressedFlags.PARENT_ID
            else:
                val["ParentID"] = None
                val["Flags"] = val["Flags"] & ~tmpls.CompressedFlags.PARENT_ID
            w = se.BufferWriter("<")
            w.write(tmpls.ObjectUpdateCompressedDataSerializer.TEMPLATE, val)
            return Message("ObjectUpdateCompressed", Block("RegionData", RegionHandle=REG[r], TimeDilation=1),
                           Block("ObjectData", UpdateFlags=v, Data=w.copy_buffer()))
        return self._wire(("C", r, l, f, p, a, v), build)

    def msg_terse(self, r, l, v):
        from hippolyzer.lib.base.datatypes import Vector3, Quaternion
        from hippolyzer.lib.base.message.message import Block, Message

        def build():
            return Message(
                'ImprovedTerseObjectUpdate', Block('RegionData', RegionHandle=REG[r], TimeDilation=65345),
                Block('ObjectData', Data_={
                    'ID': l, 'State': 0, 'FootCollisionPlane': None, 'Position': Vector3(float(v), 2.0, 3.0),
                    'Velocity': Vector3(0, 0, 0), 'Acceleration': Vector3(0, 0, 0), 'Rotation': Quaternion(0, 0, 0, 1),
                    'AngularVelocity': Vector3(0, 0, 0)}, TextureEntry_=None))
        return self._wire(("T", r, l, v), build)

    def msg_cached(self, r, l, c, v):
        from hippolyzer.lib.base.message.message import Block, Message
        return self._wire(("H", r, l, c, v), lambda: Message(
            'ObjectUpdateCached', Block("RegionData", TimeDilation=102, RegionHandle=REG[r]),
            Block("ObjectData", ID=l, CRC=c, UpdateFlags=v)))

    def msg_props(self, f, v):
        from hippolyzer.lib.base.datatypes import UUID
        from hippolyzer.lib.base.message.message import Block, Message
        return self._wire(("P", f, v), lambda: Message(
            "ObjectProperties", Block("ObjectData", ObjectID=UUID(int=f), Name="n%d" % v, TextureID=b"", fill_missing=True)))

    def msg_kill(self, r, l):
        from hippolyzer.lib.base.message.message import Block, Message
        m = self._wire(("K", l), lambda: Message("KillObject", Block("ObjectData", ID=l)))
        m.sender = self.regions[r].circuit_addr
        return m

    # -- one step; returns "ok" or "EXC:<type>"
    def apply(self, e):
        k = e[0]
        w = self.world
        try:
            if k == "F":
                w._handle_object_update(self.msg_full(*e[1:]))
            elif k == "D":
                w._handle_object_update(self.msg_double(*e[1:]))
            elif k == "B":
                # ONE ObjectUpdate packet carrying several ObjectData blocks (applied in wire order)
                import copy as _copy
                subs = [tuple(e[2 + 6 * i:8 + 6 * i]) for i in range(e[1])]
                m = _copy.deepcopy(self.msg_full(*subs[0]))
                m["ObjectData"]
                for sub in subs[1:]:
                    m2 = _copy.deepcopy(self.msg_full(*sub))
                    m.blocks["ObjectData"].append(m2["ObjectData"][0])
                w._handle_object_update(m)
            elif k == "C":
                w._handle_object_update_compressed(self.msg_compressed(*e[1:]))
            elif k == "T":
                w._handle_terse_object_update(self.msg_terse(*e[1:]))
            elif k == "H":
                w._handle_object_update_cached(self.msg_cached(*e[1:]))
            elif k == "P":
                w._handle_object_properties_generic(self.msg_props(*e[1:]))
            elif k == "K":
                w._handle_kill_object(self.msg_kill(*e[1:]))
            elif k == "X":
                self.regions[e[1]].objects.clear()
            elif k == "R":
                w.track_region_objects(REG[e[1]])
            elif k == "Q":
                for fut in self.regions[e[1]].objects.request_objects(e[2]):
                    self.futs.append((e[1], e[2], "U", fut))
            elif k == "S":
                for fut in self.regions[e[1]].objects.request_object_properties(e[2]):
                    self.futs.append((e[1], e[2], "P", fut))
            elif k == "M":
                om = self.regions[e[1]].objects
                lids = sorted(om.missing_locals)
                futs = om.request_missing_objects()
                # futures come back in set-iteration order; attribute them through the registry
                self._attribute(e[1], lids, futs)
            else:
                raise ValueError("bad event " + repr(e))
            res = "ok"
        except Exception as ex:  # noqa
            res = "EXC:" + type(ex).__name__
        return res

    def _attribute(self, r, lids, futs):
        from hippolyzer.lib.client.object_manager import ObjectUpdateType
        state = self.regions[r].objects.state
        for fut in futs:
            for l in lids:
                if any(fut is x for x in state._object_futures.get((l, ObjectUpdateType.UPDATE), [])):
                    self.futs.append((r, l, "U", fut))
                    break
            else:
                self.futs.append((r, 0, "U", fut))

    # -- canonical observation of the whole graph
    def observe(self):
        w = self.world
        objs = []
        for fid, o in sorted(w._fullid_lookup.items(), key=lambda kv: kv[0].int):
            objs.append(self._obj(o, key=fid))
        regs = []
        for r in REGISTERED:
            reg = self.regions[r]
            st = reg.objects.state
            tracked = w._region_managers.get(REG[r]) is not None
            local = []
            for lid, o in sorted(st.localid_lookup.items()):
                same = w._fullid_lookup.get(o.FullID) is o
                local.append("%d:%d%s" % (lid, o.FullID.int, "" if same else "!" + self._obj(o, key=o.FullID)))
            orph = ["%d>%s" % (p, ",".join(map(str, ls))) for p, ls in sorted(st._orphans.items())]
            miss = ",".join(map(str, sorted(st.missing_locals)))
            # public API cross-checks (observe_at of the property)
            api = []
            for lid, o in st.localid_lookup.items():
                if reg.objects.lookup_localid(lid) is not o:
                    api.append("lookup_localid(%d)" % lid)
            if sorted(id(o) for o in reg.objects.all_objects) != sorted(id(o) for o in st.localid_lookup.values()):
                api.append("all_objects")
            regs.append("r%d %s L[%s] O[%s] M[%s]%s" % (r, "T" if tracked else "U", " ".join(local), " ".join(orph), miss,
                                                       (" API!" + ",".join(api)) if api else ""))
        extra = sorted(h for h in w._region_managers if h not in (123, 124))
        futs = {}
        for (r, l, kd, fut) in self.futs:
            if fut.cancelled():
                s = "c"
            elif fut.done():
                try:
                    s = "r%d" % fut.result().FullID.int
                except Exception as ex:  # noqa
                    s = "x" + type(ex).__name__
            else:
                s = "p"
            futs.setdefault((r, l, kd), []).append(s)
        fs = " ".join("%d.%d%s=%s" % (r, l, kd, ",".join(v)) for (r, l, kd), v in sorted(futs.items()))
        return "W[%s] %s F[%s]%s" % (" ".join(objs), " ".join(regs), fs, (" XR" + str(extra)) if extra else "")

    @staticmethod
    def _obj(o, key=None):
        try:
            par = o.Parent
            plink = "-" if par is None else str(par.FullID.int)
        except ReferenceError:
            plink = "dead"
        ch = []
        bad = ""
        if len(o.ChildIDs) != len(o.Children):
            bad = "!len"
        for i, cid in enumerate(o.ChildIDs):
            try:
                cf = o.Children[i].FullID.int if i < len(o.Children) else -1
                if i < len(o.Children) and o.Children[i].LocalID != cid:
                    bad = "!lid"
            except ReferenceError:
                cf = -2
            ch.append("%d:%d" % (cid, cf))
        pos = o.Position.X if o.Position is not None else -1
        name = 0 if o.Name is None else int(str(o.Name)[1:] or 0)
        rinv = {123: 1, 124: 2, 999: 3}
        return "%d(r%d l%d p%d %s c%s u%s x%d n%d %s P%s C[%s]%s%s)" % (
            o.FullID.int, rinv.get(o.RegionHandle, 9), o.LocalID, o.ParentID, "av" if o.PCode == AVATAR else "pr",
            o.CRC, int(o.UpdateFlags) if o.UpdateFlags is not None else -1, int(pos), name,
            "-" if o.Velocity is None else "v", plink, ",".join(ch), bad,
            "" if key is None or key == o.FullID else "!key")


def run_impl(hist, loop):
    """Run a history on a fresh implementation; returns the list of per-step observations (stops after an exception)."""
    out = []

    async def go():
        impl = Impl()
        lp = asyncio.get_running_loop()
        errs = []
        lp.set_exception_handler(lambda _l, c: errs.append(c))
        for e in hist:
            res = impl.apply(e)
            await asyncio.sleep(0)      # let future done-callbacks run, as between two datagrams
            await asyncio.sleep(0)
            if errs:
                res = "EXC:loop:" + type(errs[0].get("exception")).__name__
            if res != "ok":
                out.append(res)
                break
            out.append(impl.observe())
        for (_r, _l, _k, fut) in impl.futs:
            if not fut.done():
                fut.cancel()
        await asyncio.sleep(0)
    loop.run_until_complete(go())
    return out


# --------------------------------------------------------------------------
# independent reference semantics of the statement ("announced and not since killed/unloaded") + input assumption

class Spec:
    """Flat reference model: which objects are live and where.  No indices, no child lists.

    LITERAL TRANSCRIPTION of coq/theories/Obj/SceneGraphRef.v (refst / ref_at / doomed / ref_kill / ref_step); the Coq
    theorem C14_reference_exact proves that the model's full-id lookup equals this after every history inside the
    assumptions, and the "reference" correspondence suite compares the extracted ref_step with this class and with the
    real managers after every step.  `live` is the association list rf_live: aset = delete the key and put the new
    entry at the head, so iteration is newest-first (only observable when two live objects share a (region, local id),
    i.e. outside the statement's assumption)."""

    def __init__(self, strict=False):
        self.live = {}                 # full -> dict(r, l, p, a)   (rf_live; dict order = reversed list order)
        self.tracked = set()           # rf_tracked
        # strict: additionally stay inside the hypotheses of the Coq theorem C14_step_wf (excludes the finding classes)
        self.strict = strict

    def _aset(self, f, rec):
        self.live.pop(f, None)
        self.live[f] = rec

    def at(self, r, l):
        """ref_at: the live object announced at (region, local id)"""
        for f in reversed(list(self.live)):
            o = self.live[f]
            if o["r"] == r and o["l"] == l:
                return f
        return None

    def input_ok(self, e):
        """The statement's assumption: no local id given to two live objects, no parent cycle."""
        k = e[0]
        if self.strict:
            if k in ("F", "C", "D") and e[1] not in self.tracked:
                return False          # class "untracked-region": update naming a region that is not tracked
        if k in ("F", "C", "D"):
            _, r, l, f, p, a, v = e[:7]
            g = self.at(r, l)
            if g is not None and g != f:
                return False
            # parent chain from p (by local id in region r, with f sitting at l) must not come back to l
            x = p
            seen = 0
            while x:
                if x == l:
                    return False
                g = self.at(r, x)
                if g is None or g == f:
                    break
                x = self.live[g]["p"]
                seen += 1
                if seen > 20:
                    return False
            return True
        return True

    def doomed(self, fuel, r, l, o):
        """doomed: does KillObject (r, l) remove o?  Walk up the parent ids."""
        if fuel == 0:
            return False
        if o["r"] != r:
            return False
        if o["l"] == l:
            return True               # the killed id itself (even an avatar)
        if o["a"] or o["p"] == 0:
            return False              # avatars are spared by the cascade; parent id 0 = no parent
        if o["p"] == l:
            return True
        g = self.at(r, o["p"])
        return g is not None and self.doomed(fuel - 1, r, l, self.live[g])

    def kill(self, r, l):
        """ref_kill"""
        if r not in self.tracked:
            return      # objects of a region that is not tracked are not indexed by local id (by design)
        fuel = len(self.live) + 1
        dead = [f for f, o in self.live.items() if self.doomed(fuel, r, l, o)]
        for f in dead:
            del self.live[f]

    def step(self, e):
        """ref_step"""
        k = e[0]
        if k in ("F", "C", "D"):
            _, r, l, f, p, a, v = e[:7]
            if f in self.live:
                self._aset(f, dict(r=r, l=l, p=p, a=bool(a)))      # announced again: moved / re-parented
            elif r in self.tracked:
                self._aset(f, dict(r=r, l=l, p=p, a=bool(a)))
        elif k == "K":
            self.kill(e[1], e[2])
        elif k == "X":
            r = e[1]
            self.tracked.discard(r)
            for f in [f for f, o in self.live.items() if o["r"] == r]:
                del self.live[f]
        elif k == "R":
            self.tracked.add(e[1])

    def observe(self):
        """same format as ref_observe of coq/ocaml/c14_driver.ml"""
        objs = ["%d(r%d l%d p%d %s)" % (f, o["r"], o["l"], o["p"], "av" if o["a"] else "pr") for f, o in sorted(self.live.items())]
        return "L[%s] T[%s]" % (" ".join(objs), ",".join(str(r) for r in sorted(self.tracked)))


def impl_ref_observe(impl):
    """the full-id lookup and the tracked regions of the real managers, in the format of Spec.observe"""
    rinv = {123: 1, 124: 2, 999: 3}
    w = impl.world
    objs = []
    for fid, o in sorted(w._fullid_lookup.items(), key=lambda kv: kv[0].int):
        objs.append("%d(r%d l%d p%d %s)" % (fid.int, rinv.get(o.RegionHandle, 9), o.LocalID, o.ParentID or 0,
                                           "av" if o.PCode == AVATAR else "pr"))
    tr = sorted(rinv.get(h, 9) for h in w._region_managers)
    return "L[%s] T[%s]" % (" ".join(objs), ",".join(str(r) for r in tr))


def check_clauses(impl, spec):
    """The clauses of the property statement evaluated on the real managers.  Returns None or (clause, detail)."""
    w = impl.world
    full = w._fullid_lookup
    # (i) lookup by full id contains exactly the live objects, with the announced (region, lid, parent)
    got = {}
    for fid, o in full.items():
        got[fid.int] = (o.RegionHandle, o.LocalID, o.ParentID)
    want = {f: (REG[o["r"]], o["l"], o["p"]) for f, o in spec.live.items()}
    if got != want:
        return "full-id lookup holds exactly the live objects", "got %r want %r" % (sorted(got.items()), sorted(want.items()))
    for r in REGISTERED:
        reg = impl.regions[r]
        st = reg.objects.state
        gl = {lid: o.FullID.int for lid, o in st.localid_lookup.items()}
        wl = {o["l"]: f for f, o in spec.live.items() if o["r"] == r and r in spec.tracked}
        if gl != wl:
            return "local-id lookup agrees with full-id lookup", "region %d got %r want %r" % (r, sorted(gl.items()), sorted(wl.items()))
        for lid, o in st.localid_lookup.items():
            if full.get(o.FullID) is not o or reg.objects.lookup_fullid(o.FullID) is not o or reg.objects.lookup_localid(lid) is not o:
                return "local-id lookup agrees with full-id lookup", "region %d lid %d is a different object" % (r, lid)
        # (ii) children are exactly the tracked objects naming the object as parent, both directions
        for lid, o in st.localid_lookup.items():
            wantc = sorted(c.LocalID for c in st.localid_lookup.values() if c.ParentID == lid)
            if sorted(o.ChildIDs) != wantc or len(set(o.ChildIDs)) != len(o.ChildIDs):
                return "children are exactly the objects naming it as parent", "region %d lid %d ChildIDs %r want %r" % (r, lid, o.ChildIDs, wantc)
            try:
                if [c.LocalID for c in o.Children] != list(o.ChildIDs) or any(st.localid_lookup.get(c.LocalID) is None for c in o.Children):
                    return "children are exactly the objects naming it as parent", "region %d lid %d Children/ChildIDs differ" % (r, lid)
                par = o.Parent
                wantp = st.localid_lookup.get(o.ParentID) if o.ParentID else None
                if (par is None) != (wantp is None) or (par is not None and par.FullID != wantp.FullID):
                    return "parent link is the tracked parent", "region %d lid %d" % (r, lid)
            except ReferenceError:
                return "children/parent links are live objects", "region %d lid %d dead weakref" % (r, lid)
        # (iii) objects with an unknown parent are held as orphans
        wanto = {}
        for lid, o in st.localid_lookup.items():
            if o.ParentID and o.ParentID not in st.localid_lookup:
                wanto.setdefault(o.ParentID, []).append(lid)
        goto = {p: sorted(ls) for p, ls in st._orphans.items()}
        if goto != {p: sorted(ls) for p, ls in wanto.items()} or any(len(set(ls)) != len(ls) for ls in st._orphans.values()):
            return "objects with an unknown parent are held as orphans", "region %d orphans %r want %r" % (r, dict(st._orphans), wanto)
    return None


def check_futures(impl, e):
    """every pending request for an object that just went away / arrived is cancelled / resolved"""
    k = e[0]
    for (r, l, kd, fut) in impl.futs:
        if fut.done():
            continue
        if k == "X" and r == e[1]:
            return "pending requests are cancelled on region teardown", "future %d.%d%s" % (r, l, kd)
        if k == "K" and r == e[1] and l == e[2]:
            return "pending requests are cancelled on kill", "future %d.%d%s" % (r, l, kd)
        if k in ("F", "C", "D") and kd == "U" and r == e[1] and l == e[2] and impl.world._region_managers.get(REG[r]) is not None \
                and impl.regions[r].objects.lookup_localid(l) is not None:
            return "pending object requests are resolved by the update", "future %d.%d%s" % (r, l, kd)
        # a pending request may only wait for something that is not tracked, or for a reply kind not yet received
        if kd == "U" and k == "K" and impl.regions[r].objects.lookup_localid(l) is None and r == e[1]:
            pass
    return None


def suite_multiblock(ctx, loop):
    """ObjectUpdate packets with SEVERAL ObjectData blocks: the blocks are applied in wire order (the same object announced twice,
    a local id handed on inside one packet, a child before or after its parent).  Impl-level oracle: the statement's clauses
    (Idx, Tree, orphans) and the reference set after every packet; the model sees such packets as their blocks in sequence."""
    res = CorrResult(suite="multi-block ObjectUpdate packets: blocks applied in wire order (impl-level oracle)",
                     rule="region 1 tracked, then 1..2 packets of 2..3 blocks over local ids 1..3, full ids 1..3, parent ids 0..3 "
                          "(exhaustive for the first packet of two blocks, random beyond), optionally followed by a kill; packets whose "
                          "blocks, applied in order, leave the statement's assumptions are left out; after every packet: lookups agree, "
                          "children/parents/orphans as stated, tracked set = reference set")
    import itertools
    rng = ctx.rng
    blocks = [(1, l, f, p, 0, 1) for l in (1, 2, 3) for f in (1, 2, 3) for p in (0, 1, 2, 3) if p != l]
    hists = []
    for b1, b2 in itertools.product(blocks, repeat=2):
        hists.append([("R", 1), ("B", 2) + b1 + b2])
    for _ in range(ctx.pick(1500, 20000)):
        h = [("R", 1)]
        for _k in range(rng.choice((1, 2, 2))):
            n = rng.choice((2, 2, 3))
            bs = [rng.choice(blocks) for _j in range(n)]
            h.append(("B", n) + tuple(x for b in bs for x in b))
            if rng.random() < 0.3:
                h.append(("K", 1, rng.choice((1, 2, 3))))
        hists.append(h)
    n = nt = 0
    seen = set()
    for h in hists:
        v, _ = check_history(h, loop)
        if v and v.get("class") == "harness":
            continue
        n += 1
        if any(e[0] == "B" and len({e[3 + 6 * j] for j in range(e[1])}) < e[1] for e in h):
            nt += 1         # the same full id twice in one packet
        if v:
            cls = v.get("class") or "multiblock-" + v["clause"][:40]
            if cls not in seen and len(seen) < 4:
                seen.add(cls)
                v["class"] = cls
                v["kind"] = "multiblock"
                res.impl_violations.append(v)
    res.evaluations = n
    res.distinct_nontrivial = nt
    return res


def check_history(hist, loop, want_obs=False, yield_every=1):
    """Impl-level oracle: run the history, evaluate the statement after every step.
    Returns (violation dict or None, observations).
    yield_every: the event loop gets a turn only after every n-th event (n > 1: several messages are handled in ONE loop turn,
    as when datagrams arrive back to back; done-callbacks of futures then run late)."""
    res = {"v": None, "obs": [], "ref": []}

    async def go():
        impl = Impl()
        spec = Spec()
        lp = asyncio.get_running_loop()
        errs = []
        lp.set_exception_handler(lambda _l, c: errs.append(c))
        for i, e in enumerate(hist):
            subs = [("F",) + tuple(e[2 + 6 * j:8 + 6 * j]) for j in range(e[1])] if e[0] == "B" else None
            if subs is not None:
                import copy as _copy
                sc = _copy.deepcopy(spec)
                okb = True
                for sub in subs:
                    if not sc.input_ok(sub):
                        okb = False
                        break
                    sc.step(sub)
                if not okb:
                    res["v"] = {"clause": "generator produced an input outside the statement's assumption", "step": i,
                                "history": hist_str(hist), "class": "harness"}
                    break
            elif not spec.input_ok(e):
                res["v"] = {"clause": "generator produced an input outside the statement's assumption", "step": i,
                            "history": hist_str(hist), "class": "harness"}
                break
            r = impl.apply(e)
            if yield_every <= 1 or (i + 1) % yield_every == 0:
                await asyncio.sleep(0)
                await asyncio.sleep(0)
            if errs:
                r = "EXC:loop:" + type(errs[0].get("exception")).__name__
            if r != "ok":
                res["obs"].append(r)
                res["v"] = {"clause": "no handler raises", "step": i, "event": ev_str(e), "exc": r,
                            "history": hist_str(hist[:i + 1])}
                break
            if subs is not None:
                for sub in subs:
                    spec.step(sub)
                if spec.observe() != impl_ref_observe(impl):
                    res["v"] = {"clause": "the lookups contain exactly the objects announced and not since killed or unloaded, where they were "
                                          "last announced (blocks of one packet are applied in wire order)", "class": "reference-set",
                                "detail": "reference %s ; implementation %s" % (spec.observe()[:300], impl_ref_observe(impl)[:300]),
                                "step": i, "event": ev_str(e), "history": hist_str(hist[:i + 1])}
                    break
            else:
                spec.step(e)
            if want_obs:
                res["obs"].append(impl.observe())
                res["ref"].append((spec.observe(), impl_ref_observe(impl)))
            c = check_clauses(impl, spec) or check_futures(impl, e)
            if c:
                res["v"] = {"clause": c[0], "detail": c[1], "step": i, "event": ev_str(e), "history": hist_str(hist[:i + 1])}
                break
        for (_r, _l, _k, fut) in impl.futs:
            if not fut.done():
                fut.cancel()
        await asyncio.sleep(0)
    loop.run_until_complete(go())
    if want_obs == "ref":
        return res["v"], res["obs"], res["ref"]
    return res["v"], res["obs"]


# --------------------------------------------------------------------------
# generators (all histories satisfy the statement's assumption, checked with Spec.input_ok)

def classify(hist):
    """Which known defect class (if any) a history exercises: the first event outside the extra hypotheses of
    the Coq step theorem.  None = the history is inside them."""
    spec = Spec()
    for e in hist:
        k = e[0]
        if k in ("F", "C", "D") and e[3] in spec.live and e[1] not in spec.tracked:
            return "object-moved-to-untracked-region"
        spec.step(e)
    return None


def rand_event(rng, regions, lids, fulls, vals=(1, 2)):
    k = rng.choice("FFFFFCCCDTHPKKKXRQSM")
    r = rng.choice(regions)
    r12 = rng.choice([x for x in regions if x in REGISTERED] or [1])
    l = rng.choice(lids)
    f = rng.choice(fulls)
    p = rng.choice((0, 0) + tuple(lids))
    a = 1 if rng.random() < 0.25 else 0
    v = rng.choice(vals)
    if k in "FC":
        return (k, r, l, f, p, a, v)
    if k == "D":
        return (k, r, l, f, p, a, v, rng.choice(vals))
    if k == "T":
        return (k, r, l, v)
    if k == "H":
        return (k, r, l, rng.choice(vals), v)
    if k == "P":
        return (k, f, v)
    if k in "XRM":
        return (k, r12)
    return (k, r12, l)


def rand_hist(rng, n, strict, regions=(1, 2, 3), lids=(1, 2, 3, 4), fulls=(1, 2, 3, 4, 5)):
    spec = Spec(strict=strict)
    h = [("R", 1)]
    spec.step(h[0])
    if rng.random() < 0.7:
        h.append(("R", 2))
        spec.step(h[-1])
    tries = 0
    while len(h) < n and tries < 50 * n:
        tries += 1
        e = rand_event(rng, regions, lids, fulls)
        if strict and e[0] in ("F", "C", "D", "T", "H") and e[1] not in spec.tracked and rng.random() < 0.9:
            continue
        if spec.input_ok(e):
            h.append(e)
            spec.step(e)
    return h


def structured_hist(rng, n):
    """linksets: build chains / orphans first, then kill, move and reuse local ids (strict)"""
    spec = Spec(strict=True)
    h = [("R", 1), ("R", 2)]
    for e in h:
        spec.step(e)
    tries = 0
    while len(h) < n and tries < 50 * n:
        tries += 1
        ph = len(h) * 3 // n
        if ph == 0:
            k = rng.choice("FFFC")
        elif ph == 1:
            k = rng.choice("FCKKQSTP")
        else:
            k = rng.choice("FCKKKXRMHT")
        r = rng.choice((1, 1, 2))
        l = rng.randint(1, 4)
        f = rng.randint(1, 5)
        if k in "FC":
            live = [o["l"] for o in spec.live.values() if o["r"] == r]
            p = rng.choice((0, rng.randint(1, 4), rng.choice(live) if live else 0))
            e = (k, r, l, f, p, 1 if rng.random() < 0.2 else 0, rng.randint(1, 2))
        elif k == "T":
            e = (k, r, l, rng.randint(1, 2))
        elif k == "H":
            e = (k, r, l, rng.randint(1, 2), rng.randint(1, 2))
        elif k == "P":
            e = (k, f, rng.randint(1, 2))
        elif k in "XRM":
            e = (k, r)
        else:
            e = (k, r, l)
        if spec.input_ok(e):
            h.append(e)
            spec.step(e)
    return h


def deep_hist(rng, n):
    """reference-set stress over a bigger universe (local ids 1..6, full ids 1..7, strict): build chains with avatars inside
    and orphans of unknown ids, then kill roots / middles / leaves / unknown parents / id 0 / ids of the other or an
    untracked region, interleaved with moves, re-announcements, teardown and re-track"""
    spec = Spec(strict=True)
    h = [("R", 1)]
    spec.step(h[0])
    if rng.random() < 0.6:
        h.append(("R", 2))
        spec.step(h[-1])
    tries = 0
    while len(h) < n and tries < 60 * n:
        tries += 1
        build = len(h) * 5 < n * 2
        k = rng.choice("FFFFFC" if build else "KKKKKKFFCXRTHP")
        r = rng.choice((1, 1, 1, 2))
        if k in "FC":
            lids = [o["l"] for o in spec.live.values() if o["r"] == r]
            l = rng.randint(1, 6)
            f = rng.randint(1, 7)
            c = rng.random()
            if c < 0.55 and lids:
                p = rng.choice(lids[-2:])          # extend the newest chains: deep linksets
            elif c < 0.75:
                p = rng.randint(1, 6)              # possibly unknown: an orphan
            else:
                p = 0
            e = (k, r, l, f, p, 1 if rng.random() < 0.25 else 0, rng.randint(1, 2))
        elif k == "K":
            lids = [o["l"] for o in spec.live.values() if o["r"] == r]
            pars = [o["p"] for o in spec.live.values() if o["r"] == r and o["p"] and spec.at(r, o["p"]) is None]
            c = rng.random()
            if c < 0.5 and lids:
                l = rng.choice(lids)
            elif c < 0.75 and pars:
                l = rng.choice(pars)               # an unknown id that has orphans
            elif c < 0.82:
                l = 0
            else:
                l = rng.randint(1, 6)
            e = (k, rng.choice((r, r, r, 1, 2)), l)
        elif k == "T":
            e = (k, r, rng.randint(1, 6), rng.randint(1, 2))
        elif k == "H":
            e = (k, r, rng.randint(1, 6), rng.randint(1, 2), rng.randint(1, 2))
        elif k == "P":
            e = (k, rng.randint(1, 7), rng.randint(1, 2))
        else:
            e = (k, r)
        if spec.input_ok(e):
            h.append(e)
            spec.step(e)
    return h


def small_alphabet(scope):
    """event alphabet of the exhaustive scopes"""
    ev = []
    if scope == "one-region":
        # region 1 (+ region 2 as a tracked destination), lids 1..3, fulls 1..3 (3 is an avatar), parents 0..3
        for l in (1, 2, 3):
            for f in (1, 2, 3):
                for p in (0, 1, 2, 3):
                    ev.append(("F", 1, l, f, p, 1 if f == 3 else 0, 1))
            ev.append(("K", 1, l))
        ev.append(("K", 1, 0))
        ev += [("F", 2, 1, 1, 0, 0, 1), ("F", 2, 2, 2, 1, 0, 1), ("X", 1), ("R", 1), ("Q", 1, 1), ("S", 1, 2)]
    elif scope == "all-kinds":
        for r in (1, 2):
            for l in (1, 2):
                for f in (1, 2):
                    for p in (0, 1, 2):
                        ev.append(("F" if (l + f + p) % 2 else "C", r, l, f, p, 1 if f == 2 else 0, 1 + (r + p) % 2))
                ev += [("K", r, l), ("T", r, l, 2), ("H", r, l, 1, 2), ("Q", r, l), ("S", r, l)]
            ev += [("X", r), ("R", r), ("M", r)]
        ev += [("P", 1, 1), ("P", 2, 2), ("F", 3, 1, 1, 0, 0, 1), ("C", 3, 2, 2, 1, 1, 1), ("D", 1, 1, 1, 0, 0, 1, 2)]
    return ev


def exhaustive(ctx, scope, depth, prefix, cap):
    """Breadth-first over all histories of the scope up to `depth` events after `prefix`, pruning on the model
    state: a history is extended only if no earlier history reached the same model state.  Yields every
    candidate (each distinct state x every admissible event).  Returns (candidates, complete?)."""
    alphabet = small_alphabet(scope)
    frontier = [list(prefix)]
    seen = set()
    out = []
    complete = True
    for d in range(depth):
        cands = []
        for h in frontier:
            spec = Spec()
            for e in h:
                spec.step(e)
            for e in alphabet:
                if spec.input_ok(e):
                    cands.append(h + [e])
        if len(out) + len(cands) > cap:
            complete = False
            ctx.rng.shuffle(cands)
            cands = cands[:max(0, cap - len(out))]
        out += cands
        if d == depth - 1 or not cands:
            break
        res = ctx.run_driver([hist_str(h) for h in cands])
        frontier = []
        for h, line in zip(cands, res):
            st = line.rsplit(" | ", 1)[-1]
            if st == "ERR" or st in seen:
                continue
            seen.add(st)
            frontier.append(h)
    return out, complete


def load_corpus():
    d = os.path.join(os.path.dirname(os.path.dirname(os.path.dirname(os.path.abspath(__file__)))), "corpus", "C14")
    out = []
    if os.path.isdir(d):
        for fn in sorted(os.listdir(d)):
            if fn.endswith(".txt"):
                for line in open(os.path.join(d, fn)):
                    line = line.split("#")[0].strip()
                    if line:
                        out.append(parse_hist(line))
    return out


def gen_cases(ctx):
    """list of (kind, history)"""
    cases = [("corpus", h) for h in load_corpus()]
    ex1, c1 = exhaustive(ctx, "one-region", ctx.pick(3, 4), [("R", 1), ("R", 2)], ctx.pick(6000, 30000))
    cases += [("exh-one-region", h) for h in ex1]
    ex2, c2 = exhaustive(ctx, "all-kinds", ctx.pick(2, 3), [("R", 1)], ctx.pick(5000, 30000))
    cases += [("exh-all-kinds", h) for h in ex2]
    rng = ctx.rng
    for _ in range(ctx.pick(350, 6000)):
        cases.append(("rand-strict", rand_hist(rng, rng.choice((12, 25, 40)), True)))
    for _ in range(ctx.pick(200, 4000)):
        cases.append(("structured", structured_hist(rng, rng.choice((15, 30, 45)))))
    for _ in range(ctx.pick(150, 2500)):
        cases.append(("rand-statement-assumption-only", rand_hist(rng, 25, False)))
    for _ in range(ctx.pick(220, 4000)):
        cases.append(("deep-linksets", deep_hist(rng, rng.choice((20, 35, 50)))))
    return cases, {"one-region": c1, "all-kinds": c2}


# --------------------------------------------------------------------------
# shrinking / API

def vclass(v):
    """stable defect-class key of a violation (used to match known findings)"""
    cls = classify(parse_hist(v["history"])) or "unclassified"
    if cls == "object-moved-to-untracked-region" and v.get("exc") == "EXC:AttributeError":
        cls = "regionless-object-update-raises"
    return cls


def _violates(hist, loop, clause=None, cls=None):
    spec = Spec()
    for e in hist:
        if not spec.input_ok(e):
            return None
        spec.step(e)
    v, _ = check_history(hist, loop)
    if v and (clause is None or v["clause"] == clause) and (cls is None or vclass(v) == cls):
        return v
    return None


def shrink(hist, loop, v):
    hist = parse_hist(v["history"])
    cls = vclass(v)
    changed = True
    while changed:
        changed = False
        for i in range(len(hist) - 1, -1, -1):
            t = hist[:i] + hist[i + 1:]
            w = _violates(t, loop, v["clause"], cls)
            if w:
                hist, v, changed = parse_hist(w["history"]), w, True
                break
    v["class"] = cls
    return v


def _loop():
    loop = asyncio.new_event_loop()
    asyncio.set_event_loop(loop)
    return loop


def correspond(ctx):
    loop = _loop()
    try:
        r = _correspond(ctx, loop)
        return (r if isinstance(r, list) else [r]) + [suite_multiblock(ctx, loop)]
    finally:
        loop.close()


def _correspond(ctx, loop):
    res = CorrResult(
        suite="scene graph: real ProxyWorldObjectManager vs extracted model",
        rule="histories over regions {1,2 registered, 3 unknown} x local ids 1..4 x full ids 1..5, all satisfying the statement's "
             "assumption (no local id given to two live objects, no parent cycle; checked by an independent flat reference): "
             "corpus; breadth-first exhaustive scopes pruned on the model state (one-region: 36 updates+kills+moves over 3 lids x 3 "
             "fulls x 4 parents; all-kinds: every message kind over 2 regions x 2 lids x 2 fulls); seeded random, structured "
             "(build linksets, then kill/move/reuse) and random histories using only the statement's assumption; every history "
             "is run through real Messages into the handler methods of a fresh proxy Session and through the extracted model, the "
             "whole observable graph (full-id and local-id lookups, Parent/Children/ChildIDs, orphans, missing_locals, tracked "
             "regions, state of every future, raised exceptions) is compared after every step, and the property's clauses are "
             "evaluated on the real managers after every step; non-trivial = history in which some object has a parent")
    cases, complete = gen_cases(ctx)
    seen = set()
    uniq = []
    dist = {}
    for kind, h in cases:
        s = hist_str(h)
        if s in seen:
            continue
        seen.add(s)
        uniq.append((kind, h, s))
        dist[kind] = dist.get(kind, 0) + 1
    model = ctx.run_driver([s for _, _, s in uniq])
    refm = ctx.run_driver(["REF " + s for _, _, s in uniq])
    ref = CorrResult(
        suite="reference set: extracted ref_step (Coq) vs Spec (Python transcription) vs real managers",
        rule="the same histories (corpus, exhaustive scopes, random, structured, statement-assumption-only, plus deep-linksets: "
             "local ids 1..6 x full ids 1..7, chains with avatars inside, orphans of unknown ids, kills of roots / middles / "
             "unknown parents / id 0 / ids of another or an untracked region, moves, teardown); after every step three "
             "observations are compared as strings: the reference state of the extracted Coq ref_step (live full ids with region, "
             "local id, parent id, avatar flag; tracked regions), the state of harness Spec (its literal Python transcription, "
             "which also drives the generators and the impl-level oracle), and the full-id lookup + tracked regions of the real "
             "ClientWorldObjectManager; non-trivial = history with a KillObject that removes at least two objects or kills "
             "through an unknown parent id")
    steps = 0
    nontriv = 0
    vio_seen = {}
    n_vio = {}
    rsteps = 0
    rnontriv = 0
    rdist = {"kills": 0, "kills_removing_0": 0, "kills_removing_1": 0, "kills_cascading": 0, "kills_unknown_id_with_victims": 0,
             "kills_sparing_avatar_child": 0, "teardowns_removing": 0}
    for (kind, h, s), mline, rline in zip(uniq, model, refm):
        mo = mline.split(" | ")
        ro = rline.split(" | ") if rline else []
        v, io, refs = check_history(h, loop, want_obs="ref")
        if not v and sum(1 for e in h if e[0] in ("Q", "S", "M")) >= 2:
            # the same history with the loop yielding only every 2nd / 3rd event (the statement's clauses only; observations
            # that depend on when done-callbacks ran are not compared)
            for ye in (2, 3):
                v2, _ = check_history(h, loop, yield_every=ye)
                if v2 and v2.get("class") != "harness":
                    v2["yield_every"] = ye
                    v = v2
                    break
        steps += len(io)
        if any(e[0] in ("F", "C", "D") and e[4] for e in h):
            nontriv += 1
        for i, a in enumerate(io):
            b = mo[i] if i < len(mo) else "<none>"
            a2 = "ERR" if a.startswith("EXC:") else a
            if a2 != b:
                if len(res.disagreements) < 20:
                    res.disagreements.append({"kind": kind, "history": hist_str(h[:i + 1]), "step": i, "impl": a, "model": b})
                break
        # the reference, three ways
        interesting = False
        prev = None
        for i, (sp, im) in enumerate(refs):
            c = ro[i] if i < len(ro) else "<none>"
            rsteps += 1
            if c != sp or c != im:
                if len(ref.disagreements) < 20:
                    ref.disagreements.append({"kind": kind, "history": hist_str(h[:i + 1]), "step": i, "coq_ref": c,
                                              "python_ref": sp, "impl": im,
                                              "differs": "coq-vs-python" if c != sp else "reference-vs-impl"})
                if c == sp and "reference-set" not in vio_seen and not im.startswith("EXC:"):
                    # the proved reference (Coq) and its transcription agree; the real full-id lookup differs: the clause
                    # "lookups contain exactly the objects announced and not since killed or unloaded" fails on this history
                    vio_seen["reference-set"] = {"clause": "the lookups contain exactly the objects announced and not since killed (directly or "
                                                           "through a killed ancestor) or unloaded, where they were last announced (reference set)",
                                                 "class": "reference-set", "history": hist_str(h[:i + 1]), "step": i,
                                                 "event": " ".join(str(x) for x in h[i]), "detail": "reference %s ; implementation %s" % (sp[:300], im[:300])}
                    n_vio["reference-set"] = n_vio.get("reference-set", 0) + 1
                break
            e = h[i]
            if prev is not None and e[0] in ("K", "X"):
                before = _parse_ref(prev)
                after = _parse_ref(sp)
                gone = [f for f in before if f not in after]
                if e[0] == "K":
                    rdist["kills"] += 1
                    rdist["kills_removing_0" if not gone else "kills_removing_1" if len(gone) == 1 else "kills_cascading"] += 1
                    target = [f for f, o in before.items() if o[0] == e[1] and o[1] == e[2]]
                    if gone and not target:
                        rdist["kills_unknown_id_with_victims"] += 1
                    lg = set(before[f][1] for f in gone)
                    if any(o[3] and o[0] == e[1] and o[2] in lg and f not in gone for f, o in before.items()):
                        rdist["kills_sparing_avatar_child"] += 1
                    if len(gone) >= 2 or (gone and not target):
                        interesting = True
                elif gone:
                    rdist["teardowns_removing"] += 1
            prev = sp
        if interesting:
            rnontriv += 1
        if v and v.get("class") != "harness":
            cls = vclass(v)
            n_vio[cls] = n_vio.get(cls, 0) + 1
            if cls not in vio_seen:
                vio_seen[cls] = shrink(h, loop, v)
        elif v:
            res.disagreements.append(v)
    # defects outside the known classes first: they are the ones a replay file should show
    res.impl_violations = [vio_seen[c] for c in sorted(vio_seen, key=lambda c: (c != "unclassified", c))]
    res.evaluations = steps
    res.distinct_nontrivial = nontriv
    res.distribution = dict(dist, histories=len(uniq), exhaustive_complete=complete, violating_histories_by_class=n_vio)
    res.exhaustive = False
    res.samples = [{"kind": k, "history": s} for k, _, s in uniq[:2] + uniq[len(uniq) // 2:len(uniq) // 2 + 2] + uniq[-2:]]
    ref.evaluations = rsteps
    ref.distinct_nontrivial = rnontriv
    ref.distribution = dict(rdist, histories=len(uniq))
    ref.exhaustive = False
    ref.samples = [{"kind": k, "history": s, "coq_ref_end": (r.split(" | ")[-1] if r else "")}
                   for (k, _, s), r in list(zip(uniq, refm))[-3:]]
    ctx.notes.append(
        "reference-set clause: C14_reference_exact / _set / _local_lookup (Qed, closed) prove that after every history inside "
        "input_full_ok the model's full-id lookup equals ref_set h as a finite map full id -> (region, local id, parent id, "
        "avatar?) and that its local-id lookup is the reference's at(); C14_reference_exact_nokill needs only input_idx_ok for "
        "kill-free histories; ref_set is tied to the code three ways by the 'reference' suite (%d step comparisons: extracted "
        "ref_step = Python Spec = real _fullid_lookup/_region_managers), and Spec is the transcription that generates and judges "
        "every history" % rsteps)
    return [res, ref]


def _parse_ref(sp):
    """'L[f(rR lL pP av) ...] T[..]' -> {f: (r, l, p, avatar?)}"""
    out = {}
    body = sp[2:sp.index("] T[")]
    for tok in body.replace(") ", ")|").split("|"):
        if not tok:
            continue
        f, rest = tok.split("(", 1)
        ws = rest.rstrip(")").split()
        out[int(f)] = (int(ws[0][1:]), int(ws[1][1:]), int(ws[2][1:]), ws[3] == "av")
    return out


def search(ctx, hints):
    loop = _loop()
    try:
        for h in hints:
            d = h.get("disagreement") or h.get("impl_violation")
            if d and d.get("history"):
                v = _violates(parse_hist(d["history"]), loop)
                if v:
                    return shrink(None, loop, v)
        cases, _ = gen_cases(ctx)
        for _kind, h in cases:
            v, _ = check_history(h, loop)
            if v:
                return shrink(None, loop, v)
        return None
    finally:
        loop.close()


def replay(ctx, case):
    loop = _loop()
    try:
        h = parse_hist(case["history"])
        if case.get("yield_every"):
            v, _ = check_history(h, loop, yield_every=int(case["yield_every"]))
            return (v is not None), (v or "holds")
        if case.get("class") == "reference-set":
            v, io, refs = check_history(h, loop, want_obs="ref")
            for i, (sp, im) in enumerate(refs):
                if sp != im:
                    return True, {"clause": case.get("clause"), "class": "reference-set", "step": i,
                                  "detail": "reference %s ; implementation %s" % (sp[:300], im[:300])}
            return (v is not None), (v or "holds")
        v, _ = check_history(h, loop)
        return (v is not None), (v or "holds")
    finally:
        loop.close()
