"""C07 - addons cannot duplicate, lose or wedge traffic.

Model: coq/theories/Proxy/{Ownership,Hooks}.v (extracted, run by coq/ocaml/c07_driver.ml).
Implementation side: the real InterceptingLLUDPProxyProtocol + AddonManager + MessageHandler/Event +
ProxiedCircuit, driven through datagram_received() with MockTransport; generated addon objects and
message-handler subscribers perform the behaviours assigned by the case.  Observable per datagram:
the ordered trace of hook/subscriber invocations, ownership-op results, wire packets (original /
copy / PacketAck / proxy chat), swallowed exceptions (logging records), message-logger calls and
escaped exceptions; after the history the remaining subscriptions.

Case (JSON-able):
  {"subs": {"sn": [[sid, oneshot]..], "sw": .., "rn": .., "rw": ..},      # initial subscriptions
   "msgs": [{"kind": "P"|"C"|"R", "ncmd": n, "rel": 0/1, "acks": 0/1,
             "sub": {"<sid>": [pred, beh]},                                # pred in "t","f","x"
             "mods": [[hookset.., hookset_self]..]}]}                     # hookset = [pkt, lludp, rlv]
  beh  = string: ops T D S C M F (uncaught) / t d s c m f (error caught by the addon), then 0 | 1 | x
         F = take() on a message that cannot be deep-copied (an object whose __deepcopy__ raises sits in
         message.meta, as when a packet hook tags packet.meta with a ProxiedRegion): take() raises
  pbeh = "0" | "1" | "x";  missing hook = "-";  rlv = "-" (no hook) or a string of pbeh chars, one per command
"""
from __future__ import annotations

import itertools
import json
import logging
import os

from harness.common.framework import CorrResult

PROP_ID = "C07"
COQ_PROPS = "theories/Props/C07.v"
EXTRACT = ("theories/Extract/ExC07.v", "c07_driver.ml")
TRUSTED = [
    "modelled by hand (Proxy/Ownership.v, Proxy/Hooks.v): Message.take / finalized / queued / dropped, "
    "ProxiedCircuit.prepare_message+send / drop_message guards, Event.notify, MessageHandler.handle, "
    "AddonManager._call_all_addon_hooks/_call_module_hooks/_try_call_hook (swallow_addon_exceptions=True, "
    "the production default), AddonManager.handle_lludp_message (command channel, RLV loop) and the tail of "
    "InterceptingLLUDPProxyProtocol.handle_proxied_packet after deserialisation",
    "a take() that fails in its copy step (own_op TakeFail) is produced in the harness by putting an object whose "
    "__deepcopy__ raises into message.meta for the duration of the real Message.take() call (as a packet hook tagging "
    "packet.meta with a ProxiedRegion would); other ways for take() to fail half-way are not modelled",
    "abstracted: packet-ID rewriting / InjectionTracker (C04), serialisation (C01/C02), ack values (only "
    "'has effective acks'), the content of messages (only a mutation counter); PacketAck originals that the proxy "
    "suppresses because they only ack injected packets (prepare_message returning False) are outside the model",
    "not modelled: async hooks and TaskScheduler coroutines, hot reload (_reload_addons finds nothing to reload in "
    "the harness), AddonManager with swallow_addon_exceptions=False, falsy addon objects, hooks that set "
    "message.packet_id=None or flip the flags by hand, handle_region_changed/handle_circuit_created hooks "
    "(AgentMovementComplete / UseCircuitCode packets), UDP-banned message names, exceptions raised by a "
    "truthiness test of a hook's return value",
    "repaired in /repo and followed by the model: d9b7ff1 (command-channel drop only if not finalized), 40d86e5 "
    "(RLV chat with an empty command list is not claimed), 03e3597 (tail drop only if not finalized); the old failing "
    "inputs are corpus/C07/01-04 and the oracle classes command-channel-drop-unguarded / "
    "rlv-empty-command-list-swallowed / exception-escapes-handle-proxied-packet would flag them again",
    "noted, not repaired, not a violation of C07's clauses: two handled RLV commands in one chat make the proxy call "
    "drop_message twice inside its own try/except (C07_rlv_double_drop_trips_guard)",
    "Event.notify evaluates a subscriber's predicate outside its try/except: a raising predicate aborts the "
    "remaining subscribers of that MessageHandler for this message (modelled as coded; isolation is proved for "
    "hook/subscriber bodies, and shown not to extend to predicates: C07_isolation_predicate_refuted)",
]

OPS = "TDSCMF"
HANDLERS = ("sn", "sw", "rn", "rw")
HID = {"sn": "a", "sw": "b", "rn": "c", "rw": "d"}
CMD_TEXT = "xyzzy7 arg"
PLAIN_TEXT = "hello"
COPY_TEXT = "COPY"
BIG_ACK = 100000


# --------------------------------------------------------------------------
# case <-> driver line

def enc_subs(lst):
    return ",".join("%d%s" % (sid, "o" if os_ else "") for sid, os_ in lst)


def enc_hookset(hs):
    pkt, lludp, rlv = hs
    return "%s.%s.%s" % (pkt, lludp, rlv)


def enc_msg(m):
    head = "%s,%d,%d,%d" % (m["kind"], m.get("ncmd", 0), int(m["rel"]), int(m["acks"]))
    sub = ",".join("%s:%s:%s" % (sid, pb[0], pb[1]) for sid, pb in sorted(m.get("sub", {}).items(), key=lambda kv: int(kv[0])))
    mods = "|".join("+".join(enc_hookset(hs) for hs in mod) for mod in m.get("mods", []))
    return head + ";" + sub + ";" + mods


def enc_case(case):
    s = case.get("subs", {})
    return "/".join(enc_subs(s.get(h, [])) for h in HANDLERS) + "#" + "#".join(enc_msg(m) for m in case["msgs"])


# --------------------------------------------------------------------------
# implementation runner

class _Env:
    """process-wide pieces that are expensive or global (event loop, logging capture)"""
    inst = None

    def __init__(self):
        import asyncio
        self.loop = asyncio.new_event_loop()
        asyncio.set_event_loop(self.loop)
        self.trace = None
        self.handler = _Capture(self)
        root = logging.getLogger()
        root.addHandler(self.handler)
        self.old_level = root.level
        root.setLevel(logging.ERROR)
        # silence stderr output of the 'last resort' handler
        self.old_last = logging.lastResort
        logging.lastResort = None

    @classmethod
    def get(cls):
        if cls.inst is None:
            cls.inst = _Env()
        return cls.inst

    @classmethod
    def close(cls):
        env = cls.inst
        if env is None:
            return
        cls.inst = None
        import asyncio
        root = logging.getLogger()
        root.removeHandler(env.handler)
        root.setLevel(env.old_level)
        logging.lastResort = env.old_last
        try:
            for t in asyncio.all_tasks(env.loop):
                t.cancel()
            env.loop.run_until_complete(asyncio.sleep(0))
        except Exception:
            pass
        try:
            env.loop.close()
        except Exception:
            pass
        asyncio.set_event_loop(None)


class _Capture(logging.Handler):
    def __init__(self, env):
        super().__init__(level=logging.ERROR)
        self.env = env

    def emit(self, record):
        tr = self.env.trace
        if tr is None or not record.exc_info:
            return
        try:
            msg = record.getMessage()
        except Exception:
            msg = str(record.msg)
        if msg.startswith("Exploded in"):
            tr.append("Xh")
        elif msg.startswith("Failed in handler for"):
            tr.append("Xs")
        elif msg.startswith("Failed in session message handler"):
            tr.append("Xms")
        elif msg.startswith("Failed in region message handler"):
            tr.append("Xmr")
        elif msg.startswith("Failed while handling command"):
            tr.append("Xr")
        elif msg.startswith("Barfed while handling UDP packet"):
            pass        # recorded as the escaped exception itself
        else:
            tr.append("X?" + msg[:40].replace(" ", "_"))


class _Transport:
    """MockTransport-compatible sink that classifies what is put on the wire"""

    def __init__(self, world):
        from hippolyzer.lib.base.test_utils import MockTransport
        self.world = world
        self.inner = MockTransport()

    def send_packet(self, packet):
        self.inner.send_packet(packet)
        self.world.trace.append(self.world.classify_wire(packet.data))

    def __getattr__(self, name):
        return getattr(self.inner, name)


class _Logger:
    paused = False

    def __init__(self, world):
        self.world = world

    def log_lludp_message(self, session, region, message):
        w = self.world
        kind, muts = w.classify_msg(message)
        if kind == "orig":
            w.trace.append("L%d%d%d:%d" % (bool(message.finalized), bool(message.dropped), bool(message.queued), muts))

    def log_http_response(self, flow):
        pass

    def log_eq_event(self, *a, **kw):
        pass


class CopyFails(Exception):
    pass


class Uncopyable:
    """stands for anything that cannot be deep-copied (ProxiedRegion, sockets, locks, ...)"""

    def __deepcopy__(self, memo):
        raise CopyFails("cannot deep-copy this")

    __copy__ = __deepcopy__


def _failing_take(message):
    """the real Message.take() on a message whose free-form meta holds something un-deepcopyable"""
    message.meta["C07Uncopyable"] = Uncopyable()
    try:
        return message.take()
    finally:
        message.meta.pop("C07Uncopyable", None)


class GenAddon:
    """addon object whose hook attributes are (re)assigned per message by the world"""

    def __init__(self, subs=None):
        if subs is not None:
            self.addons = subs

    def __repr__(self):
        return "<GenAddon>"


class World:
    def __init__(self, case):
        from hippolyzer.lib.base.datatypes import UUID
        from hippolyzer.lib.base.message.udpdeserializer import UDPMessageDeserializer
        from hippolyzer.lib.base.message.udpserializer import UDPMessageSerializer
        from hippolyzer.lib.proxy.addons import AddonManager
        from hippolyzer.lib.proxy.lludp_proxy import InterceptingLLUDPProxyProtocol
        from hippolyzer.lib.proxy.sessions import SessionManager
        from hippolyzer.lib.proxy.settings import ProxySettings

        self.env = _Env.get()
        self.case = case
        self.trace = []
        self.cur = None          # current message cfg
        self.client_addr = ("127.0.0.1", 1)
        self.region_addr = ("127.0.0.1", 3)
        self.sm = SessionManager(ProxySettings())
        self.sm.message_logger = _Logger(self)
        self.session = self.sm.create_session({
            "session_id": UUID(int=1), "secure_session_id": UUID(int=2), "agent_id": UUID(int=3),
            "circuit_code": 1234, "sim_ip": self.region_addr[0], "sim_port": self.region_addr[1],
            "region_x": 0, "region_y": 123, "seed_capability": "https://test.localhost:4/foo",
        })
        self.transport = _Transport(self)
        self.protocol = InterceptingLLUDPProxyProtocol(self.client_addr, self.sm)
        self.protocol.transport = self.transport
        self.serializer = UDPMessageSerializer()
        self.deserializer = UDPMessageDeserializer()
        self.session.objects.track_region_objects(123)
        # addons (AddonManager is a class with global state: init() resets it)
        nmods = max([len(m.get("mods", [])) for m in case["msgs"]] + [0])
        shape = [0] * nmods
        for m in case["msgs"]:
            for i, mod in enumerate(m.get("mods", [])):
                shape[i] = max(shape[i], len(mod) - 1)
        self.mod_objs = []
        for n in shape:
            subs = [GenAddon() for _ in range(n)]
            self.mod_objs.append((GenAddon(subs), subs))
        AddonManager.init([], self.sm, addon_objects=[mo for mo, _ in self.mod_objs])
        # circuit (as BaseProxyTest._setup_default_circuit)
        region = self.session.regions[-1]
        self.region = region
        self.protocol.session = self.session
        self.protocol.far_to_near_map[region.circuit_addr] = self.client_addr
        self.sm.claim_session(self.session.id)
        self.session.open_circuit(self.client_addr, region.circuit_addr, self.transport)
        self.session.main_region = region
        # subscriptions
        self.events = {}
        self.handlers_by_sid = {}
        for h in HANDLERS:
            mh = self.session.message_handler if h[0] == "s" else region.message_handler
            self.events[h] = (mh, h)
        self.sub_names = {}
        self.next_pid = 10

    # ---- subscriptions
    def subscribe_initial(self, name_out, name_in):
        # named subscriptions are registered for both message names used by the harness
        subs = self.case.get("subs", {})
        for h in HANDLERS:
            mh, _ = self.events[h]
            for sid, one_shot in subs.get(h, []):
                # the same sid listed twice = the SAME handler object subscribed twice (Event keys registrations by
                # (handler, args, kwargs): unsubscribe removes all of them, a second unsubscribe raises ValueError)
                fn = self.handlers_by_sid[(h, sid)][0] if (h, sid) in self.handlers_by_sid else self._make_sub(h, sid)
                pred = self._make_pred(sid)
                self.handlers_by_sid[(h, sid)] = (fn, bool(one_shot))
                if h[1] == "w":
                    mh.register("*").subscribe(fn, one_shot=bool(one_shot), predicate=pred)
                else:
                    # one Event per message name: a named subscriber listens to the name of the
                    # first message of the history that it sees; to keep one subscription == one
                    # Event entry we subscribe it to a single shared alias Event object
                    ev = mh.register(name_out)
                    mh.handlers[name_in] = ev
                    ev.subscribe(fn, one_shot=bool(one_shot), predicate=pred)

    def remaining_subs(self, name_out):
        out = []
        for h in HANDLERS:
            mh, _ = self.events[h]
            ev = mh.handlers.get("*" if h[1] == "w" else name_out)
            cur = []
            if ev is not None:
                rev = {id(fn): (sid, os_) for (hh, sid), (fn, os_) in self.handlers_by_sid.items() if hh == h}
                for tup in ev.subscribers:
                    if id(tup[0]) in rev:
                        cur.append((rev[id(tup[0])][0], bool(tup[3])))
            out.append(enc_subs(cur))
        return "/".join(out)

    def _make_pred(self, sid):
        def pred(message):
            p = self.cur.get("sub", {}).get(str(sid), ["t", "0"])[0]
            if p == "x":
                raise KeyError("predicate of subscriber %d" % sid)
            return p == "t"
        return pred

    def _make_sub(self, h, sid):
        def handler(message):
            self.trace.append("U%s%d" % (HID[h], sid))
            beh = self.cur.get("sub", {}).get(str(sid), ["t", "0"])[1]
            return self.run_beh(beh, message)
        return handler

    # ---- behaviours
    def run_beh(self, beh, message):
        from hippolyzer.lib.base.message.msgtypes import PacketFlags
        import copy
        circuit = self.region.circuit
        for ch in beh[:-1]:
            op = ch.upper()
            caught = ch.islower()
            try:
                if op == "T":
                    message.take()
                elif op == "D":
                    circuit.drop_message(message)
                elif op == "S":
                    circuit.send(message)
                elif op == "C":
                    c = copy.deepcopy(message)
                    c.acks = tuple()
                    c.send_flags &= ~PacketFlags.ACK
                    c.packet_id = None
                    c.dropped = False
                    c.finalized = False
                    c.queued = False
                    c["ChatData"]["Message"] = COPY_TEXT
                    circuit.send(c)
                elif op == "M":
                    f = self.mut_field(message)
                    message["ChatData"][f] = int(message["ChatData"][f]) + 1
                elif op == "F":
                    _failing_take(message)
                self.trace.append("o%s1" % op)
            except (RuntimeError, CopyFails):
                self.trace.append("o%s0" % op)
                if not caught:
                    raise
        t = beh[-1]
        if t == "x":
            raise ValueError("addon failure")
        if t == "1":
            return self.truthy()
        return self.falsy()

    def truthy(self):
        self._tv = getattr(self, "_tv", 0) + 1
        return (True, 1, "yes", [0], object())[self._tv % 5]

    def falsy(self):
        self._fv = getattr(self, "_fv", 0) + 1
        return (None, False, 0, "", [])[self._fv % 5]

    @staticmethod
    def mut_field(message):
        return "Type" if message.name == "ChatFromViewer" else "Audible"

    # ---- classification
    def classify_msg(self, msg):
        if msg.name == "PacketAck":
            return "ack", 0
        if msg.name not in ("ChatFromViewer", "ChatFromSimulator"):
            return "other:" + msg.name, 0
        cd = msg["ChatData"]
        text = cd["Message"]
        if isinstance(text, bytes):
            text = text.decode("utf8", "replace")
        text = str(text).rstrip("\x00")
        if msg.name == "ChatFromSimulator" and str(cd["FromName"]).rstrip("\x00") == "Hippolyzer":
            return "chat", 0
        if text == COPY_TEXT:
            return "copy", 0
        return "orig", int(cd[self.mut_field(msg)])

    def classify_wire(self, data):
        try:
            msg = self.deserializer.deserialize(data)
            kind, muts = self.classify_msg(msg)
        except Exception as e:     # pragma: no cover
            return "W?" + type(e).__name__
        if kind == "orig":
            return "O%d" % muts
        return {"copy": "C", "ack": "A", "chat": "Q"}.get(kind, "W?" + kind)

    # ---- hooks
    def install_hooks(self, mcfg):
        mods = mcfg.get("mods", [])
        for mi, (mo, subs) in enumerate(self.mod_objs):
            mod = mods[mi] if mi < len(mods) else [["-", "-", "-"]]
            sub_cfgs, self_cfg = mod[:-1], mod[-1]
            for si, so in enumerate(subs):
                self._set_hooks(so, mi, str(si), sub_cfgs[si] if si < len(sub_cfgs) else ["-", "-", "-"])
            self._set_hooks(mo, mi, "s", self_cfg)

    def _set_hooks(self, obj, mi, si, hs):
        pkt, lludp, rlv = hs
        for name in ("handle_proxied_packet", "handle_lludp_message", "handle_rlv_command"):
            if name in obj.__dict__:
                delattr(obj, name)
        world = self
        if pkt != "-":
            def handle_proxied_packet(session_manager, packet, session, region, _b=pkt):
                world.trace.append("Hp%d.%s" % (mi, si))
                return world.run_beh(_b, None)
            obj.handle_proxied_packet = handle_proxied_packet
        if lludp != "-":
            def handle_lludp_message(session, region, message, _b=lludp):
                world.trace.append("Hl%d.%s" % (mi, si))
                return world.run_beh(_b, message)
            obj.handle_lludp_message = handle_lludp_message
        if rlv != "-":
            def handle_rlv_command(session, region, source, behaviour, options, param, _r=rlv):
                ci = int(behaviour[1:])
                b = _r[ci] if ci < len(_r) else "0"
                world.trace.append("Hr%d:%d.%s" % (ci, mi, si))
                return world.run_beh(b, None)
            obj.handle_rlv_command = handle_rlv_command

    # ---- messages
    def build_datagram(self, mcfg):
        from hippolyzer.lib.base.datatypes import UUID, Vector3
        from hippolyzer.lib.base.message.message import Block, Message
        from hippolyzer.lib.base.message.msgtypes import PacketFlags
        from hippolyzer.lib.base.network.transport import Direction, UDPPacket
        from hippolyzer.lib.proxy.transport import SOCKS5UDPTransport
        kind = mcfg["kind"]
        flags = int(PacketFlags.RELIABLE) if mcfg["rel"] else 0
        if mcfg["acks"]:
            flags |= int(PacketFlags.ACK)
        acks = (BIG_ACK + self.next_pid,) if mcfg["acks"] else None
        outgoing = kind in ("C", "P") and not mcfg.get("inbound")
        self.next_pid += 1
        if mcfg.get("resent"):
            flags |= int(PacketFlags.RESENT)
        if mcfg.get("pid") is not None:
            # an explicit packet id: the two directions of a circuit number their packets independently, so the same id
            # legitimately occurs once per direction
            saved_next, self.next_pid = self.next_pid, int(mcfg["pid"])
            try:
                return self._build_datagram(mcfg, kind, flags, acks, outgoing)
            finally:
                self.next_pid = saved_next
        return self._build_datagram(mcfg, kind, flags, acks, outgoing)

    def _build_datagram(self, mcfg, kind, flags, acks, outgoing):
        from hippolyzer.lib.base.datatypes import UUID, Vector3
        from hippolyzer.lib.base.message.message import Block, Message
        from hippolyzer.lib.base.network.transport import Direction, UDPPacket
        from hippolyzer.lib.proxy.transport import SOCKS5UDPTransport
        if outgoing:
            msg = Message(
                "ChatFromViewer",
                Block("AgentData", AgentID=self.session.agent_id, SessionID=self.session.id),
                Block("ChatData", Message=CMD_TEXT if kind == "C" else PLAIN_TEXT, Type=0,
                      Channel=524 if kind == "C" else 0),
                packet_id=self.next_pid, flags=flags, acks=acks, direction=Direction.OUT)
            pkt = UDPPacket(src_addr=self.client_addr, dst_addr=self.region_addr,
                            data=self.serializer.serialize(msg), direction=Direction.OUT)
            return SOCKS5UDPTransport.serialize(pkt, force_socks_header=True), self.client_addr
        if kind == "R":
            text = "@" + ",".join("c%d=n" % i for i in range(mcfg.get("ncmd", 0)))
            chat_type = 8
        else:
            text, chat_type = PLAIN_TEXT, 1
        msg = Message(
            "ChatFromSimulator",
            Block("ChatData", FromName="Someone", SourceID=UUID(int=9), OwnerID=UUID(int=9), SourceType=2,
                  ChatType=chat_type, Audible=0, Position=Vector3(), Message=text),
            packet_id=self.next_pid, flags=flags, acks=acks, direction=Direction.IN)
        return self.serializer.serialize(msg), self.region_addr

    def run(self):
        """returns list of per-message traces + final subscription string"""
        self.env.trace = self.trace
        out = []
        try:
            self.subscribe_initial("ChatFromViewer", "ChatFromSimulator")
            self.wait_futs = []
            for wcfg in self.case.get("waits", []):
                mh = self.session.message_handler if wcfg["h"] == "s" else self.region.message_handler
                self.wait_futs.append(mh.wait_for(tuple(wcfg["names"]), take=bool(wcfg["take"]), timeout=None))
            for mcfg in self.case["msgs"]:
                self.cur = mcfg
                self.install_hooks(mcfg)
                del self.trace[:]
                data, src = self.build_datagram(mcfg)
                try:
                    self.protocol.datagram_received(data, src)
                except Exception as e:
                    self.trace.append("E")
                    self.trace.append("!" + type(e).__name__)
                out.append(list(self.trace))
            subs = self.remaining_subs("ChatFromViewer")
        finally:
            self.env.trace = None
            try:
                self.protocol.resend_task.cancel()
            except Exception:
                pass
            self.protocol.session = None
            # let the cancelled resend task finish so that nothing keeps the world alive
            try:
                import asyncio
                self.env.loop.run_until_complete(asyncio.sleep(0))
            except Exception:
                pass
        return out, subs


def run_impl(case):
    try:
        traces, subs = World(case).run()
    except Exception as e:
        import traceback
        return "EXC:%s:%s" % (type(e).__name__, traceback.format_exc()[-300:].replace("\n", " | ")), []
    line = " ; ".join(" ".join(t for t in tr if not t.startswith("!")) for tr in traces) + " ;; " + subs
    return line, traces


# --------------------------------------------------------------------------
# message-level ownership sequences on a bare ProxiedCircuit (no proxy, no addons)

def run_ops_impl(rel, acks, ops):
    """apply ops (string over TDSCM) to one real Message on a real ProxiedCircuit; -> 'oks wire flags'"""
    import copy
    from hippolyzer.lib.base.message.message import Block, Message
    from hippolyzer.lib.base.message.msgtypes import PacketFlags
    from hippolyzer.lib.base.network.transport import Direction
    from hippolyzer.lib.base.test_utils import MockTransport
    from hippolyzer.lib.proxy.circuit import ProxiedCircuit
    tr = MockTransport()
    circuit = ProxiedCircuit(("127.0.0.1", 1), ("127.0.0.1", 3), tr)
    flags = (int(PacketFlags.RELIABLE) if rel else 0) | (int(PacketFlags.ACK) if acks else 0)
    msg = Message("ChatFromViewer", Block("AgentData", AgentID=None, SessionID=None),
                  Block("ChatData", Message=PLAIN_TEXT, Type=0, Channel=0),
                  packet_id=7, flags=flags, acks=(BIG_ACK,) if acks else None, direction=Direction.OUT)
    from hippolyzer.lib.base.datatypes import UUID
    msg["AgentData"]["AgentID"] = UUID(int=3)
    msg["AgentData"]["SessionID"] = UUID(int=1)
    oks = []
    wire = []
    seen = 0
    from hippolyzer.lib.base.message.udpdeserializer import UDPMessageDeserializer
    deser = _DESER[0] if _DESER else UDPMessageDeserializer()
    if not _DESER:
        _DESER.append(deser)
    for op in ops:
        try:
            if op == "T":
                msg.take()
            elif op == "D":
                circuit.drop_message(msg)
            elif op == "S":
                circuit.send(msg)
            elif op == "C":
                c = copy.deepcopy(msg)
                c.acks = tuple()
                c.send_flags &= ~PacketFlags.ACK
                c.packet_id = None
                c.dropped = c.finalized = c.queued = False
                c["ChatData"]["Message"] = COPY_TEXT
                circuit.send(c)
            elif op == "M":
                msg["ChatData"]["Type"] = int(msg["ChatData"]["Type"]) + 1
            elif op == "F":
                _failing_take(msg)
            oks.append("1")
        except (RuntimeError, CopyFails):
            oks.append("0")
        except Exception as e:
            oks.append("EXC:" + type(e).__name__)
        for data, _ in tr.packets[seen:]:
            m = deser.deserialize(data)
            if m.name == "PacketAck":
                wire.append("A")
            elif str(m["ChatData"]["Message"]).rstrip("\x00") == COPY_TEXT:
                pass            # copies are not output of the message itself
            else:
                wire.append("O")
        seen = len(tr.packets)
    return "%s %s %d%d%d" % ("".join(oks), "".join(wire), bool(msg.finalized), bool(msg.dropped), bool(msg.queued))


_DESER = []


# --------------------------------------------------------------------------
# case helpers

def H(pkt="-", lludp="-", rlv="-"):
    return [pkt, lludp, rlv]


def calm_beh(b):
    """Hooks.calm: raise -> falsy return; a caught failing take is removed, an uncaught one ends the hook"""
    out = ""
    for ch in b[:-1]:
        if ch == "F":
            return out + "0"
        if ch == "f":
            continue
        out += ch
    return out + ("0" if b[-1] == "x" else b[-1])


def calm_case(case):
    c = json.loads(json.dumps(case))
    for m in c["msgs"]:
        for sid, pb in m.get("sub", {}).items():
            pb[1] = calm_beh(pb[1])
        for mod in m.get("mods", []):
            for hs in mod:
                if hs[0] != "-":
                    hs[0] = calm_beh(hs[0])
                if hs[1] != "-":
                    hs[1] = calm_beh(hs[1])
                if hs[2] != "-":
                    hs[2] = hs[2].replace("x", "0")
    return c


def has_raise(case):
    for m in case["msgs"]:
        for pb in m.get("sub", {}).values():
            if pb[1].endswith("x") or "F" in pb[1] or "f" in pb[1]:
                return True
        for mod in m.get("mods", []):
            for hs in mod:
                if hs[1] != "-" and ("F" in hs[1] or "f" in hs[1]):
                    return True
                if hs[0] == "x" or (hs[1] != "-" and hs[1].endswith("x")) or (hs[2] != "-" and "x" in hs[2]):
                    return True
    return False


def beh_claims(b):
    return any(ch in "TDtd" for ch in b[:-1])


def msg_unclaimed(m):
    """the property's notion of 'nobody claimed the message' (syntactic): not the command channel,
    no take/drop anywhere, no truthy return from a packet / lludp / rlv hook"""
    if m["kind"] == "C":
        return False
    for pb in m.get("sub", {}).values():
        if beh_claims(pb[1]):
            return False
    for mod in m.get("mods", []):
        for hs in mod:
            if hs[0] == "1":
                return False
            if hs[1] != "-" and (beh_claims(hs[1]) or hs[1].endswith("1")):
                return False
            if hs[2] != "-" and "1" in hs[2]:
                return False
    return True


def pkt_claimed(m):
    for mod in m.get("mods", []):
        for hs in mod:
            if hs[0] == "1":
                return True
    return False


def strip_exc(line):
    return " ".join(t for t in line.split(" ") if not t.startswith("X") and not t.startswith("oF"))


def check_trace(m, toks):
    """clauses of C07 that can be read off one datagram's trace; returns list of (clause, class)"""
    out = []
    n_orig = sum(1 for t in toks if t.startswith("O"))
    n_dropok = toks.count("oD1")
    if n_orig > 1:
        out.append(("original put on the wire at most once", "duplicate-send"))
    if n_orig + n_dropok > 1:
        out.append(("a sent or dropped message can never be sent or dropped again", "resurrection"))
    fin = None
    for i, t in enumerate(toks):
        if t.startswith("O") or t == "oD1":
            fin = i
            break
    if fin is not None:
        if toks[fin].startswith("O") and fin + 1 < len(toks) and toks[fin + 1] == "oS1":
            fin += 1        # the addon's own send: wire event, then the op's success record
        for t in toks[fin + 1:]:
            if t.startswith("O") or t in ("A", "oS1", "oD1"):
                out.append(("no send/drop/ack emission after the message was finalized", "resurrection"))
                break
    if "E" in toks:
        cls = "command-channel-drop-unguarded" if m["kind"] == "C" else "exception-escapes-handle-proxied-packet"
        out.append(("no exception escapes handle_proxied_packet (the proxy never trips its own guard)", cls))
    claimed_pkt = pkt_claimed(m)
    n_log = sum(1 for t in toks if t.startswith("L"))
    if not claimed_pkt and n_log != 1 and "E" not in toks:
        out.append(("message logger runs exactly once per proxied message", "logger-skipped"))
    if not claimed_pkt and "E" in toks and n_log != 1:
        out.append(("message logger runs even though an addon/subscriber misbehaved",
                    "command-channel-drop-unguarded" if m["kind"] == "C" else "logger-skipped"))
    if ("Xms" in toks or "Xmr" in toks) and not any(pb[0] == "x" for pb in m.get("sub", {}).values()):
        # MessageHandler.handle raised although no subscriber predicate raises (handler bodies are inside Event.notify's
        # try/except): the event machinery itself aborted the notification, so the remaining subscribers were skipped
        out.append(("one subscriber's behaviour (return value, registrations) never stops the other subscribers from being notified",
                    "notify-aborted"))
    if msg_unclaimed(m) and n_orig != 1:
        cls = "rlv-empty-command-list-swallowed" if (m["kind"] == "R" and m.get("ncmd", 0) == 0) else "unclaimed-message-lost"
        out.append(("exactly once unless an addon or the command channel claimed it", cls))
    return out


def check_case(case, impl_line=None, traces=None):
    """C07's statement evaluated on the implementation for one case.  Returns list of violation dicts."""
    if impl_line is None:
        impl_line, traces = run_impl(case)
    vio = []
    if impl_line.startswith("EXC:"):
        return [{"clause": "harness could run the case", "class": "harness-exception", "detail": impl_line[:300],
                 "case": case, "line": enc_case(case)}]
    for i, (m, toks) in enumerate(zip(case["msgs"], traces)):
        toks = [t for t in toks if not t.startswith("!")]
        for clause, cls in check_trace(m, toks):
            vio.append({"clause": clause, "class": cls, "msg_index": i, "trace": " ".join(toks),
                        "case": case, "line": enc_case(case)})
    if has_raise(case) and not any(v["class"] != "x" and "E" in v["trace"].split(" ") for v in vio):
        calm_line, _ = run_impl(calm_case(case))
        if strip_exc(calm_line) != strip_exc(impl_line):
            vio.append({"clause": "a raise in a hook/subscriber changes nothing but the exception log "
                                  "(same hooks run, same logging, same forwarding as a falsy return)",
                        "class": "isolation", "trace": impl_line, "calmed_trace": calm_line,
                        "case": case, "line": enc_case(case)})
    # de-duplicate per class
    seen, res = set(), []
    for v in vio:
        k = (v["class"], v.get("msg_index"))
        if k not in seen:
            seen.add(k)
            res.append(v)
    return res


# --------------------------------------------------------------------------
# generators

B7 = ["0", "1", "x", "T1", "D0", "C0", "M0", "F1"]
B9 = B7 + ["S0", "f0", "-"]
SHAPES = [("P", 0, 0, 0, 0), ("P", 0, 1, 1, 1), ("C", 0, 1, 0, 0), ("R", 1, 1, 0, 0), ("R", 2, 0, 1, 0), ("R", 0, 1, 0, 0)]


def mk_msg(shape, **kw):
    kind, ncmd, rel, acks, inbound = shape
    m = {"kind": kind, "ncmd": ncmd, "rel": rel, "acks": acks}
    if inbound:
        m["inbound"] = 1
    m.update(kw)
    return m


def corpus_cases():
    d = os.path.join(os.path.dirname(os.path.dirname(os.path.dirname(os.path.abspath(__file__)))), "corpus", "C07")
    out = []
    if os.path.isdir(d):
        for f in sorted(os.listdir(d)):
            if f.endswith(".json"):
                data = json.load(open(os.path.join(d, f)))
                for c in (data if isinstance(data, list) else [data]):
                    out.append(("corpus", c.get("case", c)))
    return out


def gen_exhaustive(ctx):
    th = ctx.thorough
    # A: two addon objects x lludp behaviours x shapes
    for shape in SHAPES[:4] if not th else SHAPES:
        for a, b in itertools.product(B9, B9):
            yield "exh-2addons", {"msgs": [mk_msg(shape, mods=[[H("0", a)], [H("-", b)]])]}
    # B: one named session subscriber x one addon
    for shape in SHAPES:
        for rel, acks in ((0, 0), (1, 1)):
            sh = (shape[0], shape[1], rel, acks, shape[4])
            for s, a in itertools.product(B9[:-1], B9):
                yield "exh-sub+addon", {"subs": {"sn": [[1, 0]]},
                                        "msgs": [mk_msg(sh, sub={"1": ["t", s]}, mods=[[H("-", a)]])]}
    # C: packet hooks
    for shape in (SHAPES[0], SHAPES[1]):
        for a, b in itertools.product("-01x", repeat=2):
            yield "exh-pkt", {"msgs": [mk_msg(shape, mods=[[H(a, "0")], [H(b, "M0")]])]}
    # D: RLV, two commands, two addons
    R2 = ["-"] + ["".join(p) for p in itertools.product("01x", repeat=2)]
    for a, b in itertools.product(R2, R2):
        for l in ("0", "1", "D0"):
            yield "exh-rlv", {"msgs": [mk_msg(("R", 2, 1, 0, 0), mods=[[H("-", "0", a)], [H("-", l, b)]])]}
    # E: a module with two sub-addons
    B5 = ["0", "1", "x", "T1", "D0", "F1"] + (["C0", "M0", "S0", "f0", "-"] if th else [])
    for shape in (SHAPES[0], SHAPES[1]):
        for a, b, c in itertools.product(B5, repeat=3):
            yield "exh-subaddons", {"msgs": [mk_msg(shape, mods=[[H("-", a), H("-", b), H("-", c)]])]}
    # F: two subscribers (second one-shot), predicates, followed by a plain message (persistence)
    for hname in (("sn", "rw") if not th else HANDLERS):
        for p in "tfx":
            for a, b in itertools.product(B7, B7):
                yield "exh-subs", {"subs": {hname: [[1, 0], [2, 1]]},
                                   "msgs": [mk_msg(SHAPES[1], sub={"1": [p, a], "2": ["t", b]}),
                                            mk_msg(SHAPES[0], sub={"1": ["t", "M0"], "2": ["t", "M0"]})]}
    # F2: the same handler subscribed twice (also once one-shot, also around another subscriber): a truthy return unsubscribes
    #     every registration, the second registration's own unsubscribe then fails inside Event.notify and must stay there
    for hname in (("sn", "rw") if not th else HANDLERS):
        for lst in ([[1, 0], [1, 0]], [[1, 0], [2, 0], [1, 0]], [[1, 0], [1, 1]], [[1, 1], [1, 0], [2, 0]], [[1, 1], [1, 1]]):
            for a, b in itertools.product(B7, ("0", "1", "T0", "x")):
                yield "exh-dupsub", {"subs": {hname: lst},
                                     "msgs": [mk_msg(SHAPES[1], sub={"1": ["t", a], "2": ["t", b]}),
                                              mk_msg(SHAPES[0], sub={"1": ["t", "M0"], "2": ["t", "M0"]})]}
    # G: every sequence of ownership operations by one addon (errors caught so the sequence goes on),
    #    from a fresh message and from a message a subscriber already took
    L = ctx.pick(3, 5)
    for n in range(1, L + 1):
        for ops in itertools.product("tdscmf", repeat=n):
            seq = "".join(ops) + "0"
            yield "exh-opseq", {"msgs": [mk_msg(SHAPES[1], mods=[[H("-", seq)]])]}
            if n <= L - 1:
                yield "exh-opseq", {"subs": {"sw": [[1, 0]]},
                                    "msgs": [mk_msg(SHAPES[1], sub={"1": ["t", "T0"]}, mods=[[H("-", seq)]])]}


def rand_beh(rng, maxops=4):
    n = rng.choice((0, 0, 1, 1, 2, 3, maxops))
    ops = "".join(rng.choice("TDSCMFtdscmf") for _ in range(n))
    return ops + rng.choice("0001x")


def rand_case(rng, big=False):
    nmods = rng.choice((0, 1, 1, 2, 2, 3))
    shape = [rng.choice((0, 0, 1, 2)) for _ in range(nmods)]
    subs = {}
    sid = 1
    for h in HANDLERS:
        lst = []
        for _ in range(rng.choice((0, 0, 1, 2))):
            lst.append([sid, rng.choice((0, 0, 1))])
            sid += 1
        if lst and rng.random() < 0.12:
            lst.insert(rng.randrange(len(lst) + 1), [rng.choice(lst)[0], rng.choice((0, 0, 1))])   # same handler twice
        if lst:
            subs[h] = lst
    msgs = []
    for _ in range(rng.choice((1, 1, 2, 3, 4 if big else 3))):
        kind = rng.choice("PPPCR")
        ncmd = rng.choice((0, 1, 1, 2, 3)) if kind == "R" else 0
        m = {"kind": kind, "ncmd": ncmd, "rel": rng.choice((0, 1)), "acks": rng.choice((0, 0, 1))}
        if kind == "P" and rng.random() < 0.5:
            m["inbound"] = 1
        sub = {}
        for s in range(1, sid):
            if rng.random() < 0.85:
                sub[str(s)] = [rng.choice("tttttfx"), rand_beh(rng)]
        if sub:
            m["sub"] = sub
        mods = []
        for n in shape:
            mod = []
            for _ in range(n + 1):
                pkt = rng.choice("---0000x1") if rng.random() < 0.9 else "1"
                lludp = "-" if rng.random() < 0.15 else rand_beh(rng)
                rlv = "-" if rng.random() < 0.4 else "".join(rng.choice("0011x") for _ in range(ncmd if rng.random() < 0.8 else max(0, ncmd - 1)))
                mod.append(H(pkt, lludp, rlv))
            mods.append(mod)
        m["mods"] = mods
        msgs.append(m)
    c = {"msgs": msgs}
    if subs:
        c["subs"] = subs
    return c


def gen_cases(ctx):
    for k, c in corpus_cases():
        yield k, c
    for k, c in gen_exhaustive(ctx):
        yield k, c
    for _ in range(ctx.pick(1200, 25000)):
        yield "random-history", rand_case(ctx.rng, ctx.thorough)


def nontrivial(case):
    """at least one hook or subscriber does something other than return a falsy value, or a special kind"""
    for m in case["msgs"]:
        if m["kind"] != "P":
            return True
        for pb in m.get("sub", {}).values():
            if pb[1] != "0" or pb[0] != "t":
                return True
        for mod in m.get("mods", []):
            for hs in mod:
                if hs[0] not in "-0" or hs[1] not in ("-", "0") or (hs[2] != "-" and hs[2].strip("0")):
                    return True
    return False


# --------------------------------------------------------------------------
# framework entry points

def suite_waits(ctx):
    """MessageHandler.wait_for (the helper addons use to await a reply) on SEVERAL message names: the waiter may claim the first
    matching message (take=True) and nothing else - every other message, before or after, of any of the names, is put on the
    wire exactly once; with take=False it claims nothing.  Impl-level oracle on the real proxy (no model)."""
    res = CorrResult(suite="wait_for on several message names: only the awaited message may be claimed (impl-level oracle)",
                     rule="session- or region-level wait_for on {ChatFromViewer, ChatFromSimulator} or one of them, take True/False, "
                          "0..2 waiters, followed by every sequence of 1..4 plain datagrams of the two names: per datagram the number "
                          "of times the original reaches the wire; a waiter may claim only the first datagram that matches it")
    names_all = ("ChatFromViewer", "ChatFromSimulator")
    n = nt = 0
    seen = set()
    wsets = [[]]
    for h in ("s", "r"):
        for nm in (list(names_all), [names_all[0]], [names_all[1]]):
            for take in (1, 0):
                wsets.append([{"h": h, "names": nm, "take": take}])
    wsets.append([{"h": "s", "names": list(names_all), "take": 1}, {"h": "r", "names": list(names_all), "take": 1}])
    wsets.append([{"h": "s", "names": list(names_all), "take": 1}, {"h": "s", "names": list(names_all), "take": 1}])
    for waits in wsets:
        for k in range(1, ctx.pick(3, 4) + 1):
            for dirs in itertools.product((0, 1), repeat=k):
                msgs = [dict({"kind": "P", "ncmd": 0, "rel": 1, "acks": 0}, **({"inbound": 1} if d else {})) for d in dirs]
                case = {"msgs": msgs, "waits": waits}
                line, traces = run_impl(case)
                n += 1
                if waits:
                    nt += 1
                if line.startswith("EXC:"):
                    if "harness" not in seen:
                        seen.add("harness")
                        res.disagreements.append({"case": case, "impl": line[:300]})
                    continue
                # reference: each waiter claims (if take) the first datagram, in order, that matches its names and is still unclaimed
                pending = [dict(w) for w in waits]
                for i, (d, toks) in enumerate(zip(dirs, traces)):
                    name = names_all[1] if d else names_all[0]
                    claimed = False
                    for w in list(pending):
                        if name in w["names"]:
                            pending.remove(w)
                            if w["take"]:
                                claimed = True
                    n_orig = sum(1 for t in toks if t.startswith("O"))
                    want = 0 if claimed else 1
                    if n_orig != want and "E" not in toks:
                        cls = "waiter-claims-unawaited-message" if n_orig < want else "awaited-message-forwarded-too"
                        if n_orig > 1:
                            cls = "duplicate-send"
                        if cls not in seen:
                            seen.add(cls)
                            res.impl_violations.append({"clause": "exactly once unless an addon or the command channel claimed it (a finished "
                                                                  "wait_for claims nothing further)", "class": cls, "case": case, "msg_index": i,
                                                        "sends": n_orig, "expected": want, "trace": " ".join(toks)})
                        break
    res.evaluations = n
    res.distinct_nontrivial = nt
    return res


def suite_same_id(ctx):
    """the two directions of a circuit number their packets independently: what happened to packet N of one direction (claimed,
    dropped, taken, resent) says nothing about packet N of the other direction, which - unclaimed - is forwarded exactly once"""
    res = CorrResult(suite="same packet id in both directions: an unclaimed message is forwarded whatever happened to its namesake (impl-level oracle)",
                     rule="first a reliable chat in one direction with packet id N handled by an addon behaviour (falsy, drop, take, send, "
                          "raise), then a RELIABLE (+RESENT or not) chat in the OTHER direction with the same id N and no claimer, then the "
                          "first one again as a resend: the second datagram must reach the wire exactly once")
    n = 0
    seen = set()
    for first_in in (0, 1):
        for beh in ("0", "D0", "T0", "S0", "x", "T1"):
            for resent in (0, 1):
                for rel2 in (1, 0):
                    n += 1
                    m1 = {"kind": "P", "ncmd": 0, "rel": 1, "acks": 0, "pid": 4242, "mods": [[["-", beh, "-"]]]}
                    m2 = {"kind": "P", "ncmd": 0, "rel": rel2, "acks": 0, "pid": 4242, "resent": resent, "mods": [[["-", "0", "-"]]]}
                    m3 = dict(m1, resent=1, mods=[[["-", "0", "-"]]])
                    if first_in:
                        m1["inbound"] = 1
                        m3["inbound"] = 1
                    else:
                        m2["inbound"] = 1
                    case = {"msgs": [m1, m2, m3]}
                    line, traces = run_impl(case)
                    if line.startswith("EXC:") or len(traces) < 2:
                        if "harness" not in seen:
                            seen.add("harness")
                            res.disagreements.append({"case": case, "impl": line[:300]})
                        continue
                    toks = [t for t in traces[1] if not t.startswith("!")]
                    n_orig = sum(1 for t in toks if t.startswith("O"))
                    if n_orig != 1 and "same-id-other-direction" not in seen:
                        seen.add("same-id-other-direction")
                        res.impl_violations.append({"clause": "exactly once unless an addon or the command channel claimed it (packet ids are per "
                                                              "direction)", "class": "same-id-other-direction", "case": case, "msg_index": 1,
                                                    "sends": n_orig, "trace": " ".join(toks), "kind": "same-id"})
    res.evaluations = n
    res.distinct_nontrivial = n
    return res


def suite_special(ctx):
    """message types the proxy itself acts on (circuit teardown, handshake, main-region change, group update) are still just
    proxied messages: unclaimed - every hook returns falsy or raises - each is put on the wire exactly once, towards the other
    side; and the datagrams that follow a handshake on the same circuit still are.  Impl-level oracle on the real proxy."""
    from hippolyzer.lib.base.datatypes import UUID
    from hippolyzer.lib.base.message.message import Block, Message
    from hippolyzer.lib.base.network.transport import Direction, UDPPacket
    from hippolyzer.lib.proxy.transport import SOCKS5UDPTransport
    res = CorrResult(suite="messages the proxy acts on itself are still forwarded exactly once when unclaimed (impl-level oracle)",
                     rule="CloseCircuit (out), DisableSimulator / RegionHandshake / AgentMovementComplete / AgentDataUpdate (in), reliable and "
                          "unreliable, with no addon, with an addon whose hooks return falsy, and with one whose hooks raise; then a plain "
                          "chat datagram in each direction where the circuit is expected to survive: number of times each original reaches "
                          "the wire")
    n = 0
    seen = set()
    specials = [("CloseCircuit", 1, []), ("DisableSimulator", 0, []),
                ("RegionHandshake", 0, None), ("AgentMovementComplete", 0, None), ("AgentDataUpdate", 0, None)]
    for name, outbound, blocks in specials:
        for rel in (0, 1):
            for hooks in (None, "0", "x"):
                n += 1
                case = {"msgs": [{"kind": "P", "ncmd": 0, "rel": 0, "acks": 0,
                                  "mods": ([[["-", hooks, "-"]]] if hooks else [])}]}
                try:
                    w = World(case)
                    w.env.trace = w.trace
                    w.cur = case["msgs"][0]
                    w.install_hooks(w.cur)
                    tmpl = w.deserializer.template_dict.get_template_by_name(name) if hasattr(w.deserializer, "template_dict") else None
                    if blocks is None:
                        from hippolyzer.lib.base.message.template_dict import DEFAULT_TEMPLATE_DICT
                        tmpl = DEFAULT_TEMPLATE_DICT.get_template_by_name(name)
                        bl = [Block(b.name, fill_missing=True) for b in tmpl.blocks]
                    else:
                        bl = blocks
                    msg = Message(name, *bl, packet_id=77, flags=0x40 if rel else 0,
                                  direction=Direction.OUT if outbound else Direction.IN)
                    data = w.serializer.serialize(msg)
                    if outbound:
                        pkt = UDPPacket(src_addr=w.client_addr, dst_addr=w.region_addr, data=data, direction=Direction.OUT)
                        data, src = SOCKS5UDPTransport.serialize(pkt, force_socks_header=True), w.client_addr
                    else:
                        src = w.region_addr
                    before = len(w.transport.inner.packets)
                    exc = None
                    try:
                        w.protocol.datagram_received(data, src)
                    except Exception as e:   # noqa
                        exc = type(e).__name__
                    sent = 0
                    for d, dst in w.transport.inner.packets[before:]:
                        try:
                            if w.deserializer.deserialize(d).name == name:
                                sent += 1
                        except Exception:
                            pass
                    w.env.trace = None
                    try:
                        w.protocol.resend_task.cancel()
                        w.protocol.session = None
                        w.env.loop.run_until_complete(__import__("asyncio").sleep(0))
                    except Exception:
                        pass
                except Exception as e:   # noqa
                    if "harness" not in seen:
                        seen.add("harness")
                        res.disagreements.append({"what": "special-message fixture failed", "message": name, "exc": type(e).__name__ + ": " + str(e)[:200]})
                    continue
                if exc is not None or sent != 1:
                    cls = "special-message-" + ("raised" if exc else ("lost" if sent == 0 else "duplicated"))
                    if cls not in seen:
                        seen.add(cls)
                        res.impl_violations.append({"clause": "exactly once unless an addon or the proxy's own command channel claimed it",
                                                    "class": cls, "message": name, "reliable": rel, "hooks": hooks, "sends": sent, "exc": exc,
                                                    "kind": "special"})
    res.evaluations = n
    res.distinct_nontrivial = n
    return res


def correspond(ctx):
    try:
        r = _correspond(ctx)
        return (r if isinstance(r, list) else [r]) + [suite_waits(ctx), suite_special(ctx), suite_same_id(ctx)]
    finally:
        _Env.close()


def _correspond(ctx):
    res = CorrResult(
        suite="addon/subscriber dispatch + ownership: real proxy vs extracted model",
        rule="corpus first; exhaustive scopes (2 addon objects x 11 lludp behaviours (incl. a take() that fails in its copy step, caught and uncaught) x message shapes; 1 subscriber x 1 addon "
             "x 6 shapes x reliability/acks; packet-hook returns of 2 addons; RLV with 2 commands x 2 addons x 10 per-command "
             "assignments; a module with 2 sub-addons; 2 subscribers (one one-shot) x predicates true/false/raising followed "
             "by a second datagram; every caught ownership-op sequence up to length %d by an addon on a fresh and on an "
             "already taken message); then seeded random histories of 1-4 datagrams with 0-3 modules, sub-addons, up to 8 "
             "subscribers over the 4 handler lists, behaviours of up to 4 ops. Each case is run through the real "
             "InterceptingLLUDPProxyProtocol.datagram_received (AddonManager.init(addon_objects=..) reset per case) and the "
             "extracted run_history; the complete ordered traces and the remaining subscriptions must be equal; cases "
             "containing a raise are run again calmed on both sides (isolation). non-trivial = some hook/subscriber does "
             "more than return a falsy value, or the message is a command/RLV message" % ctx.pick(3, 5))
    cases, lines, seen = [], [], set()
    dist = {}
    for kind, c in gen_cases(ctx):
        line = enc_case(c)
        if line in seen:
            continue
        seen.add(line)
        dist[kind] = dist.get(kind, 0) + 1
        cases.append((kind, c, line))
        lines.append(line)
        lines.append("N " + line)
        lines.append("U " + line)
    model = ctx.run_driver(lines)
    nontriv = 0
    n_eval = 0
    known_classes = {}
    notes_pred = 0
    for i, (kind, c, line) in enumerate(cases):
        m_line, m_calm, m_uncl = model[3 * i].strip(), model[3 * i + 1].strip(), model[3 * i + 2].strip()
        i_line, traces = run_impl(c)
        n_eval += 1
        agree = i_line.strip() == m_line
        if not agree:
            res.disagreements.append({"case": c, "line": line, "impl": i_line, "model": m_line})
            if i_line.startswith("EXC:"):
                continue
        # the model's "unclaimed" predicate vs the oracle's
        want = " ".join("1" if msg_unclaimed(m) else "0" for m in c["msgs"])
        if m_uncl != want:
            res.disagreements.append({"case": c, "line": line, "what": "cfg_unclaimed", "impl": want, "model": m_uncl})
        if has_raise(c):
            cc = calm_case(c)
            ic_line, _ = run_impl(cc)
            n_eval += 1
            if ic_line.strip() != m_calm:
                res.disagreements.append({"case": cc, "line": "N " + line, "impl": ic_line, "model": m_calm})
            if "E" not in i_line.split(" ") and strip_exc(ic_line) != strip_exc(i_line):
                res.impl_violations.append({"clause": "a raise in a hook/subscriber changes nothing but the exception log",
                                            "class": "isolation", "trace": i_line, "calmed_trace": ic_line,
                                            "case": c, "line": line})
        for mi, (m, toks) in enumerate(zip(c["msgs"], traces)):
            toks = [t for t in toks if not t.startswith("!")]
            for clause, cls in check_trace(m, toks):
                v = {"clause": clause, "class": cls, "msg_index": mi, "trace": " ".join(toks), "case": c, "line": line}
                # keep one (the smallest) witness per class so that the report stays readable
                old = known_classes.get(cls)
                if old is None or len(line) < len(old["line"]):
                    known_classes[cls] = v
            if "Xms" in toks or "Xmr" in toks:
                notes_pred += 1
        if nontrivial(c):
            nontriv += 1
    res.impl_violations.extend(known_classes.values())
    if notes_pred:
        ctx.notes.append("%d datagrams in which a raising subscriber predicate aborted the remaining subscribers of a "
                         "MessageHandler (Event.notify evaluates predicates outside its try/except) - modelled as coded" % notes_pred)
    # message-level ownership sequences against Ownership.apply_ops
    L = ctx.pick(4, 6)
    olines, ocases = [], []
    for rel, acks in itertools.product((0, 1), repeat=2):
        for n in range(0, L + 1):
            for ops in itertools.product(OPS, repeat=n):
                ocases.append((rel, acks, "".join(ops)))
                olines.append("O %d %d %s" % (rel, acks, "".join(ops)))
    omodel = ctx.run_driver(olines)
    for (rel, acks, ops), ml in zip(ocases, omodel):
        il = run_ops_impl(rel, acks, ops)
        n_eval += 1
        if il.split() != ml.split():
            res.disagreements.append({"ops": ops, "rel": rel, "acks": acks, "impl": il, "model": ml})
        oks, flags = il.split()[0], il.split()[-1]
        wire = il.split()[1] if len(il.split()) == 3 else ""
        succ = sum(1 for o, k in zip(ops, oks) if o in "SD" and k == "1")
        if succ > 1 or wire.count("O") > 1:
            res.impl_violations.append({"clause": "a sent or dropped message can never be sent or dropped again",
                                        "class": "resurrection", "ops": ops, "rel": rel, "acks": acks, "impl": il})
        if ops:
            nontriv += 1
    dist["ownership-op-sequences(len<=%d)" % L] = len(ocases)
    res.evaluations = n_eval
    res.distinct_nontrivial = nontriv
    res.distribution = dist
    res.exhaustive = False
    res.samples = [{"kind": k, "line": l} for k, _, l in cases[:2] + cases[len(cases) // 2:len(cases) // 2 + 2] + cases[-2:]]
    return res


def _case_size(c):
    return len(enc_case(c))


def shrink(case, cls):
    """greedy shrinking that keeps a violation of the same class"""
    def fails(c):
        try:
            return any(v["class"] == cls for v in check_case(c))
        except Exception:
            return False
    cur = case
    changed = True
    while changed:
        changed = False
        for cand in _shrink_candidates(cur):
            if _case_size(cand) < _case_size(cur) and fails(cand):
                cur = cand
                changed = True
                break
    return cur


def _shrink_candidates(c):
    def cp():
        return json.loads(json.dumps(c))
    n = len(c["msgs"])
    if n > 1:
        for i in range(n):
            d = cp()
            del d["msgs"][i]
            yield d
    nm = max([len(m.get("mods", [])) for m in c["msgs"]] + [0])
    for i in range(nm):
        d = cp()
        for m in d["msgs"]:
            if i < len(m.get("mods", [])):
                del m["mods"][i]
        yield d
    for i in range(nm):
        for m_i, m in enumerate(c["msgs"]):
            mods = m.get("mods", [])
            if i < len(mods) and len(mods[i]) > 1:
                for j in range(len(mods[i]) - 1):
                    d = cp()
                    for mm in d["msgs"]:
                        if i < len(mm.get("mods", [])) and j < len(mm["mods"][i]) - 1:
                            del mm["mods"][i][j]
                    yield d
                break
    for h in HANDLERS:
        for k, (sid, _) in enumerate(c.get("subs", {}).get(h, [])):
            d = cp()
            del d["subs"][h][k]
            for m in d["msgs"]:
                m.get("sub", {}).pop(str(sid), None)
            yield d
    for mi, m in enumerate(c["msgs"]):
        for sid, pb in m.get("sub", {}).items():
            if pb[1] != "0":
                for nb in _simpler(pb[1]):
                    d = cp()
                    d["msgs"][mi]["sub"][sid][1] = nb
                    yield d
            if pb[0] != "t":
                d = cp()
                d["msgs"][mi]["sub"][sid][0] = "t"
                yield d
        for i, mod in enumerate(m.get("mods", [])):
            for j, hs in enumerate(mod):
                for f in range(3):
                    if hs[f] != "-":
                        d = cp()
                        d["msgs"][mi]["mods"][i][j][f] = "-"
                        yield d
                if hs[1] not in ("-", "0"):
                    for nb in _simpler(hs[1]):
                        d = cp()
                        d["msgs"][mi]["mods"][i][j][1] = nb
                        yield d
        for key in ("rel", "acks"):
            if m.get(key):
                d = cp()
                d["msgs"][mi][key] = 0
                yield d
        if m.get("ncmd", 0) > 0:
            d = cp()
            d["msgs"][mi]["ncmd"] -= 1
            yield d


def _simpler(b):
    ops, t = b[:-1], b[-1]
    for i in range(len(ops)):
        yield ops[:i] + ops[i + 1:] + t
    if t != "0":
        yield ops + "0"


def search(ctx, hints):
    try:
        for h in hints:
            d = h.get("disagreement") or h.get("impl_violation")
            if d and "case" in d and isinstance(d["case"], dict) and "msgs" in d["case"]:
                vs = [v for v in check_case(d["case"]) if v["class"] not in _known_classes()]
                if vs:
                    v = vs[0]
                    v["case"] = shrink(v["case"], v["class"])
                    v["line"] = enc_case(v["case"])
                    return v
        n = 0
        known = _known_classes()
        for kind, c in gen_cases(ctx):
            n += 1
            if n > ctx.pick(4000, 40000):
                break
            vs = [v for v in check_case(c) if v["class"] not in known]
            if vs:
                v = vs[0]
                v["case"] = shrink(v["case"], v["class"])
                v["line"] = enc_case(v["case"])
                return v
        # no clause of the property fails on an input we can find, but the implementation no longer
        # behaves like the verified model: hand back the (shrunk) input on which they differ
        for h in hints:
            d = h.get("disagreement")
            if d and isinstance(d.get("case"), dict) and "msgs" in d["case"] and ctx.driver:
                c = _shrink_mismatch(ctx, d["case"])
                model = ctx.run_driver([enc_case(c)])[0].strip()
                impl, _ = run_impl(c)
                return {"clause": "implementation behaves like the verified model (trace equality)",
                        "class": "model-mismatch", "case": c, "line": enc_case(c),
                        "model": model, "impl": impl.strip()}
        return None
    finally:
        _Env.close()


def _known_classes():
    from harness.common.framework import load_findings
    out = set()
    for kf in load_findings(PROP_ID):
        if kf.get("status") != "fixed" and (kf.get("match") or {}).get("class"):
            out.add(kf["match"]["class"])
    return out


def _shrink_mismatch(ctx, case):
    def differs(c):
        try:
            model = ctx.run_driver([enc_case(c)])[0].strip()
            impl, _ = run_impl(c)
            return impl.strip() != model and not model.startswith("PARSE-ERROR")
        except Exception:
            return False
    cur = case
    changed = True
    rounds = 0
    while changed and rounds < 200:
        changed = False
        rounds += 1
        for cand in _shrink_candidates(cur):
            if _case_size(cand) < _case_size(cur) and differs(cand):
                cur = cand
                changed = True
                break
    return cur


def replay(ctx, case):
    try:
        if isinstance(case, dict) and case.get("class") == "model-mismatch" and "model" in case:
            impl, _ = run_impl(case["case"])
            return impl.strip() != case["model"].strip(), {"impl": impl.strip(), "model": case["model"]}
        c = case.get("case", case) if isinstance(case, dict) else case
        if isinstance(case, dict) and case.get("kind") == "same-id":
            r = suite_same_id(ctx)
            return (True, r.impl_violations[0]) if r.impl_violations else (False, "holds")
        if isinstance(case, dict) and case.get("kind") == "special":
            r = suite_special(ctx)
            for v in r.impl_violations:
                if v.get("message") == case.get("message"):
                    return True, v
            return (True, r.impl_violations[0]) if r.impl_violations else (False, "holds")
        if isinstance(c, dict) and c.get("waits") is not None and "msgs" in c:
            line, traces = run_impl(c)
            names_all = ("ChatFromViewer", "ChatFromSimulator")
            pending = [dict(w) for w in c["waits"]]
            for i, (m, toks) in enumerate(zip(c["msgs"], traces)):
                name = names_all[1] if m.get("inbound") else names_all[0]
                claimed = False
                for w in list(pending):
                    if name in w["names"]:
                        pending.remove(w)
                        claimed = claimed or bool(w["take"])
                n_orig = sum(1 for t in toks if t.startswith("O"))
                if n_orig != (0 if claimed else 1):
                    return True, {"msg_index": i, "sends": n_orig, "expected": 0 if claimed else 1, "trace": " ".join(toks)}
            return False, "holds"
        if "ops" in c and "msgs" not in c:
            il = run_ops_impl(c.get("rel", 0), c.get("acks", 0), c["ops"])
            oks = il.split()[0]
            succ = sum(1 for o, k in zip(c["ops"], oks) if o in "SD" and k == "1")
            return succ > 1, il
        vs = check_case(c)
        want = case.get("class") if isinstance(case, dict) else None
        if want:
            vs = [v for v in vs if v["class"] == want] or vs
        if vs:
            return True, {"clause": vs[0]["clause"], "class": vs[0]["class"], "trace": vs[0].get("trace")}
        return False, "holds"
    finally:
        _Env.close()
