"""C11 - human-readable message text round-trips to the same datagram body; safe mode never evaluates.

Model: coq/theories/Text/HumanText.v (framing of the text format, literal syntax abstract) and Text/PyLiteral.v (concrete literals of str/bytes/int).
Suites:
  classes : the model's character classes (is_space over all of Unicode, is_word below U+0100) vs Python's re/str
  parser  : the extracted from_human (symbolic oracles) vs the real from_human_string (the same oracles patched in)
            on generated, exhaustive small-scope and mutated texts, safe and unsafe mode, incl. the eval-call trace
  wire    : template-generated messages decoded from the wire -> to_human_string (plain/beautified, replacement
            tables, template hints) -> (i) the extracted to_human on the translated presentation gives the same text,
            (ii) the hypotheses of the round-trip theorem hold for every rendered value, (iii) the real
            from_human_string(safe=True) gives a message that serializes to the same body (impl-level oracle).
  literals: the extracted concrete renderer / reader (Text/PyLiteral.v: repr of str/bytes/int, HippoPrettyPrinter/pprint wrapping,
            ast.literal_eval fragment) vs the real repr / HippoPrettyPrinter(width=100).pformat / ast.literal_eval: every code point,
            exhaustive small alphabets, width and newline-count boundaries, random long values, mutated literal texts
  cmsg    : directly built messages with str/bytes/int values: extracted to_human/from_human instantiated with the concrete literal
            model vs to_human_string(beautify=False)/from_human_string(safe=True), plus mutated texts with the real ast.literal_eval
"""
import ast
import collections
import json
import logging
import math
import os
import re
import struct
import uuid as _uuid

from harness.common.framework import CorrResult, VERIF

PROP_ID = "C11"
COQ_PROPS = "theories/Props/C11.v"
COQ_EXTRA = ["gen/C11_printable_gen.v"]
EXTRACT = ("theories/Extract/ExC11.v", "c11_driver.ml")
TRUSTED = [
    "PARTIAL property. Proved for ALL inputs: the framing of the text format (Text/HumanText.v) and - new - the literal syntax of str / bytes / "
    "int values in plain form (Text/PyLiteral.v): C11_literal_value_roundtrip (every physical line of what _format_var shows is newline-free, "
    "non-blank, does not end in a backslash, does not start with '[', '#', '$' or '|'; the stripped concatenation is not taken for a replacement token / "
    "vector / UUID; the literal reader returns the value) and C11_text_roundtrip_concrete (from_human (to_human m) = m for every message of such "
    "values with NO hypothesis about values; remaining premises are structural: names are non-empty words, block names and the variable names of a "
    "block are distinct, flags < 2048). Still under the abstract per-value hypotheses var_ok (checked on every generated value by the 'wire' "
    "suite, not proved): packed (=|) forms incl. their inline '#orig' comment and the subfield (de)serializers, uuid / vector / float / bool / None "
    "values, replacement tokens, beautify-only choices (hex, [[AGENT_ID]]); C11_text_roundtrip_mixed states exactly this split (cvar_ok)",
    "modelled by hand from CPython 3.12 and tied by the 'python literals' / 'concrete messages' suites on every run: unicode_repr, bytes_repr, "
    "int repr, pprint.PrettyPrinter._format/_pprint_str/_pprint_bytes/_wrap_bytes_repr at width 100 level 1, str.splitlines boundaries, the "
    "regex whitespace class, and ast.literal_eval on the fragment: decimal ints with optional minus, str and bytes literals in single or double "
    "quotes (prefix none or b/B; escapes of backslash, both quotes, n r t a b f v, xHH, uHHHH, UHHHHHHHH), adjacent-literal concatenation, "
    "parentheses, spaces/tabs, trailing comment; CPython limits modelled: 200 nested parentheses, 4300 digits. The reader model is a sound "
    "under-approximation: outside the fragment (other prefixes, triple quotes, octal / named / unknown escapes, hex/octal/binary/underscore ints, "
    "unary plus, minus before a parenthesis, form feed / CR between tokens) it answers None where literal_eval may answer; such texts are counted "
    "('outside-fragment'), every other difference is a disagreement",
    "oracle: str.isprintable is the Section variable [printable] of the literal theorems; the only fact assumed about it (no surrogate code point "
    "is printable) is an explicit premise and is checked over all 0x110000 code points on every run; the extracted model runs with the "
    "interpreter's own table",
    "domain of the literal theorems (wf_val): str = code points < 0x110000 (lone surrogates included), bytes < 256, ints whose decimal text has at "
    "most 4300 digits (beyond that CPython's repr itself raises)",
    "modelled by hand: HumanMessageSerializer.from_human_string / to_human_string / _format_var / _multi_line_pformat and "
    "HippoPrettyPrinter._str_format (text = list of code points; exceptions = OErr/None; Python dict insertion order = association lists)",
    "regex word class is exact below U+0100 only; code points from U+0100 up are treated as non-word by the model and the "
    "correspondence texts use only characters whose class is verified against re on every run; str.upper() of the direction "
    "token is modelled for ASCII only; packed values with a non-finite float or whose bytes are not a fixpoint of the "
    "subfield codec (C09's concern) and non-finite plain floats are outside the statement and counted separately",
    "message.extra and the packet id are shown as comments only; the oracle compares the body of a message without extra",
]

_log = logging.getLogger("c11")


# --------------------------------------------------------------------------- implementation access

class Impl:
    def __init__(self):
        logging.disable(logging.CRITICAL)
        import hippolyzer.lib.base.templates  # noqa: registers the subfield serializers
        from hippolyzer.lib.base.message import message_formatting as mf
        from hippolyzer.lib.base.message.template_dict import DEFAULT_TEMPLATE_DICT
        from hippolyzer.lib.base.message.msgtypes import MsgType, MsgBlockType
        from hippolyzer.lib.base.message.udpserializer import UDPMessageSerializer
        from hippolyzer.lib.base.message.udpdeserializer import UDPMessageDeserializer
        from hippolyzer.lib.base.message.data_packer import TemplateDataPacker
        from hippolyzer.lib.base.settings import Settings
        from hippolyzer.lib.base import serialization as se
        from hippolyzer.lib.base import datatypes
        from hippolyzer.lib.base.helpers import HippoPrettyPrinter
        self.mf, self.se, self.datatypes = mf, se, datatypes
        self.H = mf.HumanMessageSerializer
        self.TD = DEFAULT_TEMPLATE_DICT
        self.MsgType, self.MsgBlockType = MsgType, MsgBlockType
        self.ser = UDPMessageSerializer()
        st = Settings()
        st.ENABLE_DEFERRED_PACKET_PARSING = False
        self.des = UDPMessageDeserializer(settings=st)
        self.packer = TemplateDataPacker
        self.PP = HippoPrettyPrinter
        self.templates = sorted(self._all_templates(), key=lambda t: t.name)

    def _all_templates(self):
        td = self.TD
        for attr in ("message_templates", "template_list"):
            v = getattr(td, attr, None)
            if v:
                return list(v.values()) if isinstance(v, dict) else list(v)
        raise RuntimeError("cannot enumerate templates")

    def decode(self, dg: bytes):
        m = self.des.deserialize(dg)
        m.ensure_parsed()
        return m

    def body(self, m) -> bytes:
        """datagram body (message number + blocks) the message encodes to, extra removed"""
        saved = (m.raw_extra, m.offset, m.packet_id, m.acks)
        try:
            m.raw_extra, m.offset, m.acks = b"", 0, ()
            if m.packet_id is None:
                m.packet_id = 1
            flags = m.send_flags
            m.send_flags = int(flags) & ~0x10
            try:
                return bytes(self.ser.serialize(m))[6:]
            finally:
                m.send_flags = flags
        finally:
            m.raw_extra, m.offset, m.packet_id, m.acks = saved


_IMPL = None


def impl() -> Impl:
    global _IMPL
    if _IMPL is None:
        _IMPL = Impl()
    return _IMPL


# --------------------------------------------------------------------------- symbolic oracles on the real parser

class Sym:
    __slots__ = ("s",)

    def __init__(self, s):
        self.s = s

    def __repr__(self):
        return self.s


def show_s(s: str) -> str:
    return ".".join(map(str, map(ord, s)))


_FLOAT_RE = re.compile(r"[+-]?(\d+(\.\d*)?|\.\d+)([eE][+-]?\d+)?", re.ASCII)


def simple_float(s: str):
    t = s.strip(" \t\n\x0b\x0c\r")
    if not _FLOAT_RE.fullmatch(t):
        raise ValueError("not a simple float")
    return float(t)


KNOWN_REPL = ("AGENT_ID", "SESSION_ID", "CIRCUIT_CODE", "X")


class _FakeSer:
    def __init__(self, key):
        self.key = key

    def serialize(self, block, val):
        if self.key[2].startswith("Z"):
            raise ValueError("packer raises")
        ks = ",".join(show_s(k) + ("!" if v is None else "") for k, v in block.vars.items())
        return Sym("P:%s:%s:%s{%s}(%s)" % (show_s(self.key[0]), show_s(self.key[1]), show_s(self.key[2]), ks, sym_of(val)))


class _FakeSerTable:
    def get(self, key, default=None):
        if key[2].startswith("Q"):
            return None
        return _FakeSer(key)


def sym_of(v) -> str:
    if isinstance(v, Sym):
        return v.s
    if isinstance(v, tuple):
        return "V:" + "/".join(float(x).hex() for x in v)
    if v is None:
        return "N"
    return "?:" + type(v).__name__


def real_parse_symbolic(text: str, safe: bool):
    """Run the real from_human_string with the oracles replaced by recorders. Returns (canonical outcome, eval calls)."""
    im = impl()
    mf = im.mf
    evals = []
    hidden = []

    class AstShim:
        @staticmethod
        def literal_eval(s):
            return Sym("L:" + show_s(s))

    class DtShim:
        @staticmethod
        def UUID(s):
            return Sym("U:" + show_s(s))

    class SeShim:
        SUBFIELD_SERIALIZERS = _FakeSerTable()

    def fake_subfield_eval(s, globals_=None, locals_=None):
        evals.append(s)
        return Sym("E:" + show_s(s))

    def fake_eval(*a, **k):
        hidden.append("eval")
        raise RuntimeError("direct eval")

    def fake_exec(*a, **k):
        hidden.append("exec")
        raise RuntimeError("direct exec")

    saved = {k: mf.__dict__.get(k, _MISSING) for k in ("ast", "datatypes", "se", "subfield_eval", "float", "eval", "exec")}
    mf.ast, mf.datatypes, mf.se = AstShim, DtShim, SeShim
    mf.subfield_eval = fake_subfield_eval
    mf.float = simple_float
    mf.eval, mf.exec = fake_eval, fake_exec
    # the literal reader is ONE oracle of the model (read_lit): the inf/nan branch added by /repo 349217f is part of it
    saved_rl = im.H.__dict__.get("_read_literal", _MISSING)
    im.H._read_literal = staticmethod(lambda s_: AstShim.literal_eval(s_))
    try:
        repl = {k: Sym("R:" + show_s(k)) for k in KNOWN_REPL}
        try:
            m = im.H.from_human_string(text, replacements=repl, env={}, safe=safe)
        except BaseException as e:  # noqa
            if isinstance(e, (KeyboardInterrupt, SystemExit)):
                raise
            return "ERR|" + ",".join(show_s(s) for s in evals), evals, hidden, type(e).__name__
        if m is None:
            return "NOMSG", evals, hidden, None
        blocks = []
        for bn, bl in m.blocks.items():
            for b in bl:
                blocks.append("%s[%s]" % (show_s(bn), ";".join("%s=%s" % (show_s(k), sym_of(v)) for k, v in b.items())))
        out = "MSG|%s|%s|%d|%s|%s" % (m.direction.name, show_s(m.name), int(m.send_flags), " ".join(blocks),
                                      ",".join(show_s(s) for s in evals))
        return out, evals, hidden, None
    finally:
        if saved_rl is _MISSING:
            try:
                delattr(im.H, "_read_literal")
            except Exception:
                pass
        else:
            im.H._read_literal = saved_rl
        for k, v in saved.items():
            if v is _MISSING:
                mf.__dict__.pop(k, None)
            else:
                setattr(mf, k, v)


_MISSING = object()


def canon_model_outcome(line: str) -> str:
    """model prints vector components as code points; turn them into float.hex like the real side"""
    def fix(mo):
        parts = mo.group(1).split("/")
        vals = []
        for p in parts:
            s = "".join(chr(int(x)) for x in p.split(".")) if p else ""
            vals.append(simple_float(s).hex())
        return "V:" + "/".join(vals)
    return re.sub(r"V:([0-9./]*)", fix, line)


# --------------------------------------------------------------------------- text generators (parser suite)

ALPHABET_EXTRA = [0x85, 0xA0, 0x2003, 0x2028, 0x3000, 0x1C, 0x0B, 0x0C, 0x0D, 0x09, 0xE9, 0xD7, 0xB2, 0x2603, 0x1F600]
SMALL_LINES = [
    "[B]", "[C]  # Variable", "a = 1", "b = 'x' \\", "  'y'", "# note", "", "a =$ f(1)", "c =| {'k': 1} #7",
    "v = <1, 2.5,-3e2>", "r = [[X]]", "r = [[Y]]", "junk", "[", "u = ab-cd-ef \\", "Qx =| 1", "d =|$ 2", "t = \\",
    "[E]  # EMPTY", "[B] #EMPTY  ", "Zx =| 3",
]


def check_alphabet(chars):
    bad = []
    for c in chars:
        ch = chr(c)
        if c >= 256 and (re.match(r"\w", ch) is not None) and not ch.isspace():
            bad.append(c)
        if ch.upper() != ch and not ("a" <= ch <= "z") and any(x in "INOUT" for x in ch.upper()):
            bad.append(c)
    return bad


def gen_texts(ctx, seeds):
    """yields (kind, text)"""
    rng = ctx.rng
    # exhaustive small scope: header + every sequence of up to 3 lines over SMALL_LINES
    import itertools
    depth = ctx.pick(2, 3)
    for n in range(depth + 1):
        for combo in itertools.product(range(len(SMALL_LINES)), repeat=n):
            yield "exh", "OUT Msg [RELIABLE]\n" + "\n".join(SMALL_LINES[i] for i in combo)
    # headers
    for h in ["", "# only a comment", "OUT", "out M", "In M [ZEROCODED] [RELIABLE] [5] [x] 8 [[ACK]]", "SIDEWAYS M", "OUT  M   [EQ]",
              "  # c\n  IN M\n[B]\n x = 1", "OUT M [RESENT] [ACK] [0012]", "OUT M [1e3] [-1] [12a]", "[B]\nOUT M", "x = 1\nOUT M",
              "OUT M\n\n\n[B]\n\n\n x = 1\n\n", "OUT M\n[B]", "OUT M\x85[B]\n", "OUT M\n[B]\r\n  x = 1\r\n"]:
        yield "header", h
    base = list(seeds)
    for t in base:
        yield "real", t
    chars = [10, 10, 32, 32, 92, 92, 35, 91, 93, 61, 61, 124, 36, 36, 60, 62, 45, 44, 39, 34, 97, 66, 49, 48, 95, 46] + ALPHABET_EXTRA
    nmut = ctx.pick(2500, 15000)
    pool = base + ["OUT Msg\n" + "\n".join(SMALL_LINES)] * 3
    for _ in range(nmut):
        t = rng.choice(pool)
        if len(t) > 1500:
            a = rng.randrange(0, len(t) - 1000)
            a = t.rfind("\n", 0, a) + 1
            head = t[:t.find("\n") + 1]
            t = head + t[a:a + 1000]
        s = list(t)
        for _ in range(rng.choice((1, 1, 2, 3, 6))):
            op = rng.random()
            pos = rng.randrange(0, len(s) + 1)
            if op < 0.35:
                s.insert(pos, chr(rng.choice(chars)))
            elif op < 0.5 and s:
                del s[min(pos, len(s) - 1)]
            elif op < 0.6 and s:
                s[min(pos, len(s) - 1)] = chr(rng.choice(chars))
            elif op < 0.7:
                s[pos:pos] = list(rng.choice([" =$ ", "=$", "$", " =|$ ", "\\\n", " \\\n    ", "#", "[[X]]", "<", "=| ", "\n[Z]\n", " = ", "  # EMPTY", "\n[Y]  # EMPTY\n"]))
            elif op < 0.8:
                ls = "".join(s).split("\n")
                i = rng.randrange(len(ls))
                ls.insert(rng.randrange(len(ls) + 1), ls[i])
                s = list("\n".join(ls))
            elif op < 0.9:
                ls = "".join(s).split("\n")
                if len(ls) > 1:
                    del ls[rng.randrange(len(ls))]
                s = list("\n".join(ls))
            else:
                s = s[:pos]
        yield "mut", "".join(s)
    # structured random statements
    names = ["a", "Name", "Q", "x_1", "\xe9t\xe9", "9", "A B", "Zed", "b", "a"]
    ops = ["=", "=", "=", "=|", "=$", "=|$", "=$|", "= |", "==", "=||", ":", ""]
    vals = ["1", "'s'", "<1,2,3>", "<1, x>", "<>", "< 1e5 ,-.5>", "[[X]]", "[[AGENT_ID]] tail", "[[nope]]", "[[]]", "ab-cd-ef", "1-2-", "-a-b-", "a-b",
            "\xe9-\xe9-", "b'\\\\'", "'x' \\", "\\", "\\ \\", "  spaced  ", "#c", "'a' #c", "(1,", "[1]", "", "|x", "$x", "1_0-2-3", "<1,2> \\"]
    for _ in range(ctx.pick(2500, 15000)):
        lines = [rng.choice(["OUT M", "IN Msg [RELIABLE]", "OUT M [64] [ZEROCODED]"])]
        for _ in range(rng.randrange(0, 7)):
            r = rng.random()
            if r < 0.25:
                lines.append(rng.choice(["[B]", "[B]", "[C]", "  [D]  # Variable", "[ ]", "[B", "[\xe9]", "[B]  # EMPTY", "[F] # EMPTY",
                                         "[G] #  EMPTY x", "[H] EMPTY", "[EMPTY]", "[I]  # Variable # EMPTY", "[J] #\u2003EMPTY\xa0"]))
            elif r < 0.35:
                lines.append(rng.choice(["# c", "   #", "", "   ", "\t", "#[B]", "# x = 1 \\"]))
            else:
                sp = lambda: rng.choice(["", " ", "  ", "\t", " "])  # noqa
                lines.append(sp() + rng.choice(names) + sp() + rng.choice(ops) + sp() + rng.choice(vals) + sp())
        yield "stmt", "\n".join(lines)


# --------------------------------------------------------------------------- message generator (wire suite)

STR_POOL = [
    b"", b"\x00", b"abc\x00", b"abc", b"a\nb\nc\nd\ne\nf\ng\x00", b"x" * 150 + b"\x00", b"word " * 40 + b"\x00", b"it's \"q\"\x00",
    b"back\\\x00", b"back\\", b"# not comment\x00", b"[[x]]\x00", b"[[AGENT_ID]]\x00", b"\xff\xfe\x00", b"a\x00b\x00", b"-lead-ing-\x00",
    b"ab-cd-ef\x00", b"<1,2,3>\x00", b"\n\n\n\n\n\n", b"\\\n" * 7 + b"\x00", b"  lead trail  \x00", b"tab\there\x00",
    b"uni\xc3\xa9\xe2\x98\x83\x00", b"'" * 5 + b"\x00", b"a\r\nb\r\nc\r\nd\r\ne\r\nf\r\n\x00", b"\x0b\x0c\x1c\x85 x\x00",
    "a b\x85c\x00".encode(), b"line \\\n" * 6, b"[Block]\n" * 6 + b"\x00", b"  x = 1\n" * 5 + b"#\x00", b"\"\"\"'''\x00",
    b"long " * 30 + b"\n" * 6 + b"\\\x00", b"=$ evil()\x00", b"x =$ 1\n" * 6, ("é" * 120).encode() + b"\x00", b"\x00" * 5,
    b"a" * 99 + b" " + b"b" * 99 + b"\x00", b" " * 120 + b"\x00", b"' \" " * 40 + b"\x00",
]


class Gen:
    def __init__(self, ctx):
        self.rng = ctx.rng
        self.im = impl()
        MT = self.im.MsgType
        self.fix = {MT.MVT_S8: 1, MT.MVT_U8: 1, MT.MVT_BOOL: 1, MT.MVT_LLUUID: 16, MT.MVT_IP_ADDR: 4, MT.MVT_IP_PORT: 2,
                    MT.MVT_U16: 2, MT.MVT_U32: 4, MT.MVT_U64: 8, MT.MVT_S16: 2, MT.MVT_S32: 4, MT.MVT_S64: 8,
                    MT.MVT_F32: 4, MT.MVT_F64: 8, MT.MVT_LLVector3: 12, MT.MVT_LLVector3d: 24, MT.MVT_LLVector4: 16,
                    MT.MVT_LLQuaternion: 12}

    def f32(self):
        rng = self.rng
        while True:
            if rng.random() < 0.6:
                b = struct.pack("<f", rng.choice([0.0, -0.0, 1.0, -1.5, 1e-5, -1e-5, 3.4e38, 1e-45, 0.1, 255.0, 1e22, 1e16, rng.uniform(-1e3, 1e3)]))
            else:
                b = bytes(rng.randrange(256) for _ in range(4))
            v = struct.unpack("<f", b)[0]
            if math.isfinite(v):
                return b

    def f64(self):
        rng = self.rng
        while True:
            if rng.random() < 0.6:
                b = struct.pack("<d", rng.choice([0.0, -0.0, 1.0, -1.5, 1e-5, 1e300, 5e-324, 0.1, 1e22, 1e16, rng.uniform(-1e9, 1e9)]))
            else:
                b = bytes(rng.randrange(256) for _ in range(8))
            v = struct.unpack("<d", b)[0]
            if math.isfinite(v):
                return b

    def quat(self):
        # keep x^2+y^2+z^2 <= 1 most of the time so that W is real
        rng = self.rng
        if rng.random() < 0.7:
            return b"".join(struct.pack("<f", rng.choice([0.0, -0.0, 0.5, -0.5, 0.1, rng.uniform(-0.57, 0.57)])) for _ in range(3))
        return b"".join(self.f32() for _ in range(3))

    def var(self, v):
        rng, MT = self.rng, self.im.MsgType
        t = v.type
        if t in self.fix:
            n = self.fix[t]
            if t == MT.MVT_F32:
                if rng.random() < 0.04:     # the non-finite wire values: shown as inf / -inf / nan
                    return struct.pack("<f", rng.choice([math.inf, -math.inf])) if rng.random() < 0.8 else bytes.fromhex("0100c0ff")
                return self.f32()
            if t == MT.MVT_F64:
                if rng.random() < 0.04:
                    return struct.pack("<d", rng.choice([math.inf, -math.inf]))
                return self.f64()
            if t == MT.MVT_LLVector3:
                return b"".join(self.f32() for _ in range(3))
            if t == MT.MVT_LLQuaternion:
                return self.quat()
            if t == MT.MVT_LLVector4:
                return b"".join(self.f32() for _ in range(4))
            if t == MT.MVT_LLVector3d:
                return b"".join(self.f64() for _ in range(3))
            r = rng.random()
            if r < 0.25:
                return bytes(n)
            if r < 0.4:
                return b"\xff" * n
            if r < 0.5:
                return b"\x80" + bytes(n - 1) if n > 1 else b"\x80"
            return bytes(rng.randrange(256) for _ in range(n))
        if t == MT.MVT_FIXED:
            return bytes(rng.randrange(256) for _ in range(v.size))
        r = rng.random()
        if r < 0.65:
            d = rng.choice(STR_POOL)
        else:
            d = bytes(rng.randrange(256) for _ in range(rng.choice([0, 1, 3, 20, 200])))
        d = d[:255 if v.size == 1 else 1400]
        return len(d).to_bytes(v.size, "little") + d

    def body(self, tmpl, counts=None):
        rng, BT = self.rng, self.im.MsgBlockType
        out = bytearray(tmpl.freq_num_bytes)
        for i, b in enumerate(tmpl.blocks):
            if b.block_type == BT.MBT_SINGLE:
                n = 1
            elif b.block_type == BT.MBT_MULTIPLE:
                n = b.number
            else:
                n = counts[i] if counts is not None else rng.choice([0, 1, 1, 1, 2, 2, 3, 5])
                out.append(n)
            for _ in range(n):
                for v in b.variables:
                    out += self.var(v)
        return bytes(out)

    def ser_sizes(self, s_):
        """fixed sizes of every layout a serializer class knows (all branches of enum-/length-switched serializers), found by
        reflection: payloads of a size that fits ANOTHER branch than the one selected are the interesting ones"""
        cache = self.__dict__.setdefault("_sizes", {})
        if s_ not in cache:
            se = self.im.se
            found = set()

            def visit(o, depth=0):
                if depth > 3:
                    return
                if isinstance(o, dict):
                    for x in o.values():
                        visit(x, depth + 1)
                elif isinstance(o, (list, tuple)):
                    for x in o:
                        visit(x, depth + 1)
                elif isinstance(o, se.SerializableBase):
                    try:
                        n = o.calc_size()
                        if isinstance(n, int) and 0 <= n <= 1400:
                            found.add(n)
                    except Exception:
                        pass
            for name in dir(s_):
                if name.startswith("__"):
                    continue
                try:
                    visit(getattr(s_, name))
                except Exception:
                    pass
            cache[s_] = sorted(found)
        return cache[s_]

    def cand(self, sizes=()):
        rng = self.rng
        n = rng.choice([0, 1, 2, 3, 4, 5, 6, 7, 8, 9, 10, 12, 16, 17, 18, 20, 24, 32, 33, 36, 40, 44, 48, 60, 64, 76, 86, 100, rng.randrange(0, 200)])
        if sizes and rng.random() < 0.5:
            n = rng.choice(sizes) + rng.choice((0, 0, 0, 1, -1))
            n = max(0, n)
        r = rng.random()
        if r < 0.4:
            return bytes(n)
        if r < 0.5:
            return b"\xff" * n
        if r < 0.6:
            return bytes([rng.randrange(256)]) * n
        return bytes(rng.randrange(256) for _ in range(n))

    def improve(self, m):
        """replace bytes-typed variables that have a subfield serializer by bytes the serializer accepts"""
        se = self.im.se
        for bl in m.blocks.values():
            for b in bl:
                for vn, val in list(b.items()):
                    s_ = se.SUBFIELD_SERIALIZERS.get((m.name, b.name, vn))
                    if s_ and isinstance(val, int) and not isinstance(val, bool) and val > 0xffffffff and self.rng.random() < 0.7:
                        # 64-bit fields with a pretty form are timestamps in microseconds: plausible dates, whose pretty form
                        # (float seconds) does not always pack back to the same integer
                        b[vn] = self.rng.randrange(10 ** 15, 2 * 10 ** 15)
                        continue
                    if s_ and isinstance(val, int) and not isinstance(val, bool) and self.rng.random() < 0.5:
                        # bias integer fields towards values that have a name (shown packed, e.g. PCode = AVATAR)
                        named = self.named_values(m, b, vn, s_)
                        if named:
                            b[vn] = self.rng.choice(named)
                        continue
                    if not s_ or not isinstance(val, bytes):
                        continue
                    fallback = None
                    sizes = self.ser_sizes(s_)
                    for _ in range(25):
                        c = self.cand(sizes)
                        try:
                            r = s_.deserialize(b, c, pod=True)
                            if r is se.UNSERIALIZABLE or nonfinite(r):
                                continue
                        except Exception:
                            continue
                        if fallback is None:
                            fallback = c
                            if self.rng.random() < 0.3:
                                break       # keep an accepted payload as it is, canonical or not (the formatter has to cope)
                        # prefer bytes that are a fixpoint of the codec (canonical encodings)
                        try:
                            c2 = bytes(s_.serialize(b, r))
                            if bytes(s_.serialize(b, s_.deserialize(b, c2, pod=True))) == c2:
                                fallback = c2
                                break
                        except Exception:
                            continue
                    if fallback is not None and self.rng.random() < 0.93:
                        b[vn] = fallback
        return m

    def named_values(self, m, b, vn, s_):
        cache = self.__dict__.setdefault("_named", {})
        key = (m.name, b.name, vn)
        if key not in cache:
            tv = _tmpl_var(self.im, m, b, vn)
            out = []
            for c in list(range(0, 70)) + [1 << i for i in range(7, 32)] + [255, 0x12, 0x47]:
                try:
                    self.im.packer.pack(c, tv.type)
                    r = s_.deserialize(b, c, pod=True)
                except Exception:
                    continue
                if isinstance(r, str) or (isinstance(r, (tuple, list)) and r):
                    out.append(c)
            cache[key] = out
        return cache[key]

    def datagram(self, tmpl, flags=0, counts=None):
        im = self.im
        dg = bytes([0, 0, 0, 0, 1, 0]) + self.body(tmpl, counts)
        m = im.decode(dg)
        has_ser = any(k[0] == tmpl.name for k in im.se.SUBFIELD_SERIALIZERS)
        if has_ser:
            m = self.improve(m)
        m.send_flags = flags
        return bytes(im.ser.serialize(m))


# --------------------------------------------------------------------------- the property on the implementation

def nonfinite(x) -> bool:
    if isinstance(x, float):
        return not math.isfinite(x)
    if isinstance(x, dict):
        return any(nonfinite(k) or nonfinite(v) for k, v in x.items())
    if isinstance(x, (list, tuple)):
        return any(nonfinite(v) for v in x)
    return False


def _tmpl_var(im, m, b, k):
    t = im.TD.get_template_by_name(m.name)
    return t.get_block(b.name).get_variable(k)


def _packs_back(serializer, block, pretty, v) -> bool:
    """transcription of HumanMessageSerializer._packs_back: the pretty form is shown only if packing it gives the value back"""
    try:
        ast.literal_eval(repr(pretty))      # (a5401e5) a non-finite float inside the literal cannot be read back
        packed = serializer.serialize(block, pretty)
    except BaseException:   # noqa
        return False
    if isinstance(v, (bytes, bytearray)) or isinstance(packed, (bytes, bytearray)):
        return isinstance(v, (bytes, bytearray)) and isinstance(packed, (bytes, bytearray)) and bytes(packed) == bytes(v)
    return packed == v


def present(im, msg, block, k, v, replacements, beautify):
    """Transcription of _format_var at the level of the model's [pres]: (kind, lines, orig, pretty)"""
    se, dt = im.se, im.datatypes
    serializer = se.SUBFIELD_SERIALIZERS.get((msg.name, block.name, k))
    if isinstance(v, (_uuid.UUID, dt.TupleCoord)):
        lines = [str(v)]
    elif isinstance(v, (str, bytes)) and not serializer:
        lines = im.PP(width=100).pformat(v).splitlines()
    else:
        lines = [repr(v)]
    packed = None
    pretty = None
    if serializer and beautify:
        try:
            pretty = serializer.deserialize(block, v, pod=True)
            if pretty is not se.UNSERIALIZABLE and _packs_back(serializer, block, pretty, v):
                plines = im.PP(width=100).pformat(pretty).splitlines()
                if serializer.AS_HEX and isinstance(v, int):
                    lines = [hex(v)]
                if serializer.ORIG_INLINE:
                    return ("inline", plines, lines[0], pretty)
                packed = plines
        except Exception:
            packed = None
    if beautify:
        if block.name == "AgentData":
            if k == "AgentID" and v == replacements.get("AGENT_ID"):
                lines = ["[[AGENT_ID]]"]
            elif k == "SessionID" and v == replacements.get("SESSION_ID"):
                lines = ["[[SESSION_ID]]"]
        if "CircuitCode" in k or ("Code" in k and "Circuit" in block.name):
            if v == replacements.get("CIRCUIT_CODE"):
                lines = ["[[CIRCUIT_CODE]]"]
    if packed is not None:
        return ("above", packed, lines[0], pretty)
    return ("plain", lines, "", None)


def enc_s(s: str):
    return [len(s)] + [ord(c) for c in s]


def enc_msg(im, m, pres_map, comments, suffixes):
    out = [1 if m.direction.name == "IN" else 0] + enc_s(m.name) + [int(m.send_flags), len(comments)]
    for c in comments:
        out += enc_s(c)
    out.append(len(m.blocks))
    for bn, bl in m.blocks.items():
        out += enc_s(bn) + enc_s(suffixes.get(bn, "")) + [len(bl)]
        for bi, b in enumerate(bl):
            out.append(len(b.vars))
            for k in b.vars:
                kind, lines, orig, _ = pres_map[(bn, bi, k)]
                out += enc_s(k) + [{"plain": 0, "inline": 1, "above": 2}[kind], len(lines)]
                for l in lines:
                    out += enc_s(l)
                out += enc_s(orig)
    return "T " + " ".join(map(str, out))


_WORD = re.compile(r"\w+\Z")


def lines_ok(lines):
    """hypothesis lines_ok of the theorem on the physical lines of one rendered value"""
    if not lines:
        return "no lines"
    for l in lines:
        if "\n" in l:
            return "newline inside a line"
        s = l.strip()
        if not s:
            return "blank line"
        if s.endswith("\\"):
            return "line ends in a backslash"
    return None


def wire_eq(im, tv, a, b) -> bool:
    try:
        return im.packer.pack(a, tv.type) == im.packer.pack(b, tv.type)
    except Exception:
        return False


def check_hyps(im, m, bn, bi, b, k, v, pres, replacements):
    """the per-variable hypotheses (var_ok) of text_roundtrip, evaluated with the real oracles. None or reason."""
    kind, lines, orig, pretty = pres
    if not _WORD.match(k) or not k.isascii():
        return "variable name not a word"
    eff = list(lines)
    if kind == "inline":
        if not eff:
            return "no lines"
        eff[-1] = eff[-1] + " #" + orig
    r = lines_ok(eff)
    if r:
        return r
    if "\n" in orig:
        return "newline in original value"
    joined = "".join(l.strip() for l in eff)
    tv = _tmpl_var(im, m, b, k)
    if kind == "plain":
        # sniff(joined) = Some v, through the real parser on a one-statement text
        try:
            mm = im.H.from_human_string("OUT %s\n[%s]\n  %s = %s" % (m.name, bn, k, joined), replacements=replacements, safe=True)
            got = mm[bn][0][k]
        except Exception as e:
            return "single-line form does not read back (%s)" % type(e).__name__
        if not wire_eq(im, tv, got, v):
            return "single-line form reads back to another value"
        return None
    import ast
    try:
        pv = ast.literal_eval(joined)
    except Exception as e:
        return "pretty value does not read back (%s)" % type(e).__name__
    if repr(pv) != repr(pretty):
        return "pretty value reads back differently"
    # the packer runs after the whole text has been read: the block then holds the true values of the
    # variables before this one, a None placeholder for this one and for the packed ones after it
    ser = im.se.SUBFIELD_SERIALIZERS.get((m.name, bn, k))
    if ser is None:
        return "no serializer"
    view = flush_view(im, m, b, k, replacements, beautify=True)
    try:
        back = ser.serialize(view, pv)
    except Exception as e:
        return "packer raises on the block it sees (%s)" % type(e).__name__
    if not wire_eq(im, tv, back, v):
        return "packer re-encodes to other bytes"
    return None


def flush_view(im, m, b, k, replacements, beautify, prefix_only=False):
    from hippolyzer.lib.base.message.message import Block
    view = Block(b.name)
    view.message_name = m.name
    seen = False
    for k2, v2 in b.items():
        if k2 == k:
            seen = True
            if prefix_only:
                break
            view.vars[k2] = None
        elif not seen:
            view.vars[k2] = v2
        else:
            p2 = present(im, m, b, k2, v2, replacements, beautify)
            view.vars[k2] = None if p2[0] != "plain" else v2
    return view


def packs_on_true_block(im, m, b, k, v, p) -> bool:
    import ast
    eff = list(p[1])
    if p[0] == "inline" and eff:
        eff[-1] += " #" + p[2]
    try:
        pv = ast.literal_eval("".join(l.strip() for l in eff))
        ser = im.se.SUBFIELD_SERIALIZERS.get((m.name, b.name, k))
        return wire_eq(im, _tmpl_var(im, m, b, k), ser.serialize(b, pv), v)
    except Exception:
        return False


def needs_later_field(im, m, replacements):
    """a packed variable whose packer fails on the variables before it but works on the block the repaired parser shows it"""
    import ast
    for bn, bl in m.blocks.items():
        for b in bl:
            for k, v in b.items():
                p = present(im, m, b, k, v, replacements, True)
                if p[0] == "plain":
                    continue
                ser = im.se.SUBFIELD_SERIALIZERS.get((m.name, bn, k))
                eff = list(p[1])
                if p[0] == "inline" and eff:
                    eff[-1] += " #" + p[2]
                try:
                    pv = ast.literal_eval("".join(l.strip() for l in eff))
                    ser.serialize(flush_view(im, m, b, k, replacements, True), pv)
                except Exception:
                    continue
                try:
                    ser.serialize(flush_view(im, m, b, k, replacements, True, prefix_only=True), pv)
                except Exception:
                    return True
    return False


def precondition(im, m, beautify):
    """None if the message is inside the statement's scope, else the reason it is set aside"""
    se = im.se
    for bl in m.blocks.values():
        for b in bl:
            for k, v in b.items():
                if not beautify:
                    continue
                s_ = se.SUBFIELD_SERIALIZERS.get((m.name, b.name, k))
                if not s_:
                    continue
                try:
                    p = s_.deserialize(b, v, pod=True)
                except Exception:
                    continue
                if p is se.UNSERIALIZABLE:
                    continue
                # (payloads whose pretty form does not pack back to the same bytes are in scope since /repo 5def644: the
                #  formatter shows them raw)
    return None


REPL_TABLE_KEYS = ("AGENT_ID", "SESSION_ID", "CIRCUIT_CODE")


def make_replacements(m):
    repl = {}
    for bl in m.blocks.values():
        for b in bl:
            for k, v in b.items():
                if b.name == "AgentData" and k == "AgentID":
                    repl["AGENT_ID"] = v
                if b.name == "AgentData" and k == "SessionID":
                    repl["SESSION_ID"] = v
                if "CircuitCode" in k or ("Code" in k and "Circuit" in b.name):
                    repl.setdefault("CIRCUIT_CODE", v)
    return repl


def check_roundtrip(im, dg_hex: str, beautify: bool, use_repl: bool, use_tmpl: bool):
    """The statement of C11 on one wire message. Returns dict(status=ok|skip|violation, ...)"""
    dg = bytes.fromhex(dg_hex)
    try:
        m = im.decode(dg)
        body0 = im.body(m)
    except Exception as e:
        return {"status": "skip", "why": "undecodable:" + type(e).__name__}
    pre = precondition(im, m, beautify)
    if pre:
        return {"status": "skip", "why": pre}
    repl = make_replacements(m) if use_repl else {}
    tmpl = im.TD.get_template_by_name(m.name) if use_tmpl else None
    case = {"msg": m.name, "datagram": dg_hex, "beautify": beautify, "repl": use_repl, "tmpl": use_tmpl}
    try:
        txt = str(im.H.to_human_string(m, replacements=repl, beautify=beautify, template=tmpl))
    except Exception as e:
        return dict(case, status="violation", clause="to_human_string raises", **{"class": "format-error:" + type(e).__name__})
    res = dict(case, status="ok", text=txt, m=m, repl_table=repl)
    try:
        m2 = im.H.from_human_string(txt, replacements=repl, safe=True)
    except Exception as e:
        cls = classify(im, m, repl, beautify) or ("parse-error:" + type(e).__name__)
        res.update(status="violation", clause="from_human_string(to_human_string(m), safe=True) raises", exc=type(e).__name__)
        res["class"] = cls
        return res
    try:
        body1 = im.body(m2)
    except Exception as e:
        cls = classify(im, m, repl, beautify) or ("reserialize-error:" + type(e).__name__)
        res.update(status="violation", clause="parsed message does not serialize", exc=type(e).__name__)
        res["class"] = cls
        return res
    if body1 != body0:
        cls = classify(im, m, repl, beautify) or "body-differs"
        res.update(status="violation", clause="parsed message encodes to another body", want=body0.hex()[:400], got=body1.hex()[:400])
        res["class"] = cls
    return res


def _has_nan(x) -> bool:
    if isinstance(x, float):
        return x != x
    if isinstance(x, dict):
        return any(_has_nan(k) or _has_nan(v) for k, v in x.items())
    if isinstance(x, (list, tuple)) or (hasattr(x, "__iter__") and not isinstance(x, (str, bytes, bytearray))):
        try:
            return any(_has_nan(v) for v in x)
        except Exception:
            return False
    return False


def classify(im, m, repl, beautify):
    # a NaN is shown as `nan`, which reads back as the default quiet NaN: sign and payload bits of the wire value are not
    # representable in the text (recorded as a known finding)
    if any(_has_nan(v) for bl in m.blocks.values() for b in bl for v in b.vars.values()):
        return "nan-float-not-representable"
    for bn, bl in m.blocks.items():
        for bi, b in enumerate(bl):
            for k, v in b.items():
                p = present(im, m, b, k, v, repl, beautify)
                h = check_hyps(im, m, bn, bi, b, k, v, p, repl)
                if h:
                    if h.startswith("packer") and packs_on_true_block(im, m, b, k, v, p):
                        # fails only because a packed field it needs still is a None placeholder when it runs
                        return "packed-field-needs-later-packed-field"
                    return "hypothesis:" + re.sub(r" \(.*\)", "", h)
    # every hypothesis of the theorem holds: the framing itself is at fault. Name the two repaired defects.
    if any(len(bl) == 0 for bl in m.blocks.values()):
        return "empty-block-list-dropped"
    if beautify and needs_later_field(im, m, repl):
        return "packed-field-needs-later-field"
    return None


def public_case(r: dict) -> dict:
    return {k: v for k, v in r.items() if k not in ("m", "text", "repl_table", "status")}


# --------------------------------------------------------------------------- suites

def suite_classes(ctx):
    res = CorrResult(suite="character classes",
                     rule="is_space of the model vs str.isspace / re \\s / str.strip over every code point; is_word vs re \\w for "
                          "U+0000..U+00FF; every further character used by the text generators is checked to be classified alike; "
                          "non-trivial = code point that is a space or word character",
                     exhaustive=True)
    out = ctx.run_driver(["C 0 %d" % 0x110000])[0]
    n = 0
    for c in range(0x110000):
        ch = chr(c)
        sp = ch.isspace()
        if sp != (re.match(r"\s", ch) is not None) or sp != (ch.strip() == ""):
            res.disagreements.append({"cp": c, "what": "python's own space notions differ"})
        if (out[c] == "s") != sp:
            res.disagreements.append({"cp": c, "model": out[c], "python_space": sp})
        if c < 256:
            w = re.match(r"\w", ch) is not None
            if (out[c] == "w") != w:
                res.disagreements.append({"cp": c, "model": out[c], "python_word": w})
        if out[c] != "-":
            n += 1
    bad = check_alphabet(ALPHABET_EXTRA)
    for c in bad:
        res.disagreements.append({"cp": c, "what": "generator alphabet contains a character the model does not classify exactly"})
    res.evaluations = 0x110000 + 256
    res.distinct_nontrivial = n
    res.samples = [{"cp": 0x85, "class": out[0x85]}, {"cp": 0xE9, "class": out[0xE9]}, {"cp": 0x2003, "class": out[0x2003]}]
    return res


def load_corpus():
    d = os.path.join(VERIF, "corpus", "C11")
    texts, wires = [], []
    if os.path.isdir(d):
        for f in sorted(os.listdir(d)):
            if f.endswith(".json"):
                j = json.load(open(os.path.join(d, f)))
                texts += j.get("texts", [])
                wires += j.get("wire", [])
    return texts, wires


def suite_parser(ctx, seeds):
    res = CorrResult(suite="text parser: extracted from_human vs from_human_string",
                     rule="texts: corpus, every sequence of up to %d lines over %d line shapes (exhaustive), header variants, real "
                          "to_human_string outputs, seeded character/line mutations of those (continuations, comments, dollar/bar "
                          "operators, brackets, unicode spaces), random statement lists; each text is parsed in safe and unsafe mode "
                          "by the extracted model and by the real parser with the same symbolic oracles (literal_eval, UUID, float, "
                          "replacements, subfield serializers, subfield_eval recorded); compared: error/none/message, direction, name, "
                          "flags, block and variable structure, operator-dependent raw value strings, eval-call trace. Safe-mode "
                          "clause checked on every text: no call of subfield_eval/eval/exec. non-trivial = distinct text with at "
                          "least one statement reaching the value stage" % (ctx.pick(2, 3), len(SMALL_LINES)))
    ctexts, _ = load_corpus()
    seen = set()
    cases = []
    dist = collections.Counter()
    for kind, t in [("corpus", t) for t in ctexts] + list(gen_texts(ctx, seeds)):
        if t in seen:
            continue
        if check_alphabet({ord(c) for c in t if ord(c) >= 128}):
            dist["skipped-alphabet"] += 1
            continue
        seen.add(t)
        cases.append((kind, t))
        dist[kind] += 1
    lines = []
    for kind, t in cases:
        cps = " ".join(str(ord(c)) for c in t)
        lines.append("P 1 " + cps)
        lines.append("P 0 " + cps)
    out = ctx.run_driver(lines)
    nontriv = 0
    outcomes = collections.Counter()
    for i, (kind, t) in enumerate(cases):
        for j, safe in enumerate((True, False)):
            try:
                mo = canon_model_outcome(out[2 * i + j])
            except Exception as e:
                mo = "MODEL-CANON-EXC:" + type(e).__name__
            ro, evals, hidden, exc = real_parse_symbolic(t, safe)
            outcomes[("safe:" if safe else "unsafe:") + ro.split("|")[0]] += 1
            if mo != ro:
                res.disagreements.append({"text": t, "safe": safe, "model": mo[:600], "impl": ro[:600], "impl_exc": exc, "kind": kind})
            if safe and (evals or hidden):
                res.impl_violations.append({"clause": "safe mode never evaluates", "class": "safe-mode-eval", "text": t,
                                            "eval_calls": evals[:3], "direct": hidden[:3]})
            if not safe and hidden:
                res.impl_violations.append({"clause": "evaluation only through subfield_eval", "class": "direct-eval", "text": t})
            if j == 1 and ("=" in ro and "[" in ro):
                nontriv += 1
    res.evaluations = len(lines)
    res.distinct_nontrivial = nontriv
    res.distribution = dict(dist, **{k: v for k, v in outcomes.items()})
    res.samples = [{"kind": k, "text": t[:160]} for k, t in cases[5:8] + cases[-3:]]
    return res


def wire_cases(ctx):
    """yields (kind, datagram hex)"""
    im = impl()
    g = Gen(ctx)
    rng = ctx.rng
    _, wires = load_corpus()
    for w in wires:
        yield "corpus", w
    # cross-layout family: for every subfield serializer that picks its layout from a sibling enum field, every value of that
    # field x a payload of the size of EVERY layout the serializer knows (the selected one and all the others, +-1 byte)
    se = im.se
    for (mn, bn, vn), s_ in sorted(se.SUBFIELD_SERIALIZERS.items(), key=lambda kv: kv[0]):
        ef = getattr(s_, "ENUM_FIELD", None)
        if not ef:
            continue
        tmpl = im.TD.get_template_by_name(mn)
        if tmpl is None:
            continue
        sizes = g.ser_sizes(s_)
        evals = set()
        for name in dir(s_):
            v = getattr(s_, name, None)
            if isinstance(v, dict):
                for k in v:
                    if isinstance(k, int):
                        evals.add(int(k))
        evals |= {0, 1, 255}
        for ev in sorted(evals)[:ctx.pick(24, 64)]:
            for n in sorted({max(0, x + d) for x in sizes for d in (0, 1, -1)})[:ctx.pick(16, 60)]:
                try:
                    m = im.decode(g.datagram(tmpl, flags=0, counts=[1] * len(tmpl.blocks)))
                    blk = m[bn][0]
                    blk[ef] = ev
                    blk[vn] = bytes(rng.randrange(1, 255) for _ in range(n)) if rng.random() < 0.7 else bytes(n)
                    yield "cross-layout", bytes(im.ser.serialize(m)).hex()
                except Exception as e:  # noqa
                    yield "genfail:" + type(e).__name__, None
    # non-finite family: payloads of subfield-serialized variables made of F32s with one +-inf (or NaN) somewhere inside: the pretty
    # value then holds a non-finite float NESTED in a tuple/dict/dataclass, which no Python literal can spell
    import struct as _st
    for (mn, bn, vn), s_ in sorted(se.SUBFIELD_SERIALIZERS.items(), key=lambda kv: kv[0]):
        tmpl = im.TD.get_template_by_name(mn)
        if tmpl is None:
            continue
        for n in [x for x in g.ser_sizes(s_) if x and x % 4 == 0 and x <= 256][:6]:
            k = n // 4
            for j in sorted({0, 1, k // 2, k - 2, k - 1} & set(range(k))):
                for bad in (float("inf"), float("-inf"), float("nan")):
                    try:
                        m = im.decode(g.datagram(tmpl, flags=0, counts=[1] * len(tmpl.blocks)))
                        fl = [1.0] * k
                        fl[j] = bad
                        m[bn][0][vn] = _st.pack("<%df" % k, *fl)
                        yield "nonfinite-subfield", bytes(im.ser.serialize(m)).hex()
                    except Exception as e:  # noqa
                        yield "genfail:" + type(e).__name__, None
    # timestamp family: every 64-bit variable that has a pretty form, over plausible microsecond timestamps (the pretty form
    # goes through float seconds and does not always pack back to the same integer: the text must still round-trip)
    for (mn, bn, vn), s_ in sorted(se.SUBFIELD_SERIALIZERS.items(), key=lambda kv: kv[0]):
        tmpl = im.TD.get_template_by_name(mn)
        if tmpl is None:
            continue
        try:
            tv = tmpl.get_block(bn).get_variable(vn)
        except Exception:
            continue
        if tv.type != im.MsgType.MVT_U64:
            continue
        for _ in range(ctx.pick(250, 3000)):
            try:
                m = im.decode(g.datagram(tmpl, flags=0, counts=[1] * len(tmpl.blocks)))
                m[bn][0][vn] = rng.randrange(10 ** 15, 2 * 10 ** 15)
                yield "timestamps", bytes(im.ser.serialize(m)).hex()
            except Exception as e:  # noqa
                yield "genfail:" + type(e).__name__, None
    per = ctx.pick(3, 25)
    keys = {k[0] for k in im.se.SUBFIELD_SERIALIZERS}
    for tmpl in im.templates:
        n = per * (4 if tmpl.name in keys else 1)
        if tmpl.name in ("ObjectUpdate", "ImprovedInstantMessage", "ChatFromSimulator", "AgentUpdate"):
            n *= 2
        for i in range(n):
            flags = rng.choice([0, 0, 0x40, 0x80, 0xC0, 0x20, 0x01, 0x47])
            try:
                yield "gen", g.datagram(tmpl, flags=flags).hex()
            except Exception as e:  # generator could not build a decodable datagram
                yield "genfail:" + type(e).__name__, None


def suite_wire(ctx, seeds_out):
    im = impl()
    res = CorrResult(suite="wire messages: to_human_string -> model formatter, hypotheses, from_human_string(safe) -> body",
                     rule="for every message of the template (481) several random bodies are built at the byte level (block counts 0..5 "
                          "for Variable blocks, every variable type, string values stressing the text syntax: >=5 newlines, >100 columns, "
                          "both quotes, trailing backslash, '#', '[[x]]', '<..>', uuid-like, non-UTF8, NULs, unicode spaces, statements "
                          "and block headers inside strings; finite floats incl. -0.0, denormals, 1e22; bytes accepted by the subfield "
                          "serializer where one exists), decoded by the real deserializer, shown plain and beautified, with and "
                          "without replacement table and template hint; (i) extracted to_human on the translated presentation == real "
                          "text, (ii) theorem hypotheses per variable, (iii) real from_human_string(safe=True) -> serialize == body. "
                          "non-trivial = distinct (datagram, mode) with at least one multi-line or packed variable")
    dist = collections.Counter()
    seen = set()
    fmt_lines, fmt_expect = [], []
    nontriv = 0
    classes_seen = {}
    n_eval = 0
    budget_seeds = 60
    for kind, dgx in wire_cases(ctx):
        if dgx is None:
            dist[kind] += 1
            continue
        for beautify in (False, True):
            use_repl = beautify and ctx.rng.random() < 0.5
            use_tmpl = ctx.rng.random() < 0.5
            key = (dgx, beautify, use_repl, use_tmpl)
            if key in seen:
                continue
            seen.add(key)
            n_eval += 1
            r = check_roundtrip(im, dgx, beautify, use_repl, use_tmpl)
            dist[kind + ":" + ("beautified" if beautify else "plain")] += 1
            if r["status"] == "skip":
                dist["outside-scope:" + r["why"]] += 1
                continue
            if r["status"] == "violation":
                cls = r.get("class", "?")
                dist["violation:" + cls] += 1
                if cls not in classes_seen or len(dgx) < len(classes_seen[cls]["datagram"]):
                    classes_seen[cls] = public_case(r)
                if "m" not in r:
                    continue
            m, txt, repl = r["m"], r["text"], r["repl_table"]
            # (i) model formatter and (ii) hypotheses
            pres_map = {}
            interesting = False
            hyp_fail = None
            for bn, bl in m.blocks.items():
                for bi, b in enumerate(bl):
                    for k, v in b.items():
                        p = present(im, m, b, k, v, repl, beautify)
                        pres_map[(bn, bi, k)] = p
                        if len(p[1]) > 1 or p[0] != "plain":
                            interesting = True
                        if r["status"] == "ok" and hyp_fail is None:
                            h = check_hyps(im, m, bn, bi, b, k, v, p, repl)
                            if h:
                                hyp_fail = {"msg": m.name, "block": bn, "var": k, "hypothesis": h, "datagram": dgx, "beautify": beautify,
                                            "what": "round trip holds although a hypothesis of the theorem fails (assumption too strong?)"}
            if hyp_fail:
                dist["hypothesis-fails-but-roundtrip-ok"] += 1
                res.disagreements.append(hyp_fail)
            if interesting:
                nontriv += 1
            comments = []
            if m.packet_id is not None:
                comments.append("# ID: %s%s%s" % (m.packet_id, ", DROPPED" if m.dropped else "", ", SYNTHETIC" if m.synthetic else ""))
            if m.extra:
                comments.append("# EXTRA: %r" % (m.extra,))
            suffixes = {}
            if r["tmpl"]:
                t = im.TD.get_template_by_name(m.name)
                for bn in m.blocks:
                    if t.get_block(bn).block_type == im.MsgBlockType.MBT_VARIABLE:
                        suffixes[bn] = "  # Variable"
            fmt_lines.append(enc_msg(im, m, pres_map, comments, suffixes))
            fmt_expect.append((txt, dgx, beautify))
            if len(seeds_out) < budget_seeds and (interesting or ctx.rng.random() < 0.05) and len(txt) < 6000:
                seeds_out.append(txt)
    out = ctx.run_driver(fmt_lines) if fmt_lines else []
    for line, (txt, dgx, beautify) in zip(out, fmt_expect):
        want = show_s(txt)
        if line != want:
            res.disagreements.append({"what": "model to_human differs from to_human_string", "datagram": dgx, "beautify": beautify,
                                      "impl_text": txt[:300]})
    for cls, case in sorted(classes_seen.items()):
        res.impl_violations.append(case)
    res.evaluations = n_eval + len(fmt_lines)
    res.distinct_nontrivial = nontriv
    res.distribution = dict(dist)
    res.samples = [{"datagram": d[:80], "beautify": b, "text": t[:200]} for (t, d, b) in fmt_expect[3:6]]
    return res


# --------------------------------------------------------------------------- concrete literal model (Text/PyLiteral.v)

ALPHA_S = ["'", '"', "\\", "\n", "\0", "\x7f", "\x80", "\xff", "\U0001F600", "a", " "]
ALPHA_B = [39, 34, 92, 10, 0, 0x7f, 0x80, 0xff, 97, 32]


def printable_ranges():
    """[lo, hi) ranges of str.isprintable over every code point"""
    out, lo = [], None
    for c in range(0x110000):
        pr = chr(c).isprintable()
        if pr and lo is None:
            lo = c
        elif not pr and lo is not None:
            out += [lo, c]
            lo = None
    if lo is not None:
        out += [lo, 0x110000]
    return out


def enc_val(v) -> str:
    if isinstance(v, str):
        return "s " + " ".join(str(ord(c)) for c in v)
    if isinstance(v, bytes):
        return "b " + " ".join(str(c) for c in v)
    return "i %d %s" % (1 if v < 0 else 0, " ".join(bin(abs(v))[2:]))


def show_cval(v) -> str:
    """canonical form of a value, as the driver's show_pval prints it"""
    if isinstance(v, Sym):
        return v.s
    if type(v) is str:
        return "S:" + show_s(v)
    if isinstance(v, bytes):
        return "B:" + ".".join(str(c) for c in v)
    if type(v) is int:
        return "I:" + ("-" if v < 0 else "") + bin(abs(v))[2:]
    if v is None:
        return "N"
    if isinstance(v, tuple) and all(isinstance(x, _FloatTok) for x in v):
        return "O:1:" + "/".join(show_s(x.src) for x in v)
    return "?:" + type(v).__name__


def real_lines(im, v, ser: bool):
    """the physical lines _format_var feeds to the continuation writer for a plain value (beautify off)"""
    if isinstance(v, (str, bytes)) and not ser:
        return im.PP(width=100).pformat(v).split("\n")
    return repr(v).split("\n")


def real_literal_eval(text: str):
    """('ok', value) | ('exc', name)"""
    import ast
    import warnings
    with warnings.catch_warnings():
        warnings.simplefilter("ignore")
        try:
            return "ok", ast.literal_eval(text)
        except BaseException as e:  # noqa
            if isinstance(e, (KeyboardInterrupt, SystemExit)):
                raise
            return "exc", type(e).__name__


_ESC_OK = re.compile(r"\\(?:[\\'\"nrtabfv]|x[0-9a-fA-F]{2}|u[0-9a-fA-F]{4}|U[0-9a-fA-F]{8})")
_STR_TOK = re.compile("([A-Za-z]*)(" + "'" * 3 + "|" + '"' * 3 + "|'|\")")


def outside_fragment(text: str):
    """why a text CPython accepts lies outside the literal fragment the model reads (None: it is inside)"""
    import io
    import tokenize
    try:
        toks = list(tokenize.generate_tokens(io.StringIO(text).readline))
    except Exception as e:
        return "untokenizable:" + type(e).__name__
    rest = list(text)
    depth = 0
    for i, t in enumerate(toks):
        if t.type == tokenize.STRING:
            m = _STR_TOK.match(t.string)
            if not m:
                return "string-shape"
            if m.group(1).lower() not in ("", "b"):
                return "string-prefix"
            if len(m.group(2)) == 3:
                return "triple-quoted"
            body = t.string[len(m.group(0)):-1]
            isb = m.group(1) != ""
            j = 0
            while j < len(body):
                if body[j] == "\\":
                    mm = _ESC_OK.match(body, j)
                    if not mm or (isb and body[j + 1] in "uU"):
                        return "escape"
                    j = mm.end()
                else:
                    j += 1
            if t.start[0] == t.end[0] == 1:
                for k in range(t.start[1], min(t.end[1], len(rest))):
                    rest[k] = "x"
        elif t.type == tokenize.NUMBER:
            if not re.fullmatch(r"[0-9]+", t.string):
                return "number-form"
        elif t.type == tokenize.NAME:
            return "name"
        elif t.type == tokenize.OP:
            if t.string == "+":
                return "plus"
            if t.string == "-":
                nxt = toks[i + 1] if i + 1 < len(toks) else None
                if nxt is None or nxt.type != tokenize.NUMBER:
                    return "minus-before-non-number"
            if t.string == "(":
                depth += 1
                if depth > 200:
                    return "nesting"
            if t.string == ")":
                depth -= 1
    if any(c in "\r\n\x0c" for c in rest):
        return "whitespace"
    return None


def gen_values(rng, pick):
    """yields (kind, value) for the value-level suites; the 'exh-*' kinds are exhaustive"""
    import itertools
    n = pick(4, 5)
    for k in range(n + 1):
        for t in itertools.product(ALPHA_S, repeat=k):
            yield "exh-str", "".join(t)
    for k in range(n + 1):
        for t in itertools.product(ALPHA_B, repeat=k):
            yield "exh-bytes", bytes(t)
    # width boundaries of the pretty printer (100 columns) and of the newline threshold (5)
    for w in range(88, 108):
        for v in ("x" * w, "x" * (w - 1) + "'", "x" * (w - 2) + "'\"", "x" * w + "\n", ("word " * 40)[:w], ("w " * 80)[:w],
                  " " * w, "x" * w + " y", ("ab\n" * 4)[:-1] + "x" * w, "\n" * 4 + "x" * w, "x" * w + "\r\nz", "x" * w + "\x85",
                  " ".join(["x" * (w // 2)] * 3), "x" * w + "\x0b\x0c\x1c\x1d\x1e" + "y" * w, "\xe9" * w, "\x00" * (w // 4),
                  ("word  \xa0" * 30)[:w + 40], "x" * (w - 4) + "\x7f", "\U0001F600" * (w // 2) + " " + "z" * w):
            yield "width", v
        for v in (b"x" * w, b"\xff" * (w // 4), b"\xff" * (w // 4) + b"a", b"x" * (w - 4) + b"'", b"ab\x00" * (w // 3), b"'\"" * (w // 2),
                  b"\n" * 4 + b"x" * w, b"x" * w + b"\n\n\n\n\n", bytes(range(256))[:w], b"\x00" * w, b"x" * 199 + b"\xff" * (w - 88)):
            yield "width", v
    for k in range(0, 9):
        for tail in ("", "t", "\n", "'", "\\"):
            yield "newlines", "a\n" * k + tail
            yield "newlines", ("b\n" * k + tail).encode()
            yield "newlines", "l'\"\\\n" * k + "x" * 120 + tail
    for d in (0, 1, -1, 9, 10, -10, 42, -42, 127, 128, 255, 256, 65535, 65536, 2 ** 31 - 1, 2 ** 31, -2 ** 31, 2 ** 32 - 1, 2 ** 32, 2 ** 63 - 1,
              2 ** 63, -2 ** 63, 2 ** 64 - 1, 2 ** 64, 10 ** 19, -10 ** 20 + 1, 10 ** 40):
        yield "int", d
    words = ["word", "x", "it's", '"q"', "\\", "tab\t", "\xe9", "\U0001F600", "\x00", "\xa0", " ", " ", "  ", "-", "a-b-c", "<1,2>", "[[X]]", "#", "$",
             "\x7f", "\x85", "\ud800", "\r", "b'", "\uffff", "\U0010ffff", "=|", "\\n"]
    for _ in range(pick(700, 6000)):
        k = rng.choice([0, 1, 2, 5, 12, 20, 30, 60, 100, 200, 400])
        nl = rng.choice([0, 0, 0, 1, 3, 4, 5, 6, 9, 40])
        parts = [rng.choice(words + ["x" * rng.randrange(1, 130)]) + rng.choice(["", " ", " ", "  "]) for _ in range(k)]
        for _ in range(nl):
            parts.insert(rng.randrange(len(parts) + 1), "\n")
        v = "".join(parts)
        r = rng.random()
        if r < 0.45:
            yield "random", v
        elif r < 0.7:
            yield "random", v.encode("utf8", "surrogatepass")[:1400]
        elif r < 0.9:
            yield "random", bytes(rng.randrange(256) for _ in range(rng.choice([0, 1, 4, 5, 8, 23, 24, 25, 26, 60, 97, 100, 101, 300]))) + b"\n" * nl
        else:
            yield "random", rng.randrange(-2 ** 70, 2 ** 70) >> rng.choice([0, 8, 40, 64])


def value_case(v):
    if isinstance(v, str):
        return {"kind": "str", "cps": [ord(c) for c in v]}
    if isinstance(v, bytes):
        return {"kind": "bytes", "hex": v.hex()}
    return {"kind": "int", "dec": str(v)}


def case_value(c):
    if c["kind"] == "str":
        return "".join(chr(x) for x in c["cps"])
    if c["kind"] == "bytes":
        return bytes.fromhex(c["hex"])
    return int(c["dec"])


def literal_roundtrip_fails(im, v, ser: bool):
    """the value-level clause on the implementation: None, or what goes wrong"""
    try:
        lines = real_lines(im, v, ser)
    except Exception as e:
        return "formatter raises " + type(e).__name__
    r = lines_ok(lines)
    if r:
        return r
    for l in lines:
        if l.strip()[0] in "[#$|":
            return "line starts with a bracket, hash, dollar or bar"
    joined = "".join(l.strip() for l in lines)
    if re.match(r"\[\[(\w+)]]", joined) or joined.startswith("<") or re.match(r"\A\w+-\w+-.*", joined):
        return "taken for a replacement / vector / uuid"
    st, got = real_literal_eval(joined)
    if st != "ok":
        return "literal_eval raises " + got
    if type(got) is not (bytes if isinstance(v, bytes) else type(v)) or got != v:
        return "reads back to another value"
    return None


def suite_literals(ctx, vals):
    im = impl()
    res = CorrResult(suite="python literals: extracted renderer/reader vs repr, HippoPrettyPrinter, ast.literal_eval",
                     rule="printable oracle = str.isprintable over all code points (its only assumed fact, no printable surrogate, is checked); "
                          "(a) code points in blocks of 256 (thorough: all; quick: the BMP, plane boundaries, every 16th block, a seeded sample) and every byte: model repr == repr; (b) values: every str over %d characters "
                          "(both quotes, backslash, newline, NUL, 0x7f, 0x80, 0xff, a non-BMP character, a letter, a space) and every bytes over "
                          "%d byte values up to length %d (exhaustive), width boundaries 88..107 columns, 0..8 newlines around the threshold, "
                          "boundary ints, random long values (0..40 newlines, up to 1400 bytes); for each value and both _format_var "
                          "choices: model lines == HippoPrettyPrinter(width=100).pformat / repr byte for byte, model read_lit of the stripped "
                          "concatenation == ast.literal_eval == the value; (c) reader on mutated literal texts: model Some v => literal_eval "
                          "gives v; model None => literal_eval raises, gives another type, or the text is outside the modelled fragment (counted). "
                          "non-trivial = value needing an escape, several lines, or a mutated text" % (len(ALPHA_S), len(ALPHA_B), ctx.pick(4, 5)))
    dist = collections.Counter()
    rngs = printable_ranges()
    # the hypothesis of the theorems on the printable oracle
    for i in range(0, len(rngs), 2):
        if rngs[i] < 0xE000 and rngs[i + 1] > 0xD800:
            res.disagreements.append({"what": "a surrogate code point is printable: hypothesis of the literal theorems fails", "range": rngs[i:i + 2]})
    lines = ["I " + " ".join(map(str, rngs))]
    # (a) code point sweep
    blocks = []
    for lo in range(0, 0x110000, 256):
        # quick tier: the whole BMP, both ends of every plane, every 16th block in between and a seeded sample
        if ctx.thorough or lo < 0x10000 or (lo & 0xFFFF) in (0, 0xFF00) or (lo >> 8) % 16 == 0 or ctx.rng.random() < 0.03:
            blocks.append("".join(chr(c) for c in range(lo, lo + 256)))
    blocks.append(bytes(range(256)))
    blocks += [bytes([c]) for c in range(256)]
    for b in blocks:
        lines.append("R 1 " + enc_val(b))
    # (b) values
    for kind, v in vals:
        dist[kind] += 1
        sers = (0,) if kind.startswith("exh") or isinstance(v, int) else (0, 1)
        for ser in sers:
            lines.append("R %d %s" % (ser, enc_val(v)))
    out = ctx.run_driver(lines)
    if out[0] != "OK":
        res.disagreements.append({"what": "driver did not accept the printable table", "got": out[0][:80]})
    pos = 1
    for b in blocks:
        want = show_s(repr(b))
        if out[pos] != want:
            res.disagreements.append({"what": "repr of a code point block differs", "first": (ord(b[0]) if isinstance(b, str) else b[0]),
                                      "type": type(b).__name__, "model": out[pos][:120], "impl": want[:120]})
        pos += 1
    res.evaluations += len(blocks)
    reads, expect = [], []
    nontriv = 0
    render_div = []
    for kind, v in vals:
        sers = (0,) if kind.startswith("exh") or isinstance(v, int) else (0, 1)
        for ser in sers:
            mod = out[pos]
            pos += 1
            try:
                rl = real_lines(im, v, bool(ser))
                want = "|".join(show_s(l) for l in rl)
            except Exception as e:
                rl, want = None, "EXC:" + type(e).__name__
            if mod != want:
                render_div.append((len(mod), len(render_div), {"what": "rendered lines differ", "value": value_case(v), "ser": bool(ser), "model": mod[:300],
                                                               "impl": want[:300], "class": "literal-render-divergence", "model_lines": mod}))
                dist["render-divergence"] += 1
            bad = literal_roundtrip_fails(im, v, bool(ser))
            if bad:
                dist["roundtrip-violation"] += 1
                if len(res.impl_violations) < 5 or len(enc_val(v)) < min(len(enc_val(case_value(x["value"]))) for x in res.impl_violations):
                    res.impl_violations.insert(0, {"clause": "the text shown for a str/bytes/int value reads back to it: " + bad, "class": "literal-roundtrip",
                                                   "value": value_case(v), "ser": bool(ser)})
            if rl is not None:
                joined = "".join(l.strip() for l in rl)
                reads.append("E " + " ".join(str(ord(c)) for c in joined))
                expect.append((joined, v))
                if len(rl) > 1 or "\\" in joined:
                    nontriv += 1
    res.disagreements += [d for _, _, d in sorted(render_div, key=lambda t: t[:2])[:40]]     # smallest first
    # (c) mutated literal texts
    rng = ctx.rng
    pool = [j for j, _ in expect if len(j) < 400]
    mchars = list("'\"\\bBurRfx0189aAnN()# \t-+_.,:jeE{}[]") + ["\0", "\r", "\n", "\x0c", "\xe9", "\ud800", "\U0001F600", "\x0b", "\xa0", "\\x", "\\u", "\\U", "\\N{", "\\0",
                                                              "'" * 3, '"' * 3]
    hand = ["", " ", "1", " 1 ", "\t7\t", "(1)", "((2))", "( 3 )", "(", ")", "()", "(1,)", "1,", "-1", "- 1", "-(1)", "--1", "+1", "-", "00", "007", "0", "-0", "1_0", "0x10", "0b1", "0o7",
            "1.0", "1e3", "1j", "1 # c", "1#", "1 #\0", "1 # \ud800", "# only", "'a' 'b'", "'a'\t\"b\"", "'a' b'c'", "b'a' 'c'", "b'a' B\"c\"", "'a'b'c'", "u'a'", "r'a'", "rb'a'", "f'a'",
            "'" * 3 + "a" + "'" * 3, "'" * 4 + "a'", "'a" + "'" * 4 + "b'", "''", "'' ''", "'" * 4, "'" * 3, "'a", "a'", "'a\\'", "'\\x4'", "'\\x4g'", "'\\u12'", "'\\U00110000'", "'\\U0010ffff'",
            "'\\ud800'", "b'\\u0041'", "b'\\xff'", "b'\xff'", "b'\x7f'", "'\\101'", "'\\0'", "'\\N{DASH}'", "'\\q'", "'\\a\\b\\f\\v'", "True", "None", "'a' if 1 else 'b'", "'a'+'b'", "'a'*2",
            "[1]", "{1}", "'a' # ' c", "(" * 200 + "1" + ")" * 200, "(" * 201 + "1" + ")" * 201, "9" * 4300, "9" * 4301, "-" + "9" * 4301, "0" * 4301, "('a'\r'b')", "1\x0c",
            "'a'\x0c'b'", "\ufeff1", "1;", "'a';"]
    muts = list(hand)
    for _ in range(ctx.pick(5000, 40000)):
        t = list(rng.choice(pool)) if pool else list("'a'")
        for _ in range(rng.choice((1, 1, 1, 2, 3))):
            p = rng.randrange(len(t) + 1)
            op = rng.random()
            if op < 0.4:
                t[p:p] = list(rng.choice(mchars))
            elif op < 0.65 and t:
                del t[min(p, len(t) - 1)]
            elif op < 0.85 and t:
                t[min(p, len(t) - 1)] = rng.choice(mchars)[0]
            elif op < 0.93:
                t = t[:p]
            else:
                q = rng.randrange(len(t) + 1)
                t[p:p] = t[min(p, q):max(p, q)][:40]
        muts.append("".join(t))
    mseen = set()
    muts = [m for m in muts if not (m in mseen or mseen.add(m))]
    for m in muts:
        reads.append("E " + " ".join(str(ord(c)) for c in m))
    rout = ctx.run_driver(reads)
    for (joined, v), o in zip(expect, rout):
        if o != show_cval(v):
            if len(res.disagreements) < 40:
                res.disagreements.append({"what": "model reader does not return the value from the implementation's text", "value": value_case(v),
                                          "text": joined[:200], "model": o[:200], "class": "literal-read-divergence"})
            dist["read-divergence"] += 1
    for m, o in zip(muts, rout[len(expect):]):
        st, got = real_literal_eval(m)
        indom = st == "ok" and (type(got) in (str, int) or isinstance(got, bytes))
        if o == "NONE":
            if indom:
                why = outside_fragment(m)
                if why is None:
                    res.disagreements.append({"what": "model reader refuses a text inside its fragment that literal_eval reads", "text": m[:200],
                                              "impl": show_cval(got)[:200], "class": "literal-read-divergence"})
                else:
                    dist["mutated:outside-fragment:" + why.split(":")[0]] += 1
            else:
                dist["mutated:both-refuse" if st != "ok" else "mutated:other-type"] += 1
        else:
            if not indom or show_cval(got) != o:
                res.disagreements.append({"what": "model reader accepts a text literal_eval reads differently", "text": m[:200], "model": o[:200],
                                          "impl": (show_cval(got)[:200] if st == "ok" else "EXC:" + got), "class": "literal-read-divergence"})
            else:
                dist["mutated:both-read"] += 1
    res.evaluations += (pos - 1 - len(blocks)) + len(reads)
    res.distinct_nontrivial = nontriv + len(muts)
    res.distribution = dict(dist)
    res.samples = [{"value": value_case(v), "lines": real_lines(im, v, False)[:3]} for _, v in vals[200:203]] + [{"mutated": m[:80]} for m in muts[150:153]]
    ctx.notes.append("literal suite: %d printable ranges; %d values (%d exhaustive up to length %d); %d mutated literal texts"
                     % (len(rngs) // 2, len(vals), dist["exh-str"] + dist["exh-bytes"], ctx.pick(4, 5), len(muts)))
    return res


# ---- concrete messages: to_human / from_human with the concrete renderer and reader

class _FloatTok:
    def __init__(self, src):
        simple_float(src)
        self.src = src


class _FakeSerC:
    def __init__(self, key):
        self.key = key

    def serialize(self, block, val):
        if self.key[2].startswith("Z"):
            raise ValueError("packer raises")
        return Sym("O:5:" + show_s(show_cval(val)))


class _FakeSerTableC:
    def get(self, key, default=None):
        if key[2].startswith("Q"):
            return None
        return _FakeSerC(key)


def real_parse_concrete(text: str, safe: bool):
    """real from_human_string with the real ast.literal_eval restricted to str/bytes/int results; the other oracles symbolic.
    Returns (canonical outcome, literal texts read, exception name)."""
    im = impl()
    mf = im.mf
    evals, lits = [], []

    class AstShim:
        @staticmethod
        def literal_eval(s):
            lits.append(s)
            st, v = real_literal_eval(s)
            if st != "ok":
                raise ValueError(v)
            if not (type(v) in (str, int) or isinstance(v, bytes)):
                raise ValueError("outside the modelled kinds")
            return v

    class DtShim:
        @staticmethod
        def UUID(s):
            return Sym("O:2:" + show_s(s))

    class SeShim:
        SUBFIELD_SERIALIZERS = _FakeSerTableC()

    def fake_subfield_eval(s, globals_=None, locals_=None):
        evals.append(s)
        return Sym("O:4:" + show_s(s))

    saved = {k: mf.__dict__.get(k, _MISSING) for k in ("ast", "datatypes", "se", "subfield_eval", "float")}
    mf.ast, mf.datatypes, mf.se = AstShim, DtShim, SeShim
    mf.subfield_eval = fake_subfield_eval
    mf.float = _FloatTok
    saved_rl = im.H.__dict__.get("_read_literal", _MISSING)
    im.H._read_literal = staticmethod(lambda s_: AstShim.literal_eval(s_))
    try:
        repl = {k: Sym("O:3:" + show_s(k)) for k in KNOWN_REPL}
        try:
            m = im.H.from_human_string(text, replacements=repl, env={}, safe=safe)
        except BaseException as e:  # noqa
            if isinstance(e, (KeyboardInterrupt, SystemExit)):
                raise
            return "ERR|" + ",".join(show_s(s) for s in evals), lits, type(e).__name__
        if m is None:
            return "NOMSG", lits, None
        return canon_cmsg(m, evals), lits, None
    finally:
        if saved_rl is _MISSING:
            try:
                delattr(im.H, "_read_literal")
            except Exception:
                pass
        else:
            im.H._read_literal = saved_rl
        for k, v in saved.items():
            if v is _MISSING:
                mf.__dict__.pop(k, None)
            else:
                setattr(mf, k, v)


def canon_cmsg(m, evals=()):
    blocks = []
    for bn, bl in m.blocks.items():
        for b in bl:
            blocks.append("%s[%s]" % (show_s(bn), ";".join("%s=%s" % (show_s(k), show_cval(v)) for k, v in b.items())))
    return "MSG|%s|%s|%d|%s|%s" % (m.direction.name, show_s(m.name), int(m.send_flags), " ".join(blocks), ",".join(show_s(s) for s in evals))


def enc_cmsg(im, m, comments):
    out = [1 if m.direction.name == "IN" else 0] + enc_s(m.name) + [int(m.send_flags), len(comments)]
    for c in comments:
        out += enc_s(c)
    out.append(len(m.blocks))
    for bn, bl in m.blocks.items():
        out += enc_s(bn) + enc_s("") + [len(bl)]
        for b in bl:
            out.append(len(b.vars))
            for k, v in b.vars.items():
                ser = 1 if im.se.SUBFIELD_SERIALIZERS.get((m.name, bn, k)) else 0
                out += enc_s(k) + [ser]
                if isinstance(v, str):
                    out += [0] + enc_s(v)
                elif isinstance(v, bytes):
                    out += [1, len(v)] + list(v)
                else:
                    bits = [int(c) for c in bin(abs(v))[2:]]
                    out += [2, 1 if v < 0 else 0, len(bits)] + bits
    return "M " + " ".join(map(str, out))


def gen_cmsgs(ctx, values):
    """messages built directly (not decoded from the wire) whose variables are str / bytes / int values"""
    from hippolyzer.lib.base.message.message import Message, Block
    from hippolyzer.lib.base.network.transport import Direction
    im = impl()
    rng = ctx.rng
    by_msg = collections.defaultdict(list)
    for (mn, bn, vn) in sorted(im.se.SUBFIELD_SERIALIZERS):
        by_msg[mn].append((bn, vn))
    real_names = sorted(by_msg)
    vnames = ["Test1", "Data", "Num", "x", "_y", "A1", "Name", "Message", "ID", "Zed", "Q", "k9", "Flags", "b", "u"]
    # the framing model reverses the accumulated value text with the quadratic List.rev at every continuation line:
    # values whose rendered text is long are exercised by the value-level suite only
    pool = [v for k, v in values if not k.startswith("exh") and sum(map(len, real_lines(im, v, False))) <= 600]
    pool += [v for k, v in values if k.startswith("exh")][::37]
    out = []
    for i in range(ctx.pick(260, 1500)):
        if rng.random() < 0.5:
            mn = rng.choice(real_names)
            keys = by_msg[mn]
        else:
            mn = rng.choice(["TestMessage", "M", "Chat_1", "x9"])
            keys = []
        m = Message(mn, direction=rng.choice([Direction.OUT, Direction.IN]))
        m.send_flags = rng.choice([0, 0, 0x40, 0x80, 0xC0, 0x20, 0x01, 0x47, 1023])
        if rng.random() < 0.3:
            m.packet_id = rng.randrange(1, 100000)
        bnames = list(dict.fromkeys([bn for bn, _ in keys] + rng.sample(["TestBlock1", "B", "Data", "NeighborBlock", "b_2"], rng.randrange(0, 3))))
        rng.shuffle(bnames)
        for bn in bnames[:rng.randrange(1, 4)]:
            cnt = rng.choice([0, 1, 1, 1, 2, 3])
            if cnt == 0:
                m.create_block_list(bn)
            for _ in range(cnt):
                names = [vn for b2, vn in keys if b2 == bn] + rng.sample(vnames, rng.randrange(0, 4))
                names = list(dict.fromkeys(names))
                rng.shuffle(names)
                kw = {}
                for vn in names[:rng.randrange(0, 5)]:
                    v = rng.choice(pool)
                    if rng.random() < 0.2:
                        v = rng.choice(["", b"", 0, "a\nb\nc\nd\ne\nf", b"\x00", "'", '"', "\\", "x = 1 \\", "[B]", "# c", "=$ evil()", "ab-cd-ef", "<1,2>", "[[X]]"])
                    kw[vn] = v
                m.add_block(Block(bn, **kw))
        out.append(m)
    return out


def cmsg_case(m):
    return {"class": "concrete-message-roundtrip", "name": m.name, "direction": m.direction.name, "flags": int(m.send_flags),
            "blocks": [[bn, [[[k, value_case(v)] for k, v in b.items()] for b in bl]] for bn, bl in m.blocks.items()]}


def case_cmsg(c):
    from hippolyzer.lib.base.message.message import Message, Block
    from hippolyzer.lib.base.network.transport import Direction
    m = Message(c["name"], direction=Direction[c["direction"]])
    m.send_flags = c["flags"]
    for bn, bl in c["blocks"]:
        if not bl:
            m.create_block_list(bn)
        for b in bl:
            m.add_block(Block(bn, **{k: case_value(v) for k, v in b}))
    return m


def cmsg_roundtrip_fails(im, m):
    """C11 on a directly built message with str/bytes/int values, plain form: (None or the failing clause, text)"""
    try:
        txt = str(im.H.to_human_string(m, beautify=False))
    except Exception as e:
        return "to_human_string raises " + type(e).__name__, None
    try:
        m2 = im.H.from_human_string(txt, safe=True)
    except Exception as e:
        return "from_human_string(to_human_string(m), safe=True) raises " + type(e).__name__, txt
    if m2 is None or canon_cmsg(m2) != canon_cmsg(m):
        return "parsed message differs from the message shown", txt
    return None, txt


def suite_cmsg(ctx, values):
    im = impl()
    res = CorrResult(suite="concrete messages: extracted to_human/from_human with the literal model vs to_human_string/from_human_string",
                     rule="messages built directly (real names with registered subfield serializers, and synthetic names; IN/OUT, flags, packet "
                          "ids, 0..3 blocks per list incl. empty lists, variables holding str/bytes/int values from the literal suite plus values "
                          "that look like statements, block headers, comments, uuids, vectors, replacement tokens) shown with beautify off: "
                          "(i) extracted to_human with the concrete renderer == to_human_string; (ii) extracted from_human with the concrete "
                          "reader returns the message; (iii) from_human_string(safe=True) returns the same values (the theorem's claim on the "
                          "code); (iv) on seeded mutations of these texts the extracted parser and the real one (real ast.literal_eval, other "
                          "oracles symbolic) agree on error/none/message and on every value. non-trivial = message with a multi-line value or a mutated text")
    dist = collections.Counter()
    msgs = gen_cmsgs(ctx, values)
    skip = set()
    lines, texts = ["I " + " ".join(map(str, printable_ranges()))], []
    for m in msgs:
        comments = []
        if m.packet_id is not None:
            comments.append("# ID: %s%s%s" % (m.packet_id, ", DROPPED" if m.dropped else "", ", SYNTHETIC" if m.synthetic else ""))
        bad, txt = cmsg_roundtrip_fails(im, m)
        if txt is not None and max(map(len, txt.split("\n"))) > 1500:
            # the framing model strips lines with the quadratic list reversal; very long physical lines are left to the value-level suite
            dist["skipped-long-line"] += 1
            skip.add(id(m))
            continue
        lines.append(enc_cmsg(im, m, comments))
        texts.append(txt)
        if bad:
            dist["violation"] += 1
            if len(res.impl_violations) < 5:
                res.impl_violations.append(dict(cmsg_case(m), clause=bad))
    msgs = [m for m in msgs if id(m) not in skip]
    out = ctx.run_driver(lines)[1:]
    plines = []
    nontriv = 0
    for m, txt, o in zip(msgs, texts, out):
        if txt is None:
            continue
        if o != show_s(txt):
            res.disagreements.append(dict(cmsg_case(m), what="model to_human differs from to_human_string", impl_text=txt[:300], model_text=o[:200], model_full=o))
        if " \\\n" in txt:
            nontriv += 1
        plines.append("Q 1 " + " ".join(str(ord(c)) for c in txt))
    # mutated texts
    rng = ctx.rng
    good = [t for t in texts if t is not None and len(t) < 3000]
    muts = []
    mchars = list("'\"\\\n\n  #[]=|$<>-,()b01a") + [" \\\n", "\\\n    ", "=$ ", "=| ", "[[X]]", "'\n'", "\x85", "\xa0", "\r"]
    for _ in range(ctx.pick(2000, 15000)):
        t = list(rng.choice(good)) if good else list("OUT M\n[B]\n  a = 1")
        for _ in range(rng.choice((1, 1, 2, 3))):
            p = rng.randrange(len(t) + 1)
            op = rng.random()
            if op < 0.35:
                t[p:p] = list(rng.choice(mchars))
            elif op < 0.55 and t:
                del t[min(p, len(t) - 1)]
            elif op < 0.7 and t:
                t[min(p, len(t) - 1)] = rng.choice(mchars)[0]
            elif op < 0.85:
                ls = "".join(t).split("\n")
                i = rng.randrange(len(ls))
                if rng.random() < 0.5:
                    ls.insert(rng.randrange(len(ls) + 1), ls[i])
                elif len(ls) > 1:
                    del ls[i]
                t = list("\n".join(ls))
            else:
                t = t[:p]
        muts.append("".join(t))
    mseen = set()
    muts = [m for m in muts if not (m in mseen or mseen.add(m)) and not check_alphabet({ord(c) for c in m if ord(c) >= 128})]
    for t in muts:
        cps = " ".join(str(ord(c)) for c in t)
        plines.append("Q 1 " + cps)
        plines.append("Q 0 " + cps)
    pout = ctx.run_driver(plines)
    k = 0
    for m, txt in zip(msgs, texts):
        if txt is None:
            continue
        if pout[k] != canon_cmsg(m):
            res.disagreements.append(dict(cmsg_case(m), what="model from_human does not return the message from the implementation's text", model=pout[k][:300]))
        k += 1
    for t in muts:
        for safe in (True, False):
            mo = pout[k]
            k += 1
            ro, lits, exc = real_parse_concrete(t, safe)
            dist[("safe:" if safe else "unsafe:") + ro.split("|")[0]] += 1
            if mo != ro:
                why = None
                if mo.startswith("ERR"):
                    for l in lits:
                        st, got = real_literal_eval(l)
                        if st == "ok":
                            why = outside_fragment(l) or why
                if why:
                    dist["mutated:outside-fragment"] += 1
                else:
                    res.disagreements.append({"what": "parsers differ on a mutated text", "text": t[:400], "safe": safe, "model": mo[:300], "impl": ro[:300], "impl_exc": exc})
    res.evaluations = len(lines) + len(plines)
    res.distinct_nontrivial = nontriv + len(muts)
    res.distribution = dict(dist, messages=len(msgs), mutated=len(muts))
    res.samples = [{"text": t[:200]} for t in good[3:6]]
    return res


def generate(ctx):
    """(G) the printable oracle of the literal theorems as a table regenerated from the running interpreter"""
    import sys
    import unicodedata
    rngs = printable_ranges()
    pairs = ["(%d, %d)" % (rngs[i], rngs[i + 1]) for i in range(0, len(rngs), 2)]
    body = ["(* GENERATED by harness/props/c11.py:generate on every run - do not edit.",
            "   str.isprintable of CPython %s (unicodedata %s) as half-open code point ranges. *)"
            % (sys.version.split()[0], unicodedata.unidata_version),
            "From Coq Require Import NArith List Bool.",
            "From HV Require Import Text.HumanText Text.PyLiteral Text.PyLiteralProofs.",
            "Import ListNotations.", "Open Scope N_scope.", "",
            "Definition py_printable_ranges : list (N * N) :=", "  [ " + ";\n    ".join(pairs) + " ].", "",
            "Definition py_printable (c : N) : bool := in_ranges py_printable_ranges c.", "",
            "(* generated obligation: no range of the live table meets the surrogate block *)",
            "Lemma C11_gen_ranges_nosur : ranges_nosur py_printable_ranges = true.",
            "Proof. vm_compute. reflexivity. Qed.", "",
            "Lemma C11_gen_printable_nosur : forall c, py_printable c = true -> is_sur c = false.",
            "Proof. exact (in_ranges_nosur py_printable_ranges C11_gen_ranges_nosur). Qed.", ""]
    gen = os.path.join(VERIF, "coq", "gen")
    os.makedirs(gen, exist_ok=True)
    with open(os.path.join(gen, "C11_printable_gen.v"), "w") as f:
        f.write("\n".join(body))
    ctx.notes.append("printable table: %d ranges from str.isprintable (CPython %s, Unicode %s)"
                     % (len(pairs), sys.version.split()[0], unicodedata.unidata_version))
    return [{"name": "gen/C11_printable_gen.v:C11_gen_ranges_nosur",
             "detail": "live str.isprintable table (%d ranges): no printable surrogate, by vm_compute; instantiates the literal theorems "
                       "without any oracle premise (C11_text_roundtrip_cpython)" % len(pairs)}]


def literal_values(ctx):
    seen, vals = set(), []
    for kind, v in gen_values(ctx.rng, ctx.pick):
        key = (type(v).__name__, v)
        if key not in seen:
            seen.add(key)
            vals.append((kind, v))
    return vals


# --------------------------------------------------------------------------- safe mode with the REAL literal reader

SAFE_EXPRS = [
    # bare names and containers of them (what repr() shows for non-finite floats), then expressions built on them
    "inf", "-inf", "nan", "(inf, nan, 1.0)", "[inf]", "{inf: nan}", "inf+1", "-inf - 1", "nan*0", "1 if nan else 0", "(2*3) if nan else 0",
    "[inf][0]", "(inf,)[0]", "nan.__class__", "inf.real", "inf.__class__.__base__", "().__class__.__base__.__subclasses__() or inf",
    "nan or 5", "inf and 5", "not nan", "inf if inf else inf", "f'{inf}'", "'%s' % inf", "lambda: inf", "[nan for nan in (1,)]",
    # plain expressions
    "1+1", "2*3", "-(-1)", "1 if 1 else 0", "[1][0]", "(1).real", "abs(-1)", "len('ab')", "__import__('os')", "().__class__", "'a'.upper()",
    "'a' 'b'.upper()", "[x for x in (1,)]", "True and 1", "1 or 2", "1 < 2", "1 and inf", "(lambda: 1)()", "{*()}", "b'a'[0]", "~0", "2**3",
    # literals (must be accepted, or rejected, without evaluation)
    "1", "-1", "'a'", "b'a'", "(1, 2.5, -3)", "[1, 'a']", "{'a': 1}", "None", "True", "1e400", "-1e400",
]


def _is_expression(text):
    """the text, as a Python expression, contains an operation (operator, call, attribute, subscript, comprehension, lambda,
    conditional, f-string, name other than a constant-like bare name) - as opposed to a literal display"""
    import ast as _ast
    try:
        tree = _ast.parse(text.strip(), mode="eval")
    except SyntaxError:
        return None

    def lit(n):
        if isinstance(n, _ast.Constant):
            return True
        if isinstance(n, _ast.Name):
            return True       # a bare name is not an operation (whether a reader accepts `inf` is not this clause's business)
        if isinstance(n, _ast.UnaryOp) and isinstance(n.op, (_ast.USub, _ast.UAdd)):
            return lit(n.operand)
        if isinstance(n, _ast.BinOp) and isinstance(n.op, (_ast.Add, _ast.Sub)) and isinstance(n.right, _ast.Constant) \
                and isinstance(n.right.value, complex):
            return lit(n.left)      # complex literals a+bj are literals for literal_eval
        if isinstance(n, (_ast.Tuple, _ast.List, _ast.Set)):
            return all(lit(e) for e in n.elts)
        if isinstance(n, _ast.Dict):
            return all(k is not None and lit(k) and lit(v) for k, v in zip(n.keys, n.values))
        return False
    return not lit(tree.body)


def suite_safe_real(ctx):
    res = CorrResult(suite="safe mode with the real literal reader: texts whose values are expressions (impl-level oracle)",
                     rule="message texts (ChatFromViewer / ObjectUpdate fields) whose values are %d expression and literal texts incl. "
                          "everything built on the bare names repr() shows for non-finite floats, with the operators '=' and '=|', parsed by "
                          "the real from_human_string(safe=True) with the real ast module; eval/exec/compile/__import__ are shadowed in the "
                          "module's namespace and subfield_eval is a recorder.  Clause: no evaluation entry point is reached, and a value "
                          "text that contains an operation is rejected (never turned into a value).  non-trivial = texts with an operation"
                          % len(SAFE_EXPRS))
    im = impl()
    mf = im.mf
    n = nt = 0
    seen = set()
    for expr in SAFE_EXPRS:
        is_expr = _is_expression(expr)
        for op in ("=", "=|"):
            for tmpl in ("OUT ChatFromViewer\n[AgentData]\nAgentID = 00000000-0000-0000-0000-000000000001\n"
                         "SessionID = 00000000-0000-0000-0000-000000000002\n[ChatData]\nMessage = 'x'\nType = 1\nChannel %s %s\n",
                         "OUT ChatFromViewer\n[AgentData]\nAgentID = 00000000-0000-0000-0000-000000000001\n"
                         "SessionID = 00000000-0000-0000-0000-000000000002\n[ChatData]\nMessage %s %s\nType = 1\nChannel = 0\n",
                         "IN ObjectUpdate\n[RegionData]\nRegionHandle = 1\nTimeDilation %s %s\n"):
                text = tmpl % (op, expr)
                calls = []

                def rec(name):
                    def f(*a, **k):
                        calls.append(name)
                        raise RuntimeError("evaluation entry point reached: " + name)
                    return f
                saved = {k: mf.__dict__.get(k, _MISSING) for k in ("eval", "exec", "compile", "__import__", "subfield_eval")}
                mf.eval, mf.exec, mf.compile = rec("eval"), rec("exec"), rec("compile")
                mf.__dict__["__import__"] = rec("__import__")
                mf.subfield_eval = rec("subfield_eval")
                outcome, val = "raised", None
                try:
                    try:
                        m = im.H.from_human_string(text, safe=True)
                        outcome = "parsed"
                        try:
                            blk = m["ChatData"][0] if m.name == "ChatFromViewer" else m["RegionData"][0]
                            val = repr(blk.vars.get("Channel" if "Channel %s" % op in text else ("Message" if m.name == "ChatFromViewer" else "TimeDilation")))
                        except Exception:
                            val = "?"
                    except BaseException as e:  # noqa
                        if isinstance(e, (KeyboardInterrupt, SystemExit)):
                            raise
                finally:
                    for k, v in saved.items():
                        if v is _MISSING:
                            mf.__dict__.pop(k, None)
                        else:
                            mf.__dict__[k] = v
                n += 1
                if is_expr:
                    nt += 1
                bad = None
                if calls:
                    bad = ("safe mode never evaluates: an evaluation entry point (%s) was reached" % calls[0], "safe-mode-eval")
                elif is_expr and outcome == "parsed" and op == "=":
                    bad = ("safe mode never evaluates: a value text containing an operation was turned into a value", "safe-mode-expression-accepted")
                if bad and bad[1] not in seen:
                    seen.add(bad[1])
                    res.impl_violations.append({"clause": bad[0], "class": bad[1], "text": text, "value_text": expr, "got": val,
                                                "entry_points": calls[:3]})
    res.evaluations = n
    res.distinct_nontrivial = nt
    res.samples = [{"value_text": e} for e in SAFE_EXPRS[:4]]
    return res


def _packed_groups(txt):
    """[(first line index, last line index, head before '=|', logical one-line value)] for every packed variable; a value continues
    on the next physical line while the line ends in a backslash"""
    lines = txt.split("\n")
    out = []
    i = 0
    while i < len(lines):
        if "=|" in lines[i] and not lines[i].lstrip().startswith("#"):
            head, _, val = lines[i].partition("=|")
            parts = [val]
            j = i
            while parts[-1].rstrip().endswith("\\") and j + 1 < len(lines):
                parts[-1] = parts[-1].rstrip()[:-1]
                j += 1
                parts.append(lines[j])
            out.append((i, j, head, "".join(p.strip() + " " for p in parts).strip()))
            i = j + 1
        else:
            i += 1
    return lines, out


def _sabotaged(txt):
    """texts derived from a good beautified text that make a packed (=|) value fail part-way: a dict without its last key(s),
    an empty dict, a wrong type, a cut in the middle of the value"""
    lines, groups = _packed_groups(txt)
    out = []
    for (i, j, head, val) in groups[:4]:
        variants = []
        if val.startswith("{") and "," in val:
            cut = val.rfind(",")
            variants.append(val[:cut] + "}")
            cut2 = val.rfind(",", 0, cut)
            if cut2 > 0:
                variants.append(val[:cut2] + "}")
        if val.startswith("(") and "," in val:
            variants.append(val[:val.rfind(",")] + ")")
        if val.startswith("[") and "," in val:
            variants.append(val[:val.rfind(",")] + "]")
        variants += ["{}", "None", "()", "{'Nope': 1}"]
        for v in variants:
            out.append("\n".join(lines[:i] + [head + "=| " + v] + lines[j + 1:]))
    if groups:
        i, j, head, val = groups[0]
        out.append("\n".join(lines[:i] + [head + "=| " + val[:max(1, 2 * len(val) // 3)]]))
    return out


def suite_poison(ctx):
    """a text that is REJECTED must leave nothing behind: parsing the same good text before and after any number of rejected texts
    gives the same datagram body (the parser and the subfield serializers keep no state between calls)"""
    res = CorrResult(suite="repeatability: a good text parses to the same body before and after rejected texts (impl-level oracle)",
                     rule="beautified texts of wire messages with packed (=|) subfields; between two parses of the good text, up to 12 "
                          "sabotaged variants of it (packed dict without its last keys, empty dict, wrong type, cut inside the value) are "
                          "parsed and may raise at any point; clause: text -> safe parse -> body is a function of the text. "
                          "non-trivial = good texts for which at least one sabotaged variant was rejected")
    im = impl()
    n = nt = 0
    want = ctx.pick(60, 600)
    max_scan = ctx.pick(2500, 20000)
    scanned = plain_taken = 0
    seen_cls = set()
    for kind, dgx in wire_cases(ctx):
        if dgx is None:
            continue
        if n >= want:
            break
        scanned += 1
        if scanned > max_scan:
            break
        r = check_roundtrip(im, dgx, True, False, False)
        if r["status"] != "ok" or "=|" not in r.get("text", ""):
            continue
        txt = r["text"]
        # prefer texts with a one-line dict/tuple valued packed field (a template-based subfield: the writer can fail part-way);
        # take the others only while few of those have been found
        rich = any((v[:1] == "{" or v[:2] in ("[{", "({")) and "," in v for (_i, _j, _h, v) in _packed_groups(txt)[1])
        if not rich:
            plain_taken += 1
            if plain_taken > want // 4:
                continue
        try:
            body0 = im.body(im.H.from_human_string(txt, safe=True))
        except Exception:
            continue
        n += 1
        rejected = 0
        for bad in _sabotaged(txt)[:12]:
            try:
                im.body(im.H.from_human_string(bad, safe=True))
            except BaseException as e:  # noqa
                if isinstance(e, (KeyboardInterrupt, SystemExit)):
                    raise
                rejected += 1
            try:
                body1 = im.body(im.H.from_human_string(txt, safe=True))
            except BaseException as e:  # noqa
                if isinstance(e, (KeyboardInterrupt, SystemExit)):
                    raise
                body1 = ("EXC:" + type(e).__name__).encode()
            if body1 != body0:
                if "parse-not-repeatable" not in seen_cls:
                    seen_cls.add("parse-not-repeatable")
                    res.impl_violations.append({"clause": "the text parses back to a message that encodes to the same datagram body - also when "
                                                          "another text was rejected in between", "class": "parse-not-repeatable",
                                                "datagram": dgx, "rejected_text": bad[-400:], "want": body0.hex()[:300],
                                                "got": body1.hex()[:300] if not body1.startswith(b"EXC:") else body1.decode()})
                # re-establish a clean state as far as possible and go on
                break
        if rejected:
            nt += 1
    res.evaluations = n
    res.distinct_nontrivial = nt
    return res


def correspond(ctx):
    seeds = []
    r1 = suite_classes(ctx)
    r3 = suite_wire(ctx, seeds)
    r2 = suite_parser(ctx, seeds)
    vals = literal_values(ctx)
    r4 = suite_literals(ctx, vals)
    r5 = suite_cmsg(ctx, vals)
    ctx.notes.append("proved (Qed, closed): framing round trip under var_ok (C11_text_roundtrip); safe mode never evaluates; for str/bytes/int values "
                     "in plain form the per-value hypotheses themselves (C11_literal_value_roundtrip, C11_repr_str/bytes_reads_back) and the "
                     "hypothesis-free round trip C11_text_roundtrip_concrete; C11_text_roundtrip_mixed keeps var_ok only for the other variables")
    ctx.notes.append("tied: framing model vs real parser/formatter (parser, wire suites); literal renderer/reader model vs repr, "
                     "HippoPrettyPrinter(width=100).pformat and ast.literal_eval byte for byte (literals suite); the instantiated "
                     "to_human/from_human vs to_human_string/from_human_string on directly built messages and mutated texts (concrete messages suite)")
    ctx.notes.append("oracle-only: packed (=|) forms and their subfield serializers, uuid/vector/float values, replacement tokens (var_ok checked per "
                     "generated value by the wire suite); str.isprintable table (premise: no printable surrogate, checked exhaustively)")
    r6 = suite_safe_real(ctx)
    r7 = suite_poison(ctx)
    return [r1, r2, r3, r4, r5, r6, r7]


# --------------------------------------------------------------------------- search / replay

def _shrink(im, case):
    """drop blocks from Variable block lists while the same class of failure persists"""
    try:
        m = im.decode(bytes.fromhex(case["datagram"]))
    except Exception:
        return case
    best = case
    changed = True
    while changed:
        changed = False
        for bn, bl in list(m.blocks.items()):
            t = im.TD.get_template_by_name(m.name).get_block(bn)
            if t.block_type != im.MsgBlockType.MBT_VARIABLE or len(bl) <= (0 if case.get("class") != "empty-block-list-dropped" else 0):
                continue
            for i in range(len(bl)):
                saved = list(bl)
                del bl[i]
                try:
                    m.packet_id = m.packet_id or 1
                    dgx = bytes(im.ser.serialize(m)).hex()
                    r = check_roundtrip(im, dgx, case["beautify"], case["repl"], case["tmpl"])
                except Exception:
                    r = {"status": "skip"}
                if r["status"] == "violation" and r.get("class") == case.get("class"):
                    best = public_case(r)
                    changed = True
                    break
                bl[:] = saved
            if changed:
                break
    return best


def search(ctx, hints):
    im = impl()
    for h in hints:
        v = h.get("impl_violation")
        if v and "datagram" in v:
            return _shrink(im, v)
        if v and ("text" in v or "value" in v or "blocks" in v):
            return v
    for h in hints:
        # the implementation's text for a concrete value / message differs from the verified model's: a concrete input
        d = h.get("disagreement")
        if d and d.get("class") == "literal-render-divergence":
            return dict(d, clause="the text shown for this value is not the one the verified renderer model produces")
        if d and d.get("class") == "concrete-message-roundtrip" and "model_full" in d:
            return dict(d, clause="to_human_string output is not the one the verified formatter model produces")
        if d and d.get("class") == "literal-read-divergence" and "text" in d and "model" in d:
            return dict(d, clause="ast.literal_eval and the verified reader model differ on this text")
    for kind, dgx in wire_cases(ctx):
        if dgx is None:
            continue
        for beautify in (False, True):
            r = check_roundtrip(im, dgx, beautify, beautify, False)
            if r["status"] == "violation":
                return _shrink(im, public_case(r))
    for kind, t in gen_texts(ctx, []):
        ro, evals, hidden, exc = real_parse_symbolic(t, True)
        if evals or hidden:
            return {"clause": "safe mode never evaluates", "class": "safe-mode-eval", "text": t}
    return None


def replay(ctx, case):
    im = impl()
    cls = case.get("class")
    if cls == "literal-roundtrip":
        bad = literal_roundtrip_fails(im, case_value(case["value"]), bool(case.get("ser")))
        return (bad is not None), (bad or "the value reads back")
    if cls == "literal-render-divergence":
        v = case_value(case["value"])
        try:
            now = "|".join(show_s(l) for l in real_lines(im, v, bool(case.get("ser"))))
        except Exception as e:
            now = "EXC:" + type(e).__name__
        return now != case["model_lines"], {"impl_now": now[:300], "model": case["model_lines"][:300]}
    if cls == "concrete-message-roundtrip":
        m = case_cmsg(case)
        bad, txt = cmsg_roundtrip_fails(im, m)
        if bad:
            return True, bad
        if "model_full" in case:
            return show_s(txt) != case["model_full"], "implementation text %s the model text" % ("differs from" if show_s(txt) != case["model_full"] else "equals")
        return False, "round trip holds"
    if cls == "literal-read-divergence":
        st, got = real_literal_eval(case["text"])
        now = show_cval(got)[:200] if st == "ok" else "EXC:" + got
        if "model" not in case:
            return now != case.get("impl"), {"impl_now": now}
        return now != case["model"], {"impl_now": now, "model": case["model"]}
    if "datagram" in case:
        r = check_roundtrip(im, case["datagram"], case.get("beautify", False), case.get("repl", False), case.get("tmpl", False))
        if r["status"] == "violation":
            return True, public_case(r)
        return False, "holds (%s)" % r.get("why", r["status"])
    if cls == "parse-not-repeatable":
        try:
            m0 = im.decode(bytes.fromhex(case["datagram"]))
            txt = str(im.H.to_human_string(m0, beautify=True))
            body0 = im.body(im.H.from_human_string(txt, safe=True))
            for bad in _sabotaged(txt)[:12]:
                try:
                    im.body(im.H.from_human_string(bad, safe=True))
                except Exception:
                    pass
                try:
                    b1 = im.body(im.H.from_human_string(txt, safe=True))
                except Exception as e:
                    return True, {"after_rejected_text": bad[-200:], "got": "EXC:" + type(e).__name__}
                if b1 != body0:
                    return True, {"after_rejected_text": bad[-200:], "want": body0.hex()[:200], "got": b1.hex()[:200]}
            return False, "repeatable"
        except Exception as e:
            return False, "case no longer applies: " + type(e).__name__
    if cls in ("safe-mode-eval", "safe-mode-expression-accepted") and "value_text" in case:
        r = suite_safe_real(ctx)
        for v in r.impl_violations:
            return True, v
        return False, "no evaluation in safe mode"
    if "text" in case:
        ro, evals, hidden, exc = real_parse_symbolic(case["text"], True)
        if evals or hidden:
            return True, {"eval_calls": evals, "direct": hidden}
        return False, "no evaluation in safe mode"
    return False, "unrecognised case"
