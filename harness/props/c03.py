"""C03 - zero-coding: lossless, bounded, canonical.  Model: coq/theories/ZC/ZeroCode.v"""
import itertools

from harness.common.framework import CorrResult

PROP_ID = "C03"
COQ_PROPS = "theories/Props/C03.v"
EXTRACT = ("theories/Extract/ExC03.v", "c03_driver.ml")
TRUSTED = [
    "modelled by hand: UDPMessageSerializer.zero_code_compress, UDPMessageDeserializer.zero_code_expand "
    "(bytes as N < 256; bytearray appends as list construction; ValueError as None)",
]


def _impl():
    from hippolyzer.lib.base.message.udpserializer import UDPMessageSerializer
    from hippolyzer.lib.base.message.udpdeserializer import UDPMessageDeserializer
    return UDPMessageSerializer.zero_code_compress, UDPMessageDeserializer.zero_code_expand


def py_ref(e: bytes):
    """independent transcription of the format's reference semantics (zc_ref)"""
    out = bytearray()
    i = 0
    n = len(e)
    while i < n:
        c = e[i]
        i += 1
        if c != 0:
            out.append(c)
            continue
        k = 0
        while i < n and e[i] == 0:
            k += 1
            i += 1
        if i >= n:
            out.extend(b"\x00" * (256 * k + 1))
        else:
            out.extend(b"\x00" * (256 * k + e[i]))
            i += 1
    return bytes(out)


def py_canonical(e: bytes) -> bool:
    i = 0
    n = len(e)
    while i < n:
        if e[i] == 0:
            if i + 1 >= n or e[i + 1] == 0:
                return False
            if e[i + 1] < 255 and i + 2 < n and e[i + 2] == 0:
                return False
            i += 2
        else:
            i += 1
    return True


def impl_expand(expand, e: bytes):
    try:
        return bytes(expand(e))
    except ValueError as ex:
        if "Unreasonably large" in str(ex):
            return None
        return b"EXC:" + type(ex).__name__.encode()
    except Exception as ex:
        return b"EXC:" + type(ex).__name__.encode()


def impl_compress(compress, s: bytes):
    try:
        return bytes(compress(s))
    except Exception as ex:
        return b"EXC:" + type(ex).__name__.encode()


def check_property(compress, expand, s: bytes):
    """The statement of C03 evaluated directly on the implementation. Returns None or a failure description."""
    e = impl_compress(compress, s)
    if e.startswith(b'EXC:'):
        return {'clause': 'compress raised', 'input': s.hex(), 'exc': e.decode()}
    if len(s) <= 0x3000:
        d = impl_expand(expand, e)
        if d != s:
            return {"clause": "expand(compress(s)) == s", "input": s.hex(), "compressed": e.hex(),
                    "got": None if d is None else d.hex()}
    if not py_canonical(e):
        return {"clause": "compress output canonical", "input": s.hex(), "compressed": e.hex()}
    # s read as an *encoded* string: decoder vs reference semantics, and the cap
    d = impl_expand(expand, s)
    r = py_ref(s)
    if d is not None and d != r:
        return {"clause": "expand agrees with reference semantics", "input": s.hex(), "got": d.hex(), "want": r.hex()}
    if d is None and len(r) <= 0x3000:
        return {"clause": "expand refuses only beyond the cap", "input": s.hex()}
    if d is not None and len(d) > 0x3000 + 256:
        return {"clause": "expand bounded by cap", "input": s.hex(), "len": len(d)}
    return None


def gen_cases(ctx):
    """yields (kind, bytes)"""
    L = ctx.pick(8, 12)
    for n in range(L + 1):
        for t in itertools.product((0, 1, 255), repeat=n):
            yield "exh3", bytes(t)
    for n in range(0, 1101):
        z = b"\x00" * n
        yield "run", z
        yield "run", b"\x07" + z
        yield "run", z + b"\x09"
        yield "run", b"\x07" + z + b"\x09"
    rng = ctx.rng
    nrand = ctx.pick(4000, 150000)
    for i in range(nrand):
        r = rng.random()
        if r < 0.5:
            n = rng.randrange(0, 64)
        elif r < 0.9:
            n = rng.randrange(64, 1500)
        else:
            n = rng.randrange(11000, 13000)
        p0 = rng.choice((0.05, 0.3, 0.6, 0.95))
        s = bytes(0 if rng.random() < p0 else rng.choice((1, 2, 254, 255, rng.randrange(1, 256))) for _ in range(n))
        yield "rand", s
    # encoded-looking inputs: wrap forms, trailing zero, over-cap expansions
    for i in range(ctx.pick(3000, 60000)):
        parts = []
        for _ in range(rng.randrange(1, 12)):
            k = rng.random()
            if k < 0.4:
                parts.append(bytes(rng.randrange(1, 256) for _ in range(rng.randrange(0, 6))))
            elif k < 0.8:
                parts.append(b"\x00" + bytes([rng.choice((1, 2, 3, 254, 255, rng.randrange(1, 256)))]))
            else:
                parts.append(b"\x00" * rng.randrange(1, rng.choice((3, 60))) + bytes([rng.randrange(0, 256)]))
        if rng.random() < 0.2:
            parts.append(b"\x00")
        yield "enc", b"".join(parts)


def correspond(ctx):
    compress, expand = _impl()
    res = CorrResult(suite="zerocode impl vs extracted model",
                     rule="every string over {00,01,FF} up to length %d (exhaustive), every zero run 0..1100 in 4 contexts, "
                          "seeded random plain strings up to the cap and random encoded strings with wrap forms; each case is run "
                          "through compress and expand on the implementation and on the extracted Coq model and through the "
                          "impl-level statement of C03; non-trivial = distinct input containing at least one zero byte" % ctx.pick(8, 12))
    lines, cases = [], []
    seen = set()
    dist = {}
    for kind, s in gen_cases(ctx):
        if s in seen:
            continue
        seen.add(s)
        dist[kind] = dist.get(kind, 0) + 1
        cases.append((kind, s))
        body = " ".join(map(str, s))
        lines.append("c " + body)
        lines.append("e " + body)
    model = ctx.run_driver(lines)
    nontriv = 0
    for i, (kind, s) in enumerate(cases):
        mc, me = model[2 * i], model[2 * i + 1]
        ic = impl_compress(compress, s)
        ic = ic.decode() if ic.startswith(b"EXC:") else " ".join(map(str, ic))
        d = impl_expand(expand, s)
        if d is None:
            ie = "ERR"
        elif d.startswith(b"EXC:"):
            ie = d.decode()
        else:
            ie = "OK " + " ".join(map(str, d))
        if mc.strip() != ic.strip():
            res.disagreements.append({"op": "compress", "input": s.hex(), "impl": ic, "model": mc})
        if me.strip() != ie.strip():
            res.disagreements.append({"op": "expand", "input": s.hex(), "impl": ie[:200], "model": me[:200]})
        v = check_property(compress, expand, s)
        if v:
            res.impl_violations.append(v)
        if 0 in s:
            nontriv += 1
    res.evaluations = len(lines)
    res.distinct_nontrivial = nontriv
    res.distribution = dist
    res.exhaustive = False
    res.samples = [{"kind": k, "input_hex": s.hex()[:80], "len": len(s)} for k, s in cases[40:43] + cases[-3:]]
    return res


def search(ctx, hints):
    compress, expand = _impl()
    for h in hints:
        d = h.get("disagreement")
        if d:
            v = check_property(compress, expand, bytes.fromhex(d["input"]))
            if v:
                return shrink(compress, expand, v)
    for kind, s in gen_cases(ctx):
        v = check_property(compress, expand, s)
        if v:
            return shrink(compress, expand, v)
    return None


def shrink(compress, expand, v):
    s = bytes.fromhex(v["input"])
    changed = True
    while changed and len(s) > 1:
        changed = False
        for i in range(len(s)):
            t = s[:i] + s[i + 1:]
            w = check_property(compress, expand, t)
            if w:
                s, v, changed = t, w, True
                break
    return v


def replay(ctx, case):
    compress, expand = _impl()
    v = check_property(compress, expand, bytes.fromhex(case["input"]))
    return (v is not None), (v or "holds")
