"""C03 - zero-coding: lossless, bounded, canonical.  Model: coq/theories/ZC/ZeroCode.v"""
import itertools

from harness.common.framework import CorrResult

PROP_ID = "C03"
COQ_PROPS = "theories/Props/C03.v"
EXTRACT = ("theories/Extract/ExC03.v", "c03_driver.ml")
TRUSTED = [
    "modelled by hand: UDPMessageSerializer.zero_code_compress, UDPMessageDeserializer.zero_code_expand "
    "(bytes as N < 256; bytearray appends as list construction; ValueError as None)",
]


def _impl():
    from hippolyzer.lib.base.message.udpserializer import UDPMessageSerializer
    from hippolyzer.lib.base.message.udpdeserializer import UDPMessageDeserializer
    return UDPMessageSerializer.zero_code_compress, UDPMessageDeserializer.zero_code_expand


def py_ref(e: bytes):
    """independent transcription of the format's reference semantics (zc_ref)"""
    out = bytearray()
    i = 0
    n = len(e)
    while i < n:
        c = e[i]
        i += 1
        if c != 0:
            out.append(c)
            continue
        k = 0
        while i < n and e[i] == 0:
            k += 1
            i += 1
        if i >= n:
            out.extend(b"\x00" * (256 * k + 1))
        else:
            out.extend(b"\x00" * (256 * k + e[i]))
            i += 1
    return bytes(out)


def py_canonical(e: bytes) -> bool:
    i = 0
    n = len(e)
    while i < n:
        if e[i] == 0:
            if i + 1 >= n or e[i + 1] == 0:
                return False
            if e[i + 1] < 255 and i + 2 < n and e[i + 2] == 0:
                return False
            i += 2
        else:
            i += 1
    return True


def impl_expand(expand, e: bytes):
    try:
        return bytes(expand(e))
    except ValueError as ex:
        if "Unreasonably large" in str(ex):
            return None
        return b"EXC:" + type(ex).__name__.encode()
    except Exception as ex:
        return b"EXC:" + type(ex).__name__.encode()


def impl_compress(compress, s: bytes):
    try:
        return bytes(compress(s))
    except Exception as ex:
        return b"EXC:" + type(ex).__name__.encode()


def check_property(compress, expand, s: bytes):
    """The statement of C03 evaluated directly on the implementation. Returns None or a failure description."""
    e = impl_compress(compress, s)
    if e.startswith(b'EXC:'):
        return {'clause': 'compress raised', 'input': s.hex(), 'exc': e.decode()}
    if len(s) <= 0x3000:
        d = impl_expand(expand, e)
        if d != s:
            return {"clause": "expand(compress(s)) == s", "input": s.hex(), "compressed": e.hex(),
                    "got": None if d is None else d.hex()}
    if not py_canonical(e):
        return {"clause": "compress output canonical", "input": s.hex(), "compressed": e.hex()}
    # s read as an *encoded* string: decoder vs reference semantics, and the cap
    d = impl_expand(expand, s)
    r = py_ref(s)
    if d is not None and d != r:
        return {"clause": "expand agrees with reference semantics", "input": s.hex(), "got": d.hex(), "want": r.hex()}
    if d is None and len(r) <= 0x3000:
        return {"clause": "expand refuses only beyond the cap", "input": s.hex()}
    if d is not None and len(d) > 0x3000 + 256:
        return {"clause": "expand bounded by cap", "input": s.hex(), "len": len(d)}
    return None


def gen_cases(ctx):
    """yields (kind, bytes)"""
    L = ctx.pick(8, 12)
    for n in range(L + 1):
        for t in itertools.product((0, 1, 255), repeat=n):
            yield "exh3", bytes(t)
    for n in range(0, 1101):
        z = b"\x00" * n
        yield "run", z
        yield "run", b"\x07" + z
        yield "run", z + b"\x09"
        yield "run", b"\x07" + z + b"\x09"
    rng = ctx.rng
    nrand = ctx.pick(4000, 150000)
    for i in range(nrand):
        r = rng.random()
        if r < 0.5:
            n = rng.randrange(0, 64)
        elif r < 0.9:
            n = rng.randrange(64, 1500)
        else:
            n = rng.randrange(11000, 13000)
        p0 = rng.choice((0.05, 0.3, 0.6, 0.95))
        s = bytes(0 if rng.random() < p0 else rng.choice((1, 2, 254, 255, rng.randrange(1, 256))) for _ in range(n))
        yield "rand", s
    # encoded-looking inputs: wrap forms, trailing zero, over-cap expansions
    for i in range(ctx.pick(3000, 60000)):
        parts = []
        for _ in range(rng.randrange(1, 12)):
            k = rng.random()
            if k < 0.4:
                parts.append(bytes(rng.randrange(1, 256) for _ in range(rng.randrange(0, 6))))
            elif k < 0.8:
                parts.append(b"\x00" + bytes([rng.choice((1, 2, 3, 254, 255, rng.randrange(1, 256)))]))
            else:
                parts.append(b"\x00" * rng.randrange(1, rng.choice((3, 60))) + bytes([rng.randrange(0, 256)]))
        if rng.random() < 0.2:
            parts.append(b"\x00")
        yield "enc", b"".join(parts)


def correspond(ctx):
    return [correspond_functions(ctx), correspond_datagrams(ctx)]


def correspond_functions(ctx):
    compress, expand = _impl()
    res = CorrResult(suite="zerocode impl vs extracted model",
                     rule="every string over {00,01,FF} up to length %d (exhaustive), every zero run 0..1100 in 4 contexts, "
                          "seeded random plain strings up to the cap and random encoded strings with wrap forms; each case is run "
                          "through compress and expand on the implementation and on the extracted Coq model and through the "
                          "impl-level statement of C03; non-trivial = distinct input containing at least one zero byte" % ctx.pick(8, 12))
    lines, cases = [], []
    seen = set()
    dist = {}
    for kind, s in gen_cases(ctx):
        if s in seen:
            continue
        seen.add(s)
        dist[kind] = dist.get(kind, 0) + 1
        cases.append((kind, s))
        body = " ".join(map(str, s))
        lines.append("c " + body)
        lines.append("e " + body)
    model = ctx.run_driver(lines)
    nontriv = 0
    for i, (kind, s) in enumerate(cases):
        mc, me = model[2 * i], model[2 * i + 1]
        ic = impl_compress(compress, s)
        ic = ic.decode() if ic.startswith(b"EXC:") else " ".join(map(str, ic))
        d = impl_expand(expand, s)
        if d is None:
            ie = "ERR"
        elif d.startswith(b"EXC:"):
            ie = d.decode()
        else:
            ie = "OK " + " ".join(map(str, d))
        if mc.strip() != ic.strip():
            res.disagreements.append({"op": "compress", "input": s.hex(), "impl": ic, "model": mc})
        if me.strip() != ie.strip():
            res.disagreements.append({"op": "expand", "input": s.hex(), "impl": ie[:200], "model": me[:200]})
        v = check_property(compress, expand, s)
        if v:
            res.impl_violations.append(v)
        if 0 in s:
            nontriv += 1
    res.evaluations = len(lines)
    res.distinct_nontrivial = nontriv
    res.distribution = dist
    res.exhaustive = False
    res.samples = [{"kind": k, "input_hex": s.hex()[:80], "len": len(s)} for k, s in cases[40:43] + cases[-3:]]
    return res


# --------------------------------------------------------------------------
# zero-coding as the datagram codec uses it (header peek, extra bytes, body) - impl-level oracle against the reference

def _codec():
    from hippolyzer.lib.base.message.udpserializer import UDPMessageSerializer
    from hippolyzer.lib.base.message.udpdeserializer import UDPMessageDeserializer
    from hippolyzer.lib.base.settings import Settings
    st = Settings()
    st.ENABLE_DEFERRED_PACKET_PARSING = False
    return UDPMessageSerializer(), UDPMessageDeserializer(settings=st)


def _observe(de, datagram: bytes):
    try:
        m = de.deserialize(datagram)
        return "OK %s extra=%s body=%r" % (m.name, bytes(m.extra or b"").hex(), m.to_dict()["body"])
    except Exception as e:       # noqa
        return "EXC"


def noncanonical(rng, plain: bytes) -> bytes:
    """an encoding of `plain` under the reference semantics that the encoder would not produce: zero runs split at random
    points, wrap-around form (00 00 .. n) for runs >= 256, a trailing lone zero for a final single zero"""
    out = bytearray()
    i, n = 0, len(plain)
    while i < n:
        if plain[i] != 0:
            out.append(plain[i])
            i += 1
            continue
        j = i
        while j < n and plain[j] == 0:
            j += 1
        run = j - i
        i = j
        while run > 0:
            if run >= 256 and rng.random() < 0.6:
                k = rng.randrange(1, min(run // 256, 3) + 1)
                rem = run - 256 * k
                c = rng.randrange(1, min(rem, 255) + 1) if rem >= 1 else None
                if c is None:
                    k -= 1
                    if k == 0:
                        continue
                    c = min(run - 256 * k, 255)
                out += b"\x00" * (k + 1) + bytes([c])
                run -= 256 * k + c
            elif run == 1 and i >= n and rng.random() < 0.5:
                out += b"\x00"
                run = 0
            else:
                c = rng.randrange(1, min(run, 255) + 1)
                out += bytes([0, c])
                run -= c
    return bytes(out)


def datagram_cases(ctx):
    from hippolyzer.lib.base.message.message import Message, Block
    from hippolyzer.lib.base.datatypes import UUID
    rng = ctx.rng
    extras = [b""] + [bytes(k) for k in (1, 2, 3, 4, 5, 8, 9, 16, 100, 255)] + [b"\x01" * k for k in (1, 4, 9, 255)]
    extras += [bytes(k) + b"\x07" for k in (1, 3, 9, 254)] + [b"\x07" + bytes(k) for k in (1, 3, 9, 254)]
    extras += [bytes(rng.choice((0, 0, 0, 1, 255)) for _ in range(rng.randrange(1, 256))) for _ in range(ctx.pick(20, 200))]
    msgs = []
    for ex in extras:
        for pid in (0, 1, 0x01000000, 0xffffffff):
            msgs.append(Message("StartPingCheck", Block("PingID", PingID=rng.choice((0, 1, 255)), OldestUnacked=rng.choice((0, 1, 256, 2 ** 32 - 1))),
                                flags=0x80, packet_id=pid))
            msgs[-1].extra = ex
        msgs.append(Message("PacketAck", *[Block("Packets", ID=rng.choice((0, 1, 2 ** 24))) for _ in range(rng.choice((0, 1, 3, 70)))],
                            flags=0x80, packet_id=5))
        msgs[-1].create_block_list("Packets")
        msgs[-1].extra = ex
        text = bytes(rng.choice((0, 0, 65)) for _ in range(rng.choice((0, 1, 255, 256, 600, 1000))))
        msgs.append(Message("ChatFromViewer", Block("AgentData", AgentID=UUID(int=0), SessionID=UUID(int=rng.choice((0, 1, 1 << 64)))),
                            Block("ChatData", Message=text + b"\x01", Type=0, Channel=0), flags=0x80 | 0x40, packet_id=6))
        msgs[-1].extra = ex
    return msgs


def correspond_datagrams(ctx):
    res = CorrResult(suite="zero-coded datagrams through the real serializer/deserializer vs the reference semantics (impl-level oracle)",
                     rule="StartPingCheck / PacketAck / ChatFromViewer with the ZEROCODED flag, packet ids with zero bytes, extra header "
                          "bytes of length 0..255 (all zero, all non-zero, zeros around a non-zero byte, random) and bodies with zero runs up "
                          "to 1000: (1) the datagram the serializer produces decodes to the same name, extra bytes and body; (2) its encoded "
                          "part expands under the independent reference to exactly the un-zero-coded datagram; (3) every non-canonical "
                          "re-encoding of that part (split runs, wrap-around forms, trailing lone zero) decodes to the same observation as "
                          "the un-zero-coded datagram; every third message is preceded, on the SAME serializer object, by a zero-coded message "
                          "that is rejected part-way through its body with a zero run open (nothing may be left behind); "
                          "non-trivial = datagrams whose header area (message number + extra) contains a zero run")
    ser, de = _codec()
    n = nt = 0
    from hippolyzer.lib.base.message.message import Message, Block
    from hippolyzer.lib.base.datatypes import UUID
    k = 0
    for m in datagram_cases(ctx):
        k += 1
        if k % 3 == 0:
            # the SAME serializer first fails on a zero-coded message part-way through its body, with a zero run open (16 zero bytes
            # of AgentID written, then an unset variable): a rejected message must leave nothing behind for the next one
            bad = Message("ChatFromViewer", Block("AgentData", AgentID=UUID(int=0), SessionID=None),
                          Block("ChatData", Message=b"x", Type=0, Channel=0), flags=0x80, packet_id=1)
            try:
                ser.serialize(bad)
                res.impl_violations.append({"clause": "serializer rejects a message with an unset variable", "class": "unset-variable-accepted"})
            except Exception:
                pass
        try:
            want_extra = bytes(m.extra or b"")
            d = bytes(ser.serialize(m))
            m.send_flags = m.send_flags & ~0x80
            plain = bytes(ser.serialize(m))
        except Exception as e:       # noqa
            res.impl_violations.append({"clause": "serializer accepts a conformant message", "class": "serialize-raised",
                                        "detail": "%s: %s" % (type(e).__name__, str(e)[:100])})
            continue
        n += 3
        if b"\x00" in want_extra:
            nt += 1
        ref_obs = _observe(de, plain)
        got = _observe(de, d)
        base = {"datagram": d.hex()[:400], "plain": plain.hex()[:400], "extra_len": len(want_extra)}
        if py_ref(d[6:]) != plain[6:] or d[:6] != bytes([plain[0] | 0x80]) + plain[1:6]:
            res.impl_violations.append(dict(base, clause="the serializer's zero-coded datagram expands (reference semantics) to the plain datagram",
                                            **{"class": "encoded-datagram-not-reference"}))
        elif got != ref_obs or got == "EXC":
            res.impl_violations.append(dict(base, clause="a zero-coded datagram decodes to the message it encodes (name, extra bytes, body)",
                                            **{"class": "zerocoded-datagram-decodes-differently"}, got=got[:200], want=ref_obs[:200]))
        for _ in range(2):
            nc = d[:6] + noncanonical(ctx.rng, plain[6:])
            if py_ref(nc[6:]) != plain[6:]:
                continue        # (generator slip: never report it against the implementation)
            n += 1
            g2 = _observe(de, nc)
            if g2 != ref_obs:
                res.impl_violations.append(dict(base, clause="the decoder agrees with the reference semantics on non-canonical encodings "
                                                             "(wrap-around runs, split runs, trailing lone zero) of a whole datagram",
                                                **{"class": "noncanonical-datagram-decodes-differently"}, encoded=nc.hex()[:400],
                                                got=g2[:200], want=ref_obs[:200]))
    seen, keep = set(), []
    for v in res.impl_violations:
        if v["class"] not in seen:
            seen.add(v["class"])
            keep.append(v)
    res.impl_violations = keep
    res.evaluations = n
    res.distinct_nontrivial = nt
    res.samples = []
    return res


def search(ctx, hints):
    compress, expand = _impl()
    for h in hints:
        d = h.get("disagreement")
        if d:
            v = check_property(compress, expand, bytes.fromhex(d["input"]))
            if v:
                return shrink(compress, expand, v)
    for kind, s in gen_cases(ctx):
        v = check_property(compress, expand, s)
        if v:
            return shrink(compress, expand, v)
    return None


def shrink(compress, expand, v):
    s = bytes.fromhex(v["input"])
    changed = True
    while changed and len(s) > 1:
        changed = False
        for i in range(len(s)):
            t = s[:i] + s[i + 1:]
            w = check_property(compress, expand, t)
            if w:
                s, v, changed = t, w, True
                break
    return v


def replay(ctx, case):
    if "input" not in case:
        r = correspond_datagrams(ctx)
        for v in r.impl_violations:
            if v.get("class") == case.get("class"):
                return True, v
        return (True, r.impl_violations[0]) if r.impl_violations else (False, "zero-coded datagrams decode like the reference")
    compress, expand = _impl()
    v = check_property(compress, expand, bytes.fromhex(case["input"]))
    return (v is not None), (v or "holds")
