"""C06 - UDP proxying is transparent.  Model: coq/theories/Proxy/{Socks,UdpProxy}.v

Three things happen here:
 * (G) the message.xml flavor table (UDP ban list) is regenerated from the live repo object and
   checked against the model's table (harness/translate/c06_gen.py -> coq/gen/C06_gen.v);
 * (M) the extracted model and the real InterceptingLLUDPProxyProtocol are run on the same
   scenarios (sessions/regions/associations + a sequence of datagrams) and every event's
   outcome, the (bytes, destination) sends and the final routing/session state are diffed;
   the SOCKS framing functions are diffed separately on raw byte strings;
 * the statement of C06 itself is evaluated on the implementation by an independent,
   intent-level classifier (`spec_classify`) - this is the impl-level oracle.
"""
from __future__ import annotations

import itertools
import json
import logging
import os
import socket
import struct
import traceback

from harness.common.framework import CorrResult

PROP_ID = "C06"
COQ_PROPS = "theories/Props/C06.v"
COQ_EXTRA = ["gen/C06_gen.v",
             # C06b, the composition layer (codec C01/C02 + circuit C04/C05 plugged into this routing model)
             "gen/Template_gen.v", "theories/Compose/Glue.v", "theories/Compose/GlueProofs.v",
             "theories/Compose/Live.v", "theories/Compose/CircuitBridge.v", "theories/Props/C06b.v",
             "gen/C06b_gen.v"]
COQ_PROPS_B = "theories/Props/C06b.v"
EXTRACT = ("theories/Extract/ExC06.v", "c06_driver.ml")
TRUSTED = [
    "modelled by hand: UDPProxyProtocol.datagram_received/_parse_socks_datagram, SOCKS5UDPTransport.serialize, "
    "InterceptingLLUDPProxyProtocol.handle_proxied_packet on the addon-free path (AddonManager hooks return falsy, "
    "no message logger, default ProxySettings), SessionManager.claim_session, Session.open_circuit, "
    "region_by_circuit_addr, mark_dead, validate_udp_msg, the destination logic of Circuit.send_datagram",
    "message decoding is an oracle in the model (decode : bytes -> option msginfo = template name, does the body "
    "parse, UseCircuitCode session id, bytes an injection-free ProxiedCircuit.send emits); the harness fills it with "
    "the real UDPMessageDeserializer and a fresh ProxiedCircuit, i.e. the codec (C01/C02) and the circuit's "
    "ID/ack rewriting (C04/C05) are taken as given here",
    "addresses: dotted quads <-> 32-bit numbers via socket.inet_aton/inet_ntoa; a bytes host (SOCKS domain form) "
    "never equals a str host; sessions referenced by list index instead of object identity; Session.close / "
    "close_session (end of an association) are not modelled; every second further region of a session is registered without a handle (address only)",
    "an exception escaping datagram_received is modelled as 'datagram discarded, state as left by the code up to "
    "the raise'; that CPython's selector event loop survives such an exception is assumed, not verified",
    "interpretation used by the impl-level oracle: 'cannot be decoded' = UDPMessageDeserializer.deserialize raises "
    "under the proxy's (deferred parsing) settings; datagrams whose header decodes but whose body does not, traffic "
    "on a circuit already closed by CloseCircuit/DisableSimulator, SOCKS domain-form destinations, outbound messages "
    "whose name is on the ban list (the code bans inbound only), a PacketAck with zero IDs and no appended acks "
    "(ProxiedCircuit refuses to emit an empty PacketAck), ChatFromViewer on AddonManager.COMMAND_CHANNEL (a command "
    "for the proxy itself, consumed by design) and datagrams from other ports on the client's IP are "
    "'either' cases: forwarding (to the right peer, content intact) and discarding are both accepted",
    "not modelled: what the proxy itself emits while executing a command-channel chat (acks / proxy replies injected "
    "through the circuit); scenarios containing such chat are skipped by the correspondence (counted in the "
    "distribution); the model's outcome OConsumed covers them with an empty send list",
    "the decoding oracle's mi_consumed flag is obtained from the live AddonManager.handle_lludp_message with no addon "
    "loaded (so it followed /repo's repair 40d86e5 of the empty-RLV-command-list swallow without a model change)",
    "C06b (theories/Compose/*.v, theories/Props/C06b.v; built and checked with C06): the oracle is instantiated with "
    "decode_real current_dict touch = the C01/C02 codec model on the live template (gen/Template_gen.v) + the closed form "
    "prepare_noinj of an injection-free ProxiedCircuit.  Proved, all 'Closed under the global context' (re-checked on every "
    "run, suite 'C06b composition'): C06b_oracle_on_conformant, C06b_circuit_reads_succeed, C06b_E1_viewer_to_sim, "
    "C06b_E1_byte_identical, C06b_E1_handshake, C06b_E1_empty_ack_withheld, C06b_E2_sim_to_viewer, C06b_E2_byte_identical, "
    "C06b_E2_reachable, "
    "C06b_E1_any_datagram, C06b_E2_any_datagram, C06b_E3_from_sim, C06b_E3_from_viewer, C06b_E3_undecodable, "
    "C06b_E3_isolated, C06b_no_injection_reachable, C06b_no_injection_identity, C06b_no_injection_step, "
    "C06b_circuit_bridge, C06b_oracle_out_is_circuit",
    "C06b, modelled by hand in Compose/Glue.v: which block reads the router and AddonManager perform on a decoded "
    "message (UseCircuitCode.CircuitCode[0].SessionID as UUID.int, ChatFromViewer.ChatData.Channel == COMMAND_CHANNEL = 524, "
    "PacketAck.Packets[*].ID, StartPingCheck.PingID.OldestUnacked), prepare_message's ACK-flag normalisation, which lazy-parse "
    "state reaches circuit.send (needs_body names parsed; other names parsed iff an internal subscriber read them - the "
    "theorems hold for every such 'touch' predicate), and the conversions between the three developments' message records "
    "(to_rmsg / apply_emit in Compose/CircuitBridge.v).  Tied to the code on every run by the generated obligation "
    "gen/C06b_gen.v:C06b_gen_oracle_matches (decode_real = live deserializer + live AddonManager + fresh live ProxiedCircuit on "
    "~100 structured, damaged and hand-picked payloads, body unparsed and parsed-first)",
    "C06b residual hypotheses, visible in the theorem statements: E1/E2 exclude a command-channel chat (consumed by the proxy), "
    "the empty PacketAck (proved withheld: C06b_E1_empty_ack_withheld) and, on the simulator side, names on the UDP ban list; "
    "the delivered bytes are the encoding of the message with its ACK flag made consistent with its ack list (byte-identical "
    "whenever the sender's flag was consistent); C06b_E*_any_datagram inherit C02's recode_within_cap for the parsed state; "
    "mi_out = None conflates 'prepare_message returned False' with 'the serializer raised' (the theorems show neither happens "
    "for conformant messages); 'nothing injected' means circuit states satisfying Quiet (every state reached from a fresh "
    "circuit by Recv/Tick events: C06b_no_injection_reachable) - traffic on circuits the proxy has injected into is C04/C05's "
    "subject and is not composed here",
]

UCC = "UseCircuitCode"
CLOSERS = ("CloseCircuit", "DisableSimulator")
NEEDS_BODY = ("PacketAck", "RegionHandshake", "AgentDataUpdate", "StartPingCheck")
POISON_CLASS = "far_to_near poisoned by a SOCKS datagram addressed to the client's own UDP address"
RLV_CLASS = "OwnerSay chat '@' with an empty RLV command list is swallowed although no addon is loaded"


# ---------------------------------------------------------------------------------------
# small helpers

def ip2n(s: str) -> int:
    return int.from_bytes(socket.inet_aton(s), "big")


def n2ip(n: int) -> str:
    return socket.inet_ntoa(n.to_bytes(4, "big"))


def hx(b: bytes) -> str:
    return b.hex() if b else "-"


def unhx(s: str) -> bytes:
    return b"" if s == "-" else bytes.fromhex(s)


def socks_hdr(addr) -> bytes:
    """RFC 1928 section 7 header for an IPv4 destination, written independently of the code under test"""
    return b"\x00\x00\x00\x01" + addr[0].to_bytes(4, "big") + addr[1].to_bytes(2, "big")


def rfc_parse(data: bytes):
    """independent reading of RFC 1928 section 7: ((kind, host, port), payload) or None"""
    if len(data) < 4 or data[0] != 0 or data[1] != 0 or data[2] != 0:
        return None
    if data[3] == 1:
        if len(data) < 10:
            return None
        return ("ip", int.from_bytes(data[4:8], "big"), int.from_bytes(data[8:10], "big")), data[10:]
    if data[3] == 3:
        if len(data) < 5:
            return None
        n = data[4]
        if len(data) < 5 + n + 2:
            return None
        return ("dom", data[5:5 + n], int.from_bytes(data[5 + n:7 + n], "big")), data[7 + n:]
    return None


# ---------------------------------------------------------------------------------------
# the implementation under test

class _FakeDgram:
    """stands in for asyncio.DatagramTransport: records sendto()"""

    def __init__(self):
        self.sent = []

    def sendto(self, data, addr=None):
        self.sent.append((bytes(data), addr))

    def close(self):
        pass

    def abort(self):
        pass


class _LogCatcher(logging.Handler):
    def __init__(self):
        super().__init__(level=logging.WARNING)
        self.msgs = []

    def emit(self, record):
        try:
            self.msgs.append(record.getMessage())
        except Exception:
            self.msgs.append("?")


_DROP_LOGS = (
    ("Got non-SOCKS packet", "NONSOCKS"),
    ("Got datagram from unknown host", "UNKNOWNHOST"),
    ("Got SOCKS packet addressed to its own sender", "SELFADDR"),
    ("Received unexpected message", "PRESESSION"),
    ("Wasn't able to claim session", "UNCLAIMED"),
    ("Couldn't open circuit", "COULDNTOPEN"),
    ("No circuit for", "NOCIRCUIT"),
)


def _classify_exc(e: BaseException) -> str:
    names = [f.name for f in traceback.extract_tb(e.__traceback__)]
    if "_parse_socks_datagram" in names:
        return "EXC:socks"
    if "_ensure_message_allowed" in names:
        return "EXC:banned" if isinstance(e, PermissionError) else "EXC:flavor"
    if "parse_message_body" in names:
        return "EXC:body"
    if "deserialize" in names:
        return "EXC:decode"
    return "EXC:other:" + type(e).__name__


class Impl:
    """drives the real proxy protocol objects; one instance per check run"""

    def __init__(self):
        import asyncio
        from hippolyzer.lib.base.datatypes import UUID
        from hippolyzer.lib.base.message.udpdeserializer import UDPMessageDeserializer
        from hippolyzer.lib.base.message.udpserializer import UDPMessageSerializer
        from hippolyzer.lib.base.network.transport import Direction, UDPPacket
        from hippolyzer.lib.base.test_utils import MockTransport
        from hippolyzer.lib.proxy.addons import AddonManager
        from hippolyzer.lib.proxy.circuit import ProxiedCircuit
        from hippolyzer.lib.client.rlv import RLVParser
        from hippolyzer.lib.proxy.lludp_proxy import InterceptingLLUDPProxyProtocol
        from hippolyzer.lib.proxy.sessions import SessionManager
        from hippolyzer.lib.proxy.settings import ProxySettings
        from hippolyzer.lib.proxy.socks_proxy import UDPProxyProtocol
        from hippolyzer.lib.proxy.transport import SOCKS5UDPTransport
        self.asyncio = asyncio
        self.AddonManager = AddonManager
        self.RLVParser = RLVParser
        self.UUID = UUID
        self.Direction = Direction
        self.UDPPacket = UDPPacket
        self.MockTransport = MockTransport
        self.ProxiedCircuit = ProxiedCircuit
        self.Proto = InterceptingLLUDPProxyProtocol
        self.BaseProto = UDPProxyProtocol
        self.SessionManager = SessionManager
        self.ProxySettings = ProxySettings
        self.SOCKS5UDPTransport = SOCKS5UDPTransport
        self.serializer = UDPMessageSerializer()
        self.deser = UDPMessageDeserializer(settings=ProxySettings())
        AddonManager.FRESH_ADDON_MODULES.clear()      # property is about the addon-free proxy
        self.loop = asyncio.new_event_loop()          # needed by the protocol's resend task; timers never run
        asyncio.set_event_loop(self.loop)
        self.catcher = _LogCatcher()
        self.root = logging.getLogger()
        self.root.addHandler(self.catcher)            # also keeps logging.info() from calling basicConfig()
        self._oracle = {}
        self._alt = {}
        self.saw_command_chat = False
        self.runs = 0
        self._garbage = []

    def close(self):
        try:
            self.root.removeHandler(self.catcher)
            self._flush()
            self.loop.close()
        except Exception:
            pass

    def _flush(self):
        # lets cancelled resend tasks finish; runs only already-ready callbacks, never a timer
        self.loop.run_until_complete(self.asyncio.sleep(0))

    # ----- codec oracle (independent of the proxy's routing code) -----
    def oracle(self, payload: bytes):
        """None if deserialize raises, else (name, body_ok, sid, out, consumed) ; out: bytes | None"""
        r = self._oracle.get(payload, 0)
        if r != 0:
            return r
        try:
            m = self.deser.deserialize(payload)
        except Exception:
            self._oracle[payload] = None
            return None
        name = m.name
        body_ok = True
        try:
            _ = m.blocks
        except Exception:
            body_ok = False
        sid = 0
        if name == UCC and body_ok:
            try:
                sid = int(m["CircuitCode"][0]["SessionID"].int)
            except Exception:
                body_ok = False
        consumed = False
        if body_ok and name == "ChatFromViewer":
            try:
                consumed = ("ChatData" in m) and m["ChatData"]["Channel"] == self.AddonManager.COMMAND_CHANNEL
            except Exception:
                consumed = False
        elif body_ok and name == "ChatFromSimulator":
            # ask the live AddonManager (no addon loaded; session/region are not touched on this path), so
            # that the oracle follows the code if the empty-RLV-command-list finding gets repaired
            try:
                m3 = self.deser.deserialize(payload)
                m3.direction = self.Direction.IN
                consumed = bool(self.AddonManager.handle_lludp_message(None, None, m3))
            except Exception:
                try:
                    consumed = bool("ChatData" in m and self.RLVParser.is_rlv_message(m)
                                    and not self.RLVParser.parse_chat(m["ChatData"]["Message"]))
                except Exception:
                    consumed = False
        out = self._circuit_out(payload, False)
        if body_ok and out is not None:
            # an internal subscriber (object manager, ...) may have parsed the body before the send; for a
            # non-canonical payload the circuit then emits different bytes (codec matter, C02) - remember both
            out2 = self._circuit_out(payload, True)
            if out2 is not None and out2 != out:
                self._alt[out2] = out
        r = (name, body_ok, sid, out, bool(consumed))
        if consumed and name == "ChatFromViewer":
            self.saw_command_chat = True
        self._oracle[payload] = r
        return r

    def _circuit_out(self, payload: bytes, parse_first: bool):
        try:
            m2 = self.deser.deserialize(payload)
            m2.direction = self.Direction.OUT
            if parse_first:
                _ = m2.blocks
            t = self.MockTransport()
            circ = self.ProxiedCircuit(("0.0.0.0", 1), ("0.0.0.0", 2), t)
            circ.send(m2)
            if t.packets:
                return bytes(t.packets[0][0])
        except Exception:
            pass
        return None

    def canonical(self, payload: bytes) -> bool:
        """does the codec alone reproduce these bytes (then forwarding must be byte-identical)"""
        try:
            m = self.deser.deserialize(payload)
            if m.has_acks and not m.acks:
                return False            # the circuit normalises "ACK flag, zero acks" away
            if bytes(self.serializer.serialize(m)) != payload:
                return False
            m.blocks = m.blocks         # force serialization from the parsed blocks
            return bytes(self.serializer.serialize(m)) == payload
        except Exception:
            return False

    def content(self, payload: bytes):
        """header fields + zero-expanded body; the ACK flag is normalised to 'has acks'"""
        m = self.deser.deserialize(payload)
        body = m.raw_body
        if m.zerocoded:
            body = bytes(self.deser.zero_code_expand(body))
        flags = int(m.send_flags) & ~0x10
        try:
            body = repr(m.to_dict())    # parsed content when the body parses (trailing unread bytes are not content)
        except Exception:
            body = bytes(body)
        return (m.name, flags, m.packet_id, tuple(m.acks), bytes(m.raw_extra), body)

    # ----- scenario runner -----
    def run(self, scen: dict):
        """-> (events: [(outcome, [(bytes, (ipn, port))])], routing_state_str, session_state_str, stray)"""
        self.runs += 1
        if self.runs % 200 == 0:
            self._flush()
        UUID = self.UUID
        sm = self.SessionManager(self.ProxySettings())
        sessions = []
        for k, s in enumerate(scen["sessions"]):
            regs = s["regions"]
            sess = sm.create_session({
                "session_id": UUID(int=s["sid"]),
                "secure_session_id": UUID(int=0x5EC0000 + k),
                "agent_id": UUID(int=0xA6E0000 + k),
                "circuit_code": 1000 + k,
                "sim_ip": n2ip(regs[0][0]),
                "sim_port": regs[0][1],
                "region_x": 0,
                "region_y": 1000 * (k + 1),
                "seed_capability": "https://sim%d-0.localhost/seed" % k,
            })
            for j, ra in enumerate(regs[1:], 1):
                sess.register_region(circuit_addr=(n2ip(ra[0]), ra[1]),
                                     seed_url="https://sim%d-%d.localhost/seed" % (k, j),
                                     # every second further region is known by address only (announced by
                                     # EstablishAgentCommunication): no handle until the simulator tells it
                                     handle=(1000 * (k + 1) + j) if j % 2 == 0 else None)
            sessions.append(sess)
        protos, transports = [], []
        for p in scen["protos"]:
            proto = self.Proto((n2ip(p["client"][0]), 40000), sm)
            t = _FakeDgram()
            proto.connection_made(t)
            protos.append(proto)
            transports.append(t)
        events = []
        stray = []
        try:
            for ev in scen["events"]:
                self.catcher.msgs.clear()
                marks = [len(t.sent) for t in transports]
                i = ev["p"]
                outcome = None
                if ev.get("close"):
                    # the viewer of association i goes away (impl-only event: not part of the model's histories)
                    try:
                        protos[i].close()
                    except Exception as e:      # noqa
                        pass
                    events.append(("CLOSE", []))
                    continue
                try:
                    protos[i].datagram_received(unhx(ev["data"]), (n2ip(ev["src"][0]), ev["src"][1]))
                except Exception as e:      # modelled: datagram discarded, state as left by the code
                    outcome = _classify_exc(e)
                if outcome is None:
                    outcome = "FWD"
                    for msg in self.catcher.msgs:
                        for pref, code in _DROP_LOGS:
                            if msg.startswith(pref):
                                outcome = code
                sends = [(d, (ip2n(a[0]), a[1])) for d, a in transports[i].sent[marks[i]:]]
                for j, t in enumerate(transports):
                    if j != i and len(t.sent) != marks[j]:
                        stray.append((len(events), j))
                events.append((outcome, sends))
        finally:
            for proto in protos:
                proto.resend_task.cancel()
        sstate = "S[" + "".join(self._str_session(s) for s in sm.sessions) + "]"
        pstate = "P[" + "".join(self._str_proto(p, sm) for p in protos) + "]"
        return events, sstate + " " + pstate, sstate, stray

    @staticmethod
    def _str_addr(a):
        return "%d:%d" % (ip2n(a[0]), a[1])

    def _str_session(self, s):
        regs = []
        for r in s.regions:
            c = r.circuit
            regs.append("%s=%s" % (self._str_addr(r.circuit_addr),
                                   "none" if not c else "%s/%s" % (self._str_addr(c.near_host),
                                                                   "alive" if c.is_alive else "dead")))
        main = s.main_region
        mi = "-"
        if main is not None:
            mi = str([id(r) for r in s.regions].index(id(main)))
        return "{pending=%s main=%s regions=[%s]}" % ("1" if s.pending else "0", mi, ",".join(regs))

    def _str_proto(self, p, sm):
        ents = []
        for k, v in p.far_to_near_map.items():
            host, port = k
            if isinstance(host, (bytes, bytearray)):
                ks = "D%s:%d" % (hx(bytes(host)), port)
            else:
                ks = "I%d:%d" % (ip2n(host), port)
            ents.append(ks + ">" + self._str_addr(v))
        si = "-"
        if p.session is not None:
            si = str([id(s) for s in sm.sessions].index(id(p.session)))
        return "{sess=%s f2n=[%s]}" % (si, ",".join(ents))

    # ----- SOCKS framing functions alone -----
    def parse_socks(self, data: bytes) -> str:
        proto = self.BaseProto(("127.0.0.1", 1))
        try:
            r = proto._parse_socks_datagram(data)
        except Exception:
            return "EXC"
        if r is None:
            return "NONE"
        (host, port), rest = r
        if isinstance(host, (bytes, bytearray)):
            return "OK D %s %d %s" % (hx(bytes(host)), port, hx(bytes(rest)))
        return "OK I %d %d %s" % (ip2n(host), port, hx(bytes(rest)))

    def wrap(self, addr, data: bytes) -> str:
        pkt = self.UDPPacket(src_addr=(n2ip(addr[0]), addr[1]), dst_addr=("10.9.8.7", 6), data=data,
                             direction=self.Direction.IN)
        try:
            return hx(bytes(self.SOCKS5UDPTransport.serialize(pkt)))
        except Exception as e:
            return "EXC:" + type(e).__name__


# ---------------------------------------------------------------------------------------
# model side

def model_line(impl: Impl, scen: dict) -> str:
    toks = ["w", "S", str(len(scen["sessions"]))]
    for s in scen["sessions"]:
        toks += ["%x" % s["sid"], str(len(s["regions"]))]
        for ra in s["regions"]:
            toks += [str(ra[0]), str(ra[1])]
    toks += ["P", str(len(scen["protos"]))]
    for p in scen["protos"]:
        toks.append(str(p["client"][0]))
    keys = {}
    for ev in scen["events"]:
        d = unhx(ev["data"])
        cands = [d]
        if len(d) >= 10:
            cands.append(d[10:])
        if len(d) >= 5:
            cands.append(d[5 + d[4] + 2:])
        for c in cands:
            keys.setdefault(c, None)
    otoks = []
    for k in keys:
        o = impl.oracle(k)
        if o is None:
            otoks += [hx(k), "X"]
        else:
            name, body_ok, sid, out, consumed = o
            otoks += [hx(k), "M", name, "1" if body_ok else "0", "%x" % sid, "1" if consumed else "0",
                      "!" if out is None else hx(out)]
    toks += ["O", str(len(keys))] + otoks
    toks += ["E", str(len(scen["events"]))]
    for ev in scen["events"]:
        toks += [str(ev["p"]), str(ev["src"][0]), str(ev["src"][1]), ev["data"]]
    return " ".join(toks)


def impl_line(impl, events, state) -> str:
    segs = []
    for outcome, sends in events:
        if outcome == "FWD" and not sends:
            outcome = "QUIET"           # consumed by the proxy / nothing emitted: not distinguishable from outside
        ss = []
        for d, a in sends:
            if d in impl._alt:
                d = impl._alt[d]
            elif d[10:] in impl._alt and len(d) >= 10:
                d = d[:10] + impl._alt[d[10:]]
            ss.append("%s@%d:%d" % (hx(d), a[0], a[1]))
        segs.append(" ".join([outcome] + ss))
    return " ; ".join(segs) + " # " + state


def norm_model_line(mo: str) -> str:
    head, sep, tail = mo.partition(" # ")
    segs = []
    for seg in head.split(" ; "):
        if seg in ("FWD", "CONSUMED"):
            seg = "QUIET"
        segs.append(seg)
    return " ; ".join(segs) + sep + tail


# ---------------------------------------------------------------------------------------
# the statement of C06 evaluated on the implementation (independent, intent-level)

def spec_classify(impl: Impl, scen: dict):
    """For every event: what the property statement demands.
    cls in FWD_OUT (exactly one send of payload to dst), FWD_IN (exactly one send of
    socks_hdr(src)+payload to dst), DISCARD (no send, removable), DISCARD_CLAIMS (no send; a valid
    UseCircuitCode for an unknown destination still claims the session), EITHER (see TRUSTED)."""
    sessions = scen["sessions"]
    pending = [True] * len(sessions)
    assoc = [{"claimed": None, "amb": False, "status": {}, "opener": {}} for _ in scen["protos"]]
    banned = impl_banned()
    out = []
    for ev in scen["events"]:
        if out:
            out[-1]["amb"] = prevA["amb"]
        A = assoc[ev["p"]]
        prevA = A
        viewer = tuple(scen["protos"][ev["p"]]["client"])
        src = tuple(ev["src"])
        data = unhx(ev["data"])
        if A["amb"]:
            out.append({"cls": "EITHER", "why": "ambiguous association"})
            continue
        if src == viewer:
            r = rfc_parse(data)
            if r is None:
                out.append({"cls": "DISCARD", "why": "bad-framing"})
                continue
            dest, payload = r
            o = impl.oracle(payload)
            if dest[0] == "dom":
                if o is not None and o[0] == UCC:
                    A["amb"] = True
                out.append({"cls": "EITHER", "why": "domain-form destination"})
                continue
            dst = (dest[1], dest[2])
            if o is None:
                out.append({"cls": "DISCARD", "why": "undecodable", "dst": dst})
                continue
            name, body_ok, sid, o_out, consumed = o
            claimed_now = False
            if A["claimed"] is None:
                if name == UCC and body_ok:
                    j = next((j for j, s in enumerate(sessions) if pending[j] and s["sid"] == sid), None)
                    if j is None:
                        out.append({"cls": "DISCARD", "why": "pre-session:unclaimable", "dst": dst})
                        continue
                    A["claimed"] = j
                    pending[j] = False
                    claimed_now = True
                else:
                    out.append({"cls": "DISCARD", "why": "pre-session", "dst": dst})
                    continue
            regs = [tuple(x) for x in sessions[A["claimed"]]["regions"]]
            st = A["status"].get(dst)
            if name == UCC:
                if dst in regs:
                    if not body_ok:
                        A["status"][dst] = "amb"
                        out.append({"cls": "EITHER", "why": "UseCircuitCode with unreadable body", "dst": dst})
                    else:
                        if st != "open":
                            A["status"][dst] = "open"
                            if st is None or A["opener"].get(dst) is None or st == "amb":
                                A["opener"][dst] = src
                        out.append({"cls": "FWD_OUT", "why": "circuit handshake", "dst": dst, "payload": payload})
                else:
                    out.append({"cls": "DISCARD_CLAIMS" if claimed_now else "DISCARD",
                                "why": "no-region", "dst": dst})
                continue
            if st == "open":
                if name in CLOSERS:
                    A["status"][dst] = "amb"
                if not body_ok:
                    out.append({"cls": "EITHER", "why": "unreadable body", "dst": dst, "payload": payload})
                elif o_out is None:
                    out.append({"cls": "EITHER", "why": "content-free PacketAck", "dst": dst, "payload": payload})
                elif consumed:
                    out.append({"cls": "EITHER", "why": "chat on the proxy's command channel", "dst": dst})
                elif name in banned:
                    out.append({"cls": "EITHER", "why": "outbound banned name", "dst": dst, "payload": payload})
                else:
                    out.append({"cls": "FWD_OUT", "why": "open circuit", "dst": dst, "payload": payload})
            elif st == "amb":
                out.append({"cls": "EITHER", "why": "closed/ambiguous circuit", "dst": dst, "payload": payload})
            else:
                out.append({"cls": "DISCARD", "why": "no-circuit", "dst": dst})
            continue
        # not the viewer: a simulator with an open circuit in this association's session?
        st = A["status"].get(src) if A["claimed"] is not None else None
        if st == "open":
            o = impl.oracle(data)
            if o is None:
                out.append({"cls": "DISCARD", "why": "undecodable-inbound"})
                continue
            name, body_ok, sid, o_out, consumed = o
            if name in banned:
                out.append({"cls": "DISCARD", "why": "banned"})
                continue
            if name in CLOSERS:
                A["status"][src] = "amb"
            if not body_ok or o_out is None:
                out.append({"cls": "EITHER", "why": "unreadable body / content-free", "dst": A["opener"][src],
                            "payload": data, "wrap": src})
            elif consumed and name != "ChatFromSimulator":
                out.append({"cls": "EITHER", "why": "chat on the proxy's command channel"})
            else:
                out.append({"cls": "FWD_IN", "why": "open circuit", "dst": A["opener"][src], "payload": data,
                            "wrap": src})
        elif st == "amb":
            out.append({"cls": "EITHER", "why": "closed/ambiguous circuit", "dst": A["opener"].get(src),
                        "payload": data, "wrap": src})
        elif src[0] == viewer[0]:
            r = rfc_parse(data)
            if r is not None:
                o = impl.oracle(r[1])
                if o is not None and o[0] == UCC:
                    A["amb"] = True
                # the association trusts the client's IP, not a port: another local process that addresses a
                # SOCKS datagram to an address on the client's IP (e.g. the viewer's) makes the proxy learn that
                # address as "far" - the residual of finding #20 that /repo dc82116 leaves by design
                # (C06_discard_isolated_two_ports_refuted); nothing can be demanded afterwards
                if r[0][0] == "ip" and r[0][1] == viewer[0]:
                    A["amb"] = True
            out.append({"cls": "EITHER", "why": "other source on the client's IP"})
        else:
            out.append({"cls": "DISCARD", "why": "unknown-host"})
    if out:
        out[-1]["amb"] = prevA["amb"]
    return out


_BANNED = None


def impl_banned():
    global _BANNED
    if _BANNED is None:
        from hippolyzer.lib.base.message.message_dot_xml import MessageDotXML
        m = MessageDotXML()
        _BANNED = {n for n, v in m.messages.items() if v.get("flavor") is not None and v.get("flavor") != "template"}
    return _BANNED


def _intact(impl: Impl, payload: bytes, sent: bytes):
    if impl.canonical(payload):
        return None if sent == payload else "bytes out differ from bytes in"
    try:
        a = impl.content(payload)
    except Exception:
        return None                     # no content to speak of
    try:
        b = impl.content(sent)
    except Exception as e:
        return "forwarded bytes do not decode: %s" % type(e).__name__
    return None if a == b else "decoded content differs"


def _strip(scen, idx):
    s2 = dict(scen)
    s2["events"] = scen["events"][:idx] + scen["events"][idx + 1:]
    return s2


def _poisoned_before(scen, idx):
    """was a datagram addressed to its own sender, and did that sender send again (regression of /repo dc82116)"""
    for k, ev in enumerate(scen["events"][:idx]):
        r = rfc_parse(unhx(ev["data"]))
        if r is None or r[0][0] != "ip":
            continue
        dst = (r[0][1], r[0][2])
        if dst != tuple(ev["src"]):
            continue                    # finding #20 proper: addressed to its own sender
        if any(e2["p"] == ev["p"] and tuple(e2["src"]) == dst for e2 in scen["events"][k + 1:idx + 1]):
            return True
    return False


def check_property(impl: Impl, scen: dict, events=None, isolation=True, iso_limit=None, rng=None):
    """Returns None or a failure dict (clause, class, event, scenario, detail)."""
    if events is None:
        events, _, sstate, stray = impl.run(scen)
    else:
        events, sstate, stray = events
    spec = spec_classify(impl, scen)

    def fail(clause, idx, detail):
        cls = clause
        if _poisoned_before(scen, idx):
            cls = POISON_CLASS
        elif spec[idx]["cls"] == "FWD_IN":
            o = impl.oracle(spec[idx]["payload"])
            if o is not None and o[4] and o[0] == "ChatFromSimulator":
                cls = RLV_CLASS
        return {"clause": clause, "class": cls, "event": idx, "detail": detail, "scenario": scen}

    if stray:
        return fail("a datagram was sent through another association's transport", stray[0][0], str(stray[:3]))
    for idx, ((outcome, sends), sp) in enumerate(zip(events, spec)):
        if outcome.startswith("EXC:other"):
            return fail("unexpected exception class escaped datagram_received", idx, outcome)
        cls = sp["cls"]
        if cls in ("DISCARD", "DISCARD_CLAIMS"):
            if sends:
                return fail("a datagram that must be discarded (%s) produced a send" % sp["why"], idx,
                            [(hx(d), a) for d, a in sends])
        elif cls == "FWD_OUT":
            if len(sends) != 1:
                return fail("viewer datagram on an open circuit reaches its simulator exactly once", idx,
                            "%d sends, outcome %s" % (len(sends), outcome))
            d, a = sends[0]
            if tuple(a) != tuple(sp["dst"]):
                return fail("viewer datagram reaches exactly the addressed simulator", idx, str(a))
            why = _intact(impl, sp["payload"], d)
            if why:
                return fail("viewer datagram content intact", idx, why)
        elif cls == "FWD_IN":
            if len(sends) != 1:
                return fail("simulator datagram on an open circuit reaches its viewer exactly once", idx,
                            "%d sends, outcome %s" % (len(sends), outcome))
            d, a = sends[0]
            if tuple(a) != tuple(sp["dst"]):
                return fail("simulator datagram reaches exactly the viewer that opened the circuit", idx, str(a))
            if d[:10] != socks_hdr(sp["wrap"]):
                return fail("simulator datagram is wrapped with the simulator's address", idx, d[:10].hex())
            why = _intact(impl, sp["payload"], d[10:])
            if why:
                return fail("simulator datagram content intact", idx, why)
        else:
            if len(sends) > 1:
                return fail("at most one send per datagram", idx, str(len(sends)))
            if sends and sp.get("dst") is not None:
                d, a = sends[0]
                if tuple(a) != tuple(sp["dst"]):
                    return fail("forwarded to the wrong peer", idx, str(a))
                body = d
                if sp.get("wrap") is not None:
                    if d[:10] != socks_hdr(sp["wrap"]):
                        return fail("simulator datagram is wrapped with the simulator's address", idx, d[:10].hex())
                    body = d[10:]
                if sp.get("payload") is not None:
                    why = _intact(impl, sp["payload"], body)
                    if why:
                        return fail("forwarded content intact", idx, why)
    if isolation:
        idxs = [i for i, sp in enumerate(spec) if sp["cls"] == "DISCARD"]
        if iso_limit is not None and len(idxs) > iso_limit and rng is not None:
            idxs = sorted(rng.sample(idxs, iso_limit))
        for idx in idxs:
            ev2, _, sstate2, _ = impl.run(_strip(scen, idx))
            others = events[:idx] + events[idx + 1:]
            ospec = spec[:idx] + spec[idx + 1:]
            for k, (a, b) in enumerate(zip(others, ev2)):
                if ospec[k].get("amb"):
                    continue            # nothing can be demanded of an association once it is ambiguous
                if a[1] != b[1]:
                    real = k if k < idx else k + 1
                    f = fail("discarding a datagram (%s) must not disturb the delivery of another datagram"
                             % spec[idx]["why"], real,
                             {"discarded_event": idx, "with": [(hx(d), x) for d, x in a[1]],
                              "without": [(hx(d), x) for d, x in b[1]]})
                    if _poisoned_before(scen, real):
                        f["class"] = POISON_CLASS
                    return f
            if sstate != sstate2 and not any(sp.get("amb") for sp in spec):
                return fail("discarding a datagram (%s) must not disturb the session's state" % spec[idx]["why"], idx,
                            {"with": sstate, "without": sstate2})
    return None


def shrink(impl: Impl, v: dict, budget=700):
    """delta debugging on the event list: drop chunks (halves, quarters, ... single events) while a failure
    of the same class remains; isolation re-runs only when the failing clause is an isolation clause"""
    scen = v["scenario"]
    cls = v["class"]
    iso = v["clause"].startswith("discarding")

    def still(s2):
        w = check_property(impl, s2, isolation=iso)
        return w if (w is not None and w["class"] == cls) else None

    n = len(scen["events"])
    chunk = max(1, n // 2)
    while chunk >= 1 and budget > 0:
        i = 0
        progressed = False
        while i < len(scen["events"]) and budget > 0:
            s2 = dict(scen)
            s2["events"] = scen["events"][:i] + scen["events"][i + chunk:]
            budget -= 1
            w = still(s2)
            if w is not None:
                scen, v, progressed = s2, w, True
            else:
                i += chunk
        if chunk == 1 and not progressed:
            break
        chunk = chunk // 2 if chunk > 1 else (1 if progressed else 0)
    return v


# ---------------------------------------------------------------------------------------
# generators

VIEWER_IP = ip2n("127.0.0.1")
FAR_IPS = [ip2n("127.0.0.1"), ip2n("10.0.0.5"), ip2n("10.0.0.6")]


class Payloads:
    """real Messages serialized by the real serializer (valid traffic) + hand-damaged variants"""

    def __init__(self, impl: Impl, rng, all_types: bool):
        from hippolyzer.lib.base.message.message import Block, Message
        from hippolyzer.lib.base.message.template_dict import DEFAULT_TEMPLATE_DICT as T
        from hippolyzer.lib.base.message.msgtypes import MsgBlockType
        self.impl, self.rng, self.Block, self.Message, self.T, self.MBT = impl, rng, Block, Message, T, MsgBlockType
        self.names = [t.name for t in T.template_list]
        self.banned_tmpl = sorted(n for n in impl_banned() if T.get_template_by_name(n) is not None)
        self.all_types = all_types
        self._next_type = 0
        self.pid = 1

    def ser(self, msg) -> bytes:
        d = bytes(self.impl.serializer.serialize(msg))
        if d and d[0] & 0x80:
            # the datagram a peer would send is built independently of the encoder under test: the un-zero-coded serialization,
            # zero-coded here by a plain reference encoder (canonical form), appended acks left as they are
            flags = msg.send_flags
            try:
                msg.send_flags = flags & ~0x80
                p = bytes(self.impl.serializer.serialize(msg))
            finally:
                msg.send_flags = flags
            nacks = (p[-1] * 4 + 1) if p[0] & 0x10 else 0
            body = p[6:len(p) - nacks]
            out = bytearray()
            i = 0
            while i < len(body):
                if body[i] != 0:
                    out.append(body[i])
                    i += 1
                    continue
                j = i
                while j < len(body) and body[j] == 0 and j - i < 255:
                    j += 1
                out += bytes([0, j - i])
                i = j
            return bytes([p[0] | 0x80]) + p[1:6] + bytes(out) + p[len(p) - nacks:]
        return d

    def _hdr(self, kw):
        rng = self.rng
        flags = 0
        if rng.random() < 0.4:
            flags |= 0x40
        if rng.random() < 0.4:
            flags |= 0x80
        if rng.random() < 0.1:
            flags |= 0x20
        acks = None
        if rng.random() < 0.25:
            acks = tuple(rng.randrange(1, 5000) for _ in range(rng.randrange(1, 4)))
            flags |= 0x10
        self.pid += rng.randrange(1, 4)
        kw.setdefault("packet_id", self.pid)
        kw.setdefault("flags", flags)
        kw.setdefault("acks", acks)
        return kw

    def filled(self, name, **kw) -> bytes:
        """a message of the given template type with default-filled blocks"""
        tmpl = self.T.get_template_by_name(name)
        blocks = []
        for b in tmpl.blocks:
            if b.block_type == self.MBT.MBT_MULTIPLE:
                n = b.number
            elif b.block_type == self.MBT.MBT_VARIABLE:
                n = self.rng.randrange(0, 3)
                if name == "PacketAck":
                    n = max(n, 1)
            else:
                n = 1
            if n == 0:
                blocks.append([])
            for _ in range(n):
                blocks.append(self.Block(b.name, fill_missing=True))
        msg = self.Message(name, *[b for b in blocks if b != []], **self._hdr(kw))
        for b in tmpl.blocks:
            msg.create_block_list(b.name)
        return self.ser(msg)

    def ucc(self, sid: int, **kw) -> bytes:
        UUID = self.impl.UUID
        msg = self.Message(UCC, self.Block("CircuitCode", Code=1234, SessionID=UUID(int=sid), ID=UUID(int=77)),
                           **self._hdr(kw))
        return self.ser(msg)

    def chat_out(self) -> bytes:
        UUID = self.impl.UUID
        txt = "".join(self.rng.choice("abc \x00xyz") for _ in range(self.rng.randrange(0, 12)))
        kw = {}
        if self.rng.random() < 0.15:
            # a body the proxy parses and re-encodes, zero-coded, with a zero run at the run-length boundaries of the code
            txt = self.rng.choice(("", "a")) + "\x00" * self.rng.choice((254, 255, 256, 509, 510, 511, 765)) + self.rng.choice(("", "b"))
            kw = self._hdr({})
            kw["flags"] |= 0x80
        msg = self.Message("ChatFromViewer", self.Block("AgentData", AgentID=UUID(int=77), SessionID=UUID(int=5)),
                           self.Block("ChatData", Message=txt, Type=1, Channel=self.rng.randrange(0, 3)),
                           **(kw or self._hdr({})))
        return self.ser(msg)

    def chat_in(self) -> bytes:
        UUID = self.impl.UUID
        msg = self.Message("ChatFromSimulator",
                           self.Block("ChatData", FromName="obj", SourceID=UUID(int=9), OwnerID=UUID(int=9),
                                      SourceType=1, ChatType=1, Audible=1, Position=(1.0, 2.0, 3.0),
                                      Message="m%d" % self.rng.randrange(100)), **self._hdr({}))
        if self.rng.random() < 0.15:
            msg["ChatData"][0]["Message"] = "m" + "\x00" * self.rng.choice((254, 255, 256, 509, 510, 511)) + "z"
            msg.send_flags |= 0x80
        return self.ser(msg)

    def packet_ack(self, n) -> bytes:
        msg = self.Message("PacketAck", *[self.Block("Packets", ID=self.rng.randrange(1, 9000)) for _ in range(n)],
                           **self._hdr({"acks": None, "flags": 0}))
        msg.create_block_list("Packets")
        return self.ser(msg)

    def ping(self) -> bytes:
        msg = self.Message("StartPingCheck", self.Block("PingID", PingID=self.rng.randrange(256),
                                                        OldestUnacked=self.rng.randrange(0, 9000)), **self._hdr({}))
        return self.ser(msg)

    def any_type(self) -> bytes:
        if self.all_types:
            name = self.names[self._next_type % len(self.names)]
            self._next_type += 1
        else:
            name = self.rng.choice(self.names)
        if name == UCC:
            name = "CompletePingCheck"
        return self.filled(name)

    def valid_out(self) -> bytes:
        r = self.rng.random()
        if r < 0.25:
            return self.chat_out()
        if r < 0.33:
            return self.packet_ack(self.rng.randrange(1, 4))
        if r < 0.40:
            return self.ping()
        if r < 0.46:
            return self.filled("AgentUpdate", flags=0x80)
        return self.any_type()

    def valid_in(self) -> bytes:
        r = self.rng.random()
        if r < 0.06:
            return self.filled("RegionHandshake")     # handled specially by the proxy (object tracking, region name)
        if r < 0.2:
            return self.chat_in()
        if r < 0.27:
            return self.packet_ack(self.rng.randrange(1, 4))
        if r < 0.34:
            return self.ping()
        if r < 0.42:
            return self.filled(self.rng.choice(["AgentMovementComplete", "RegionHandshake", "AgentDataUpdate",
                                                "ObjectUpdate", "KillObject", "CoarseLocationUpdate",
                                                "ImprovedTerseObjectUpdate", "ObjectUpdateCached"]))
        name = None
        for _ in range(20):
            b = self.any_type_name()
            if b not in impl_banned():
                name = b
                break
        return self.filled(name or "CompletePingCheck")

    def any_type_name(self) -> str:
        if self.all_types:
            name = self.names[self._next_type % len(self.names)]
            self._next_type += 1
            return name if name != UCC else "CompletePingCheck"
        name = self.rng.choice(self.names)
        return name if name != UCC else "CompletePingCheck"

    def rlv_empty(self) -> bytes:
        UUID = self.impl.UUID
        msg = self.Message("ChatFromSimulator",
                           self.Block("ChatData", FromName="obj", SourceID=UUID(int=9), OwnerID=UUID(int=9),
                                      SourceType=2, ChatType=8, Audible=1, Position=(1.0, 2.0, 3.0),
                                      Message=self.rng.choice(("@", "@,", "@,,"))), **self._hdr({}))
        return self.ser(msg)

    def rlv_cmd(self) -> bytes:
        UUID = self.impl.UUID
        msg = self.Message("ChatFromSimulator",
                           self.Block("ChatData", FromName="obj", SourceID=UUID(int=9), OwnerID=UUID(int=9),
                                      SourceType=2, ChatType=8, Audible=1, Position=(1.0, 2.0, 3.0),
                                      Message=self.rng.choice(("@detach=n", "@version=1", "@a:b;c=d,e=f"))),
                           **self._hdr({}))
        return self.ser(msg)

    def banned_in(self) -> bytes:
        return self.filled(self.rng.choice(self.banned_tmpl))

    def damage(self, payload: bytes) -> bytes:
        """truncated / corrupted LLUDP payload"""
        rng = self.rng
        r = rng.random()
        if r < 0.35 and len(payload) > 1:
            return payload[:rng.randrange(0, len(payload))]
        if r < 0.5:
            return payload[:6] + b"\xff\xff\xff\xf0" + payload[10:]        # unknown fixed message number
        if r < 0.6:
            return bytes([payload[0] | 0x10]) + payload[1:] + b"\xff"      # ack count larger than the packet
        if r < 0.7:
            return bytes([payload[0] | 0x10]) + payload[1:] + b"\x00"      # ACK flag with a zero count
        if r < 0.85:
            return bytes(rng.randrange(256) for _ in range(rng.randrange(0, 24)))
        i = rng.randrange(len(payload))
        return payload[:i] + bytes([payload[i] ^ (1 << rng.randrange(8))]) + payload[i + 1:]


def gen_scenario(ctx, impl: Impl, P: Payloads, max_len: int, poison_rate=0.04) -> dict:
    rng = ctx.rng
    nsess = 1 if rng.random() < 0.6 else 2
    nproto = 1 if rng.random() < 0.6 else 2
    used = set()
    sessions = []
    for k in range(nsess):
        regs = []
        for _ in range(rng.choice((1, 1, 2, 3))):
            while True:
                a = (rng.choice(FAR_IPS), rng.choice((3, 4, 13000, 13001, 13002)))
                if a not in regs:
                    break
            regs.append(a)
        # session ids identify a session (they are UUIDs): never give two sessions the same id
        sid = rng.choice([x for x in (1, 2) if x not in {s["sid"] for s in sessions}] + [rng.getrandbits(128)])
        sessions.append({"sid": sid, "regions": [list(a) for a in regs]})
        used.update(regs)
    protos = []
    viewers = []
    for i in range(nproto):
        cip = VIEWER_IP if rng.random() < 0.8 else ip2n("192.168.1.%d" % (10 + i))
        while True:
            v = (cip, 50000 + rng.randrange(0, 4))
            if v not in used and v not in viewers:
                break
        viewers.append(v)
        protos.append({"client": list(v)})
    # generator-side intent state (only to bias towards valid traffic; the verdicts come from spec_classify)
    claimed = [None] * nproto
    opened = [set() for _ in range(nproto)]
    taken = set()
    events = []
    poison = rng.random() < poison_rate
    n = rng.randrange(1, max_len + 1)
    for _ in range(n):
        i = rng.randrange(nproto)
        v = viewers[i]
        j = claimed[i]
        r = rng.random()

        def out(dst, payload, src=v, hdr=None):
            events.append({"p": i, "src": list(src), "data": hx((hdr if hdr is not None else socks_hdr(dst)) + payload)})

        def inn(src, payload):
            events.append({"p": i, "src": list(src), "data": hx(payload)})

        if j is None:
            free = [k for k in range(nsess) if k not in taken]
            if r < 0.55 and free:
                k = rng.choice(free)
                s = sessions[k]
                dst = tuple(rng.choice(s["regions"])) if rng.random() < 0.85 else (rng.choice(FAR_IPS), 999)
                out(dst, P.ucc(s["sid"]))
                claimed[i] = k
                taken.add(k)
                if list(dst) in s["regions"]:
                    opened[i].add(dst)
                continue
            if r < 0.65:
                out((rng.choice(FAR_IPS), 3), P.ucc(rng.getrandbits(64) + 7))          # unknown session id
                continue
            if r < 0.8:
                out(tuple(rng.choice(rng.choice(sessions)["regions"])), P.valid_out())  # pre-session
                continue
            # fall through to the malformed families
            regs = [tuple(x) for x in rng.choice(sessions)["regions"]]
        else:
            regs = [tuple(x) for x in sessions[j]["regions"]]
        op = sorted(opened[i])
        if j is not None and r < 0.12:
            dst = rng.choice(regs)
            out(dst, P.ucc(sessions[j]["sid"] if rng.random() < 0.8 else 12345))
            opened[i].add(dst)
        elif j is not None and r < 0.40 and op:
            out(rng.choice(op), P.valid_out())
        elif j is not None and r < 0.64 and op:
            inn(rng.choice(op), P.valid_in())
        elif j is not None and r < 0.66 and op:
            inn(rng.choice(op), P.rlv_empty() if poison else P.rlv_cmd())
        elif j is not None and r < 0.70 and op:
            inn(rng.choice(op), P.banned_in())
        elif j is not None and r < 0.72 and op:
            out(rng.choice(op), P.banned_in())                                          # banned name, outbound
        elif j is not None and r < 0.75 and op:
            s = rng.choice(op)
            if rng.random() < 0.5:
                out(s, P.filled("CloseCircuit"))
            else:
                inn(s, P.filled(rng.choice(CLOSERS)))
        elif j is not None and r < 0.765 and op:
            (out if rng.random() < 0.5 else inn)(rng.choice(op), P.packet_ack(0))       # content-free PacketAck
        else:
            # malformed / mis-addressed / unknown-peer families
            fam = rng.randrange(14)
            tgt = rng.choice(op) if op and rng.random() < 0.7 else rng.choice(regs)
            good = P.valid_out()
            if fam == 0:
                out(tgt, P.damage(good))
            elif fam == 1:
                inn(tgt, P.damage(P.valid_in()))
            elif fam == 2:
                hdr = bytearray(socks_hdr(tgt))
                hdr[2] = rng.choice((1, 2, 255))                                        # frag != 0
                out(tgt, good, hdr=bytes(hdr))
            elif fam == 3:
                hdr = bytearray(socks_hdr(tgt))
                hdr[rng.randrange(2)] = rng.choice((1, 255))                            # rsv != 0
                out(tgt, good, hdr=bytes(hdr))
            elif fam == 4:
                hdr = bytearray(socks_hdr(tgt))
                hdr[3] = rng.choice((0, 2, 4, 255))                                     # ATYP not 1/3
                out(tgt, good, hdr=bytes(hdr))
            elif fam == 5:
                whole = socks_hdr(tgt) + good
                events.append({"p": i, "src": list(v), "data": hx(whole[:rng.randrange(0, 11)])})   # short
            elif fam == 6:
                dom = n2ip(tgt[0]).encode() if rng.random() < 0.7 else b"sim.example"
                hdr = b"\x00\x00\x00\x03" + bytes([len(dom)]) + dom + tgt[1].to_bytes(2, "big")
                if rng.random() < 0.3:
                    hdr = hdr[:rng.randrange(4, len(hdr))]
                    good = b""
                out(tgt, good, hdr=hdr)                                                 # domain form
            elif fam == 7:
                inn((ip2n("10.9.9.9"), rng.choice((3, 13000))), P.valid_in())           # unknown host
            elif fam == 8:
                out((rng.choice(FAR_IPS), rng.choice((7, 999))), good)                  # no such circuit
            elif fam == 9:
                inn(v, good)                                                            # viewer without SOCKS header
            elif fam == 10:
                inn(tgt, socks_hdr(v) + P.valid_in())                                   # simulator sends a SOCKS header
            elif fam == 11:
                other = (v[0], v[1] + 100)
                out(tgt, good if rng.random() < 0.7 else P.damage(good), src=other)     # another local port
            elif fam == 12:
                unreg = [a for a in regs if a not in opened[i]]
                if unreg:
                    inn(rng.choice(unreg), P.valid_in())                                # region without circuit
                else:
                    inn((ip2n("10.9.9.8"), 3), P.damage(good))
            else:
                if poison:
                    out(v, good)                                                        # addressed to the viewer itself
                else:
                    out((ip2n("10.7.7.7"), v[1]), good)
    return {"sessions": sessions, "protos": protos, "events": events}


def exhaustive_scenarios(ctx, impl: Impl, depth: int):
    """every sequence up to `depth` over a fixed alphabet of event kinds, one session/region/association"""
    from hippolyzer.lib.base.message.message import Block, Message
    UUID = impl.UUID
    ser = impl.serializer
    S = (ip2n("10.0.0.5"), 13000)
    V = (VIEWER_IP, 50000)
    SID = 0x1234

    def m(name, *blocks, pid=5, flags=0):
        return bytes(ser.serialize(Message(name, *blocks, packet_id=pid, flags=flags)))

    ucc_ok = m(UCC, Block("CircuitCode", Code=1, SessionID=UUID(int=SID), ID=UUID(int=7)), pid=1)
    ucc_bad = m(UCC, Block("CircuitCode", Code=1, SessionID=UUID(int=SID + 1), ID=UUID(int=7)), pid=1)
    chat = m("ChatFromViewer", Block("AgentData", AgentID=UUID(int=7), SessionID=UUID(int=SID)),
             Block("ChatData", Message="hi", Type=1, Channel=0), pid=2, flags=0x40)
    cin = m("ChatFromSimulator", Block("ChatData", fill_missing=True), pid=3)
    ban = m("TeleportFinish", Block("Info", fill_missing=True), pid=4)
    close = m("CloseCircuit", pid=6)
    alphabet = [
        ("ucc", V, socks_hdr(S) + ucc_ok),
        ("uccbad", V, socks_hdr(S) + ucc_bad),
        ("out", V, socks_hdr(S) + chat),
        ("in", S, cin),
        ("banned", S, ban),
        ("close", V, socks_hdr(S) + close),
        ("garbage", V, socks_hdr(S) + b"\x00\x01"),
        ("frag", V, b"\x00\x00\x01\x01" + socks_hdr(S)[4:] + chat),
        ("nocircuit", V, socks_hdr((S[0], 9)) + chat),
        ("selfaddr", V, socks_hdr(V) + chat),
    ]
    base = {"sessions": [{"sid": SID, "regions": [list(S)]}], "protos": [{"client": list(V)}]}
    for n in range(1, depth + 1):
        for seq in itertools.product(alphabet, repeat=n):
            sc = dict(base)
            sc["events"] = [{"p": 0, "src": list(src), "data": hx(data)} for _, src, data in seq]
            yield "/".join(k for k, _, _ in seq), sc


SCALE_NS = (8, 16, 32, 63, 64, 65, 100, 128, 256, 300, 1024)


def scale_scenarios(ctx, impl: Impl, P: "Payloads"):
    """Linear-size families that reach size-dependent behaviour of the routing state (caps, evictions, counters):
    (a) fan-out: after the handshakes an association sends SOCKS datagrams to N distinct destinations it has no
        circuit with (valid messages, undecodable payloads, UseCircuitCode for unknown regions, domain form),
        N around powers of two and round numbers, and after every stray the first-learnt, a middle and the
        last-learnt open circuit each deliver a simulator->viewer datagram (and now and then the viewer talks back);
    (b) many regions: 20 regions in one session, all opened, traffic on each in both directions, then strays;
    (c) one circuit, 1000 datagrams of repeated traffic with increasing packet ids in both directions."""
    rng = ctx.rng
    V = (ip2n("192.168.1.20"), 51234)
    SID = 0x5ca1e

    def base(nreg):
        regs = [[ip2n("10.1.%d.%d" % (k // 200, 3 + k % 200)), 13000 + k] for k in range(nreg)]
        return {"sessions": [{"sid": SID, "regions": regs}], "protos": [{"client": list(V)}]}, [tuple(r) for r in regs]

    def ev(src, data):
        return {"p": 0, "src": list(src), "data": hx(data)}

    in_pool = [P.chat_in() for _ in range(4)] + [P.filled("CompletePingCheck"), P.filled("SimStats"),
                                                 P.packet_ack(2), P.ping()]
    out_pool = [P.chat_out() for _ in range(3)] + [P.filled("AgentUpdate", flags=0x80), P.packet_ack(1)]
    stray_valid = P.chat_out()
    stray_ucc = P.ucc(SID)

    def stray(k):
        dst = (ip2n("10.8.%d.%d" % (k // 250, 1 + k % 250)), 9000 + (k % 7))
        kind = k % 5
        if kind in (0, 1):
            return ev(V, socks_hdr(dst) + stray_valid)                       # no circuit for that host
        if kind == 2:
            return ev(V, socks_hdr(dst) + b"\x00\x01\x02")                    # undecodable
        if kind == 3:
            return ev(V, socks_hdr(dst) + stray_ucc)                         # UseCircuitCode, no such region
        dom = b"h%d.example" % k
        return ev(V, b"\x00\x00\x00\x03" + bytes([len(dom)]) + dom + b"\x23\x28" + stray_valid)   # domain form

    for n in SCALE_NS:
        nreg = 3 if n != 100 else 5
        sc, regs = base(nreg)
        events = [ev(V, socks_hdr(r) + P.ucc(SID)) for r in regs]
        probes = [regs[0], regs[len(regs) // 2], regs[-1]]
        for k in range(n):
            events.append(stray(k))
            for j, r in enumerate(probes):
                events.append(ev(r, in_pool[(k + j) % len(in_pool)]))
            if k % 8 == 7:
                events.append(ev(V, socks_hdr(probes[k % 3]) + out_pool[k % len(out_pool)]))
        sc["events"] = events
        yield "scale:fanout:%d" % n, sc
    # (b) many regions
    sc, regs = base(20)
    events = [ev(V, socks_hdr(r) + P.ucc(SID)) for r in regs]
    for rnd in range(3):
        for j, r in enumerate(regs):
            events.append(ev(V, socks_hdr(r) + out_pool[(rnd + j) % len(out_pool)]))
            events.append(ev(r, in_pool[(rnd + j) % len(in_pool)]))
        for k in range(25):
            events.append(stray(100 * rnd + k))
            events.append(ev(regs[(k * 7) % 20], in_pool[k % len(in_pool)]))
    sc["events"] = events
    yield "scale:regions:20", sc
    # (c) one circuit, long history
    sc, regs = base(1)
    S = regs[0]
    events = [ev(V, socks_hdr(S) + P.ucc(SID))]
    for k in range(ctx.pick(1000, 3000)):
        if k % 2 == 0:
            events.append(ev(V, socks_hdr(S) + (P.chat_out() if k % 10 else P.packet_ack(1 + k % 3))))
        else:
            events.append(ev(S, P.chat_in() if k % 10 != 1 else P.ping()))
    sc["events"] = events
    yield "scale:long:%d" % (len(events) - 1), sc


def correspond_close(ctx, impl: Impl) -> CorrResult:
    """two viewers behind one proxy: the end of one viewer's association must not disturb the other session - whether that one is
    already claimed or still pending (logged in, UseCircuitCode not yet sent).  Impl-level oracle (close is not in the model)."""
    res = CorrResult(suite="end of one association does not disturb another session (impl-level oracle)",
                     rule="sessions A and B with one region each, two associations; A opens its circuit, [B opens its circuit before | "
                          "after] A's association is closed; then B's UseCircuitCode (if still due), a viewer->simulator chat and a "
                          "simulator->viewer chat of B: each reaches exactly its peer exactly once")
    P = Payloads(impl, ctx.rng, False)
    VA, VB = (ip2n("192.168.1.20"), 50001), (ip2n("192.168.1.21"), 50002)
    SA, SB = (ip2n("10.1.0.3"), 13000), (ip2n("10.1.0.4"), 13001)
    n = 0
    for b_first in (True, False):
        n += 1
        sc = {"sessions": [{"sid": 5, "regions": [list(SA)]}, {"sid": 6, "regions": [list(SB)]}],
              "protos": [{"client": list(VA)}, {"client": list(VB)}]}
        ev = []
        ev.append({"p": 0, "src": list(VA), "data": hx(socks_hdr(SA) + P.ucc(5))})
        if b_first:
            ev.append({"p": 1, "src": list(VB), "data": hx(socks_hdr(SB) + P.ucc(6))})
        ev.append({"p": 0, "close": 1, "src": list(VA), "data": ""})
        if not b_first:
            ev.append({"p": 1, "src": list(VB), "data": hx(socks_hdr(SB) + P.ucc(6))})
        k0 = len(ev)
        ev.append({"p": 1, "src": list(VB), "data": hx(socks_hdr(SB) + P.chat_out())})
        ev.append({"p": 1, "src": list(SB), "data": hx(P.chat_in())})
        sc["events"] = ev
        try:
            events, _state, _ss, _stray = impl.run(sc)
        except Exception as e:   # noqa
            res.disagreements.append({"what": "close scenario could not be run", "exc": type(e).__name__ + ": " + str(e)[:200]})
            continue
        want_dst = {k0 - 1: SB, k0: SB, k0 + 1: VB}
        for idx in ((k0 - 1, k0, k0 + 1) if not b_first else (k0, k0 + 1)):
            outcome, sends = events[idx]
            if len(sends) != 1 or tuple(sends[0][1]) != tuple(want_dst[idx]):
                res.impl_violations.append({"clause": "every datagram of a session with an open (or opening) circuit reaches exactly its peer "
                                                      "exactly once - whatever happens to another viewer's association",
                                            "class": "close-disturbs-other-session", "b_opened_before_close": b_first, "event": idx,
                                            "outcome": outcome, "sends": [[hx(d)[:40], list(a)] for d, a in sends], "kind": "close"})
                break
    seen, keep = set(), []
    for v in res.impl_violations:
        if v["class"] not in seen:
            seen.add(v["class"])
            keep.append(v)
    res.impl_violations = keep
    res.evaluations = n
    res.distinct_nontrivial = n
    return res


# ---------------------------------------------------------------------------------------
# framework entry points

def generate(ctx):
    from harness.translate import c06_gen
    coq_dir = os.path.join(os.path.dirname(os.path.dirname(os.path.dirname(os.path.abspath(__file__)))), "coq")
    tbl, banned = c06_gen.emit(coq_dir)
    ctx.notes.append("message.xml: %d entries, %d banned from UDP" % (len(tbl), len(banned)))
    obl = [{"name": "gen/C06_gen.v:C06_gen_message_xml_matches",
            "detail": "live message.xml flavor table (%d entries, %d banned) = the model's table; the 8 message "
                      "names the model special-cases exist in the live template; no flavor-less entry is a "
                      "template message" % (len(tbl), len(banned))}]
    # C06b: the composition layer needs the live template dictionary (shared with C01/C02) ...
    from harness.translate import template as tmpl_tr
    _msgs, tobl = tmpl_tr.generate(ctx)
    obl += tobl
    # ... and is tied to the live code by a generated table of (payload, what the real code answers)
    n, stats = c06b_emit(coq_dir, ctx.seed)
    _C06B["cases"], _C06B["stats"] = n, stats
    ctx.notes.append("C06b oracle table: %d payloads %r" % (n, stats))
    obl.append({"name": "gen/C06b_gen.v:C06b_gen_oracle_matches",
                "detail": "decode_real current_dict (Compose/Glue.v) = live UDPMessageDeserializer + Message.blocks + "
                          "AddonManager.handle_lludp_message + fresh ProxiedCircuit.send on %d payloads %r, by vm_compute"
                          % (n, stats)})
    return obl


# ---------------------------------------------------------------------------------------
# C06b: composition layer (theories/Compose, theories/Props/C06b.v)

_C06B = {"cases": 0, "stats": {}}
_C06B_PARSED_BEFORE_SEND = NEEDS_BODY + ("ChatFromViewer", "ChatFromSimulator")


def _nl(bs) -> str:
    return "[" + ";".join(str(x) for x in bs) + "]"


def _optl(bs) -> str:
    return "None" if bs is None else "Some " + _nl(bs)


def c06b_emit(coq_dir: str, seed: int, n_random: int = 60):
    """writes coq/gen/C06b_gen.v: payloads with the live code's answers, and the obligation that the composed
    Coq oracle decode_real gives the same answers.  Deterministic in (repo, seed)."""
    import random
    impl = Impl()
    try:
        rng = random.Random((seed << 8) ^ 0xC06B)
        P = Payloads(impl, rng, all_types=False)
        UUID = impl.UUID
        pl = [P.ucc(7), P.ucc(rng.getrandbits(128))]
        for ch in (524, 0, -1, 2147483647):
            m = P.Message("ChatFromViewer", P.Block("AgentData", AgentID=UUID(int=77), SessionID=UUID(int=5)),
                          P.Block("ChatData", Message="cmd x", Type=1, Channel=ch), **P._hdr({}))
            pl.append(P.ser(m))
        pl += [P.rlv_empty(), P.rlv_cmd(), P.chat_in(), P.ping(), P.ping()]
        pl += [P.packet_ack(k) for k in (1, 2, 3)]
        pl += [bytes([0, 0, 0, 0, 3, 0, 255, 255, 255, 251, 0]),                          # empty PacketAck
               bytes([16, 0, 0, 0, 3, 0, 255, 255, 255, 251, 0, 0, 0, 0, 9, 1]),          # ... with one appended ack
               bytes([16, 0, 0, 0, 5, 0, 2, 9, 0]),                                        # ACK flag, zero acks
               bytes([128, 0, 0, 0, 7, 0, 255, 255, 0, 1, 80, 0, 16, 0, 16, 3, 0, 1, 104, 105, 0, 1, 1, 0, 4]),  # non-canonical zero-coding
               bytes([0, 0, 0, 0, 5, 0, 2, 9, 170, 187]),                                  # trailing junk
               bytes([0, 0, 0, 0, 1, 0, 255, 255, 255, 251, 2, 9, 0, 0, 0])]               # truncated PacketAck body
        for _ in range(n_random):
            b = P.valid_out() if rng.random() < 0.5 else P.valid_in()
            pl.append(b)
            if rng.random() < 0.5:
                pl.append(P.damage(b))
        seen, cases = set(), []
        stats = {"undecodable": 0, "body_unparseable": 0, "decoded": 0, "reencoded_differently_when_parsed": 0}
        for b in pl:
            if b in seen or len(b) > 400:
                continue
            seen.add(b)
            r = impl.oracle(b)
            if r is None:
                cases.append("(%s, None)" % _nl(b))
                stats["undecodable"] += 1
                continue
            name, body_ok, sid, out, consumed = r
            out_all = "None"
            if body_ok:
                o2 = impl._circuit_out(b, True)
                out_all = "Some (%s)" % _optl(o2)
                if o2 != out:
                    stats["reencoded_differently_when_parsed"] += 1
                if name in _C06B_PARSED_BEFORE_SEND:
                    out = o2    # handle_proxied_packet / AddonManager read a block of these before the send
                stats["decoded"] += 1
            else:
                stats["body_unparseable"] += 1
            cases.append("(%s, Some (%s, %s, %d, %s, %s, %s))" % (
                _nl(b), _nl(name.encode("ascii")), "true" if body_ok else "false", sid,
                "true" if consumed else "false", _optl(out), out_all))
    finally:
        impl.close()
    txt = _C06B_TEMPLATE % ";\n ".join(cases)
    p = os.path.join(coq_dir, "gen", "C06b_gen.v")
    old = open(p).read() if os.path.exists(p) else None
    if old != txt:
        tmp = p + ".tmp%d" % os.getpid()
        with open(tmp, "w") as f:
            f.write(txt)
        os.replace(tmp, p)
    return len(cases), stats


_C06B_TEMPLATE = """(* GENERATED by harness/props/c06.py (c06b_emit) from the live proxy code - do not edit.
   Each case: an LLUDP payload and what the REAL code answers for it - UDPMessageDeserializer
   (deferred parsing), Message.blocks, the UseCircuitCode session id, AddonManager.handle_lludp_message
   with no addon, and the bytes a fresh ProxiedCircuit.send + UDPMessageSerializer emit, once in the
   lazy-parse state the addon-free proxy produces by itself (touch_none) and once parsed first
   (touch_all; only when the body parses).  The obligation: the composed Coq oracle
   [decode_real current_dict] (Compose/Glue.v) gives the same answers. *)
From Coq Require Import NArith List Bool.
From HV Require Import Base.Bytes Tmpl.Template Tmpl.Codec Proxy.Socks Proxy.UdpProxy Compose.Glue.
From HVgen Require Import Template_gen.
Import ListNotations.
Local Open Scope N_scope.

Definition c06b_expect := option (list N * bool * N * bool * option (list N) * option (option (list N))).

Definition c06b_obeq (a b : option (list N)) : bool :=
  match a, b with
  | None, None => true
  | Some x, Some y => bytes_eqb x y
  | _, _ => false
  end.

Definition c06b_check (c : list N * c06b_expect) : bool :=
  match decode_real current_dict touch_none (fst c), decode_real current_dict touch_all (fst c), snd c with
  | None, None, None => true
  | Some a, Some b, Some (nm, ok, sid, csm, out_n, out_a) =>
      bytes_eqb (mi_name a) nm && Bool.eqb (mi_body_ok a) ok && (mi_sid a =? sid)
      && Bool.eqb (mi_consumed a) csm && c06b_obeq (mi_out a) out_n
      && match out_a with Some o => c06b_obeq (mi_out b) o | None => true end
  | _, _, _ => false
  end.

Definition c06b_cases : list (list N * c06b_expect) := [
 %s
].

(* the indices of the cases on which model and code differ (shown by the error message if there are any) *)
Definition c06b_failing : list nat :=
  map fst (filter (fun ic => negb (c06b_check (snd ic))) (combine (seq 0 (length c06b_cases)) c06b_cases)).

Theorem C06b_gen_oracle_matches : c06b_failing = [].
Proof. vm_compute. reflexivity. Qed.
"""


def correspond_c06b(ctx) -> CorrResult:
    """the composition theorems of Props/C06b.v are not COQ_PROPS of this module, so their `Print Assumptions`
    output is checked here: every one must be closed under the global context"""
    from harness.common import framework
    res = CorrResult(suite="C06b composition: Print Assumptions of theories/Props/C06b.v + generated oracle table",
                     rule="every theorem of Props/C06b.v must print 'Closed under the global context'; the generated "
                          "obligation gen/C06b_gen.v compares decode_real with the live code on the payload table "
                          "(counted as evaluations; checked by vm_compute inside Coq, a mismatch fails the build); "
                          "non-trivial = payload the live deserializer accepts")
    try:
        ok, assumptions, out = framework.print_assumptions(COQ_PROPS_B, ctx.scratch)
    except Exception as e:
        ok, assumptions, out = False, {}, "print_assumptions raised %s: %s" % (type(e).__name__, e)
    src = framework.strip_comments(open(os.path.join(framework.COQ, COQ_PROPS_B)).read())
    import re
    thms = re.findall(r"(?m)^\s*Theorem\s+([A-Za-z0-9_']+)", src)
    if not ok:
        res.disagreements.append({"what": "Props/C06b.v did not compile or a Print Assumptions is missing", "log": out[-600:]})
    for t in thms:
        ax = assumptions.get(t)
        if ax is None:
            res.disagreements.append({"theorem": t, "what": "no Print Assumptions output"})
        elif ax and not all(framework.axiom_allowed(a) for a in ax):
            res.disagreements.append({"theorem": t, "what": "depends on axioms", "axioms": ax})
    st = _C06B["stats"]
    res.evaluations = len(thms) + _C06B["cases"]
    res.distinct_nontrivial = st.get("decoded", 0) + st.get("body_unparseable", 0)
    res.distribution = {"theorems_closed": len([t for t in thms if assumptions.get(t) == []]), "oracle_table": st}
    res.samples = thms[:4]
    return res


def _corpus_cases():
    d = os.path.join(os.path.dirname(os.path.dirname(os.path.dirname(os.path.abspath(__file__)))), "corpus", "C06")
    out = []
    if os.path.isdir(d):
        for f in sorted(os.listdir(d)):
            if f.endswith(".json"):
                try:
                    out.append((f, json.load(open(os.path.join(d, f)))))
                except Exception:
                    pass
    return out


def correspond_socks(ctx, impl: Impl) -> CorrResult:
    rng = ctx.rng
    depth = ctx.pick(6, 7)
    res = CorrResult(suite="SOCKS5 UDP framing: impl vs extracted model",
                     rule="_parse_socks_datagram on every byte string over {00,01,03,ff} up to length %d (exhaustive) and "
                          "on seeded structured headers (valid IPv4/domain, frag/rsv/ATYP variations, every truncation); "
                          "SOCKS5UDPTransport.serialize on random addresses; impl-level clause parse(wrap(a,d)) = (a,d) "
                          "and frag/rsv rejection; non-trivial = input of length >= 4 with rsv = 0" % depth)
    cases = []
    for n in range(depth + 1):
        for t in itertools.product((0, 1, 3, 255), repeat=n):
            cases.append(("exh", bytes(t)))
    for _ in range(ctx.pick(1500, 20000)):
        a = (rng.getrandbits(32), rng.getrandbits(16))
        body = bytes(rng.randrange(256) for _ in range(rng.randrange(0, 12)))
        k = rng.random()
        if k < 0.4:
            d = socks_hdr(a) + body
        elif k < 0.7:
            dom = bytes(rng.randrange(256) for _ in range(rng.randrange(0, 9)))
            ln = len(dom) if rng.random() < 0.7 else rng.randrange(256)
            d = b"\x00\x00\x00\x03" + bytes([ln]) + dom + a[1].to_bytes(2, "big") + body
        else:
            d = bytearray(socks_hdr(a) + body)
            d[rng.randrange(4)] = rng.choice((0, 1, 2, 3, 4, 255))
            d = bytes(d)
        cases.append(("struct", d))
        if rng.random() < 0.3:
            for cut in range(len(d)):
                cases.append(("trunc", d[:cut]))
    seen = set()
    lines, keep = [], []
    for kind, d in cases:
        if d in seen:
            continue
        seen.add(d)
        keep.append((kind, d))
        lines.append("p " + hx(d))
    wraps = []
    for _ in range(ctx.pick(300, 3000)):
        a = (rng.choice((0, 1, 0x7f000001, 0xffffffff, rng.getrandbits(32))), rng.choice((0, 1, 65535, rng.getrandbits(16))))
        body = bytes(rng.randrange(256) for _ in range(rng.randrange(0, 20)))
        wraps.append((a, body))
        lines.append("r %d %d %s" % (a[0], a[1], hx(body)))
    model = ctx.run_driver(lines)
    dist = {}
    nontriv = 0
    for (kind, d), mo in zip(keep, model):
        io = impl.parse_socks(d)
        dist[kind] = dist.get(kind, 0) + 1
        if len(d) >= 4 and d[:2] == b"\x00\x00":
            nontriv += 1
        if io != mo:
            res.disagreements.append({"op": "parse_socks", "input": d.hex(), "impl": io, "model": mo})
        # impl-level: frag / rsv rejection
        if len(d) >= 4 and (d[0] or d[1] or d[2]) and io != "NONE" and len(res.impl_violations) < 5:
            res.impl_violations.append({"clause": "frag != 0 or rsv != 0 is rejected", "class": "socks-frag-rsv-accepted",
                                        "input": d.hex(), "got": io})
    for (a, body), mo in zip(wraps, model[len(keep):]):
        io = impl.wrap(a, body)
        dist["wrap"] = dist.get("wrap", 0) + 1
        nontriv += 1
        if io != mo:
            res.disagreements.append({"op": "wrap", "addr": list(a), "input": body.hex(), "impl": io, "model": mo})
        back = impl.parse_socks(unhx(io)) if not io.startswith("EXC") else io
        want = "OK I %d %d %s" % (a[0], a[1], hx(body))
        if back != want and len(res.impl_violations) < 5:
            res.impl_violations.append({"clause": "what one side adds the other side strips: parse(wrap(a,d)) = (a,d)",
                                        "class": "socks-wrap-parse-not-inverse", "addr": list(a), "input": body.hex(),
                                        "got": back})
    res.evaluations = len(lines)
    res.distinct_nontrivial = nontriv
    res.distribution = dist
    res.samples = [{"op": "parse_socks", "input": d.hex(), "result": mo} for (k, d), mo in
                   list(zip(keep, model))[400:403]]
    return res


def _has_command_chat(impl, sc) -> bool:
    for ev in sc["events"]:
        d = unhx(ev["data"])
        for c in (d, d[10:] if len(d) >= 10 else None, d[5 + d[4] + 2:] if len(d) >= 5 else None):
            if c is None:
                continue
            o = impl.oracle(c)
            if o is not None and o[4] and o[0] == "ChatFromViewer":
                return True
    return False


def _run_batch(ctx, impl: Impl, batch, res: CorrResult, dist, viol_classes, iso_limit):
    """batch: list of (tag, scenario).  Diff model vs impl and evaluate the property."""
    kept = []
    for tag, sc in batch:
        line = model_line(impl, sc)
        if impl.saw_command_chat and _has_command_chat(impl, sc):
            dist["skipped:command-channel chat"] = dist.get("skipped:command-channel chat", 0) + 1
            continue
        kept.append(((tag, sc), line))
    batch = [b for b, _ in kept]
    lines = [l for _, l in kept]
    model = ctx.run_driver(lines) if lines else []
    nontriv = 0
    for (tag, sc), mo in zip(batch, model):
        try:
            events, state, sstate, stray = impl.run(sc)
        except Exception as e:
            res.disagreements.append({"scenario": sc, "impl": "HARNESS-EXC:" + repr(e)[:200], "model": mo[:200]})
            continue
        io = impl_line(impl, events, state)
        mo = norm_model_line(mo)
        for outcome, sends in events:
            dist[outcome] = dist.get(outcome, 0) + 1
        if any(o == "FWD" for o, _ in events):
            nontriv += 1
        if io != mo:
            ms, is_ = mo.split(" ; "), io.split(" ; ")
            k = next((k for k, (a, b) in enumerate(zip(ms, is_)) if a != b), None)
            res.disagreements.append({"tag": tag, "scenario": sc, "first_diff_event": k,
                                      "impl": (is_[k] if k is not None else io)[-600:],
                                      "model": (ms[k] if k is not None else mo)[-600:]})
        v = check_property(impl, sc, events=(events, sstate, stray), iso_limit=iso_limit, rng=ctx.rng)
        if v is not None:
            n = viol_classes.get(v["class"], 0)
            viol_classes[v["class"]] = n + 1
            if n == 0:
                v = shrink(impl, v)
                v["tag"] = tag
                res.impl_violations.append(v)
    return nontriv


def correspond(ctx):
    impl = Impl()
    try:
        out = [correspond_socks(ctx, impl), correspond_close(ctx, impl)]
        # ---- routing scenarios
        P = Payloads(impl, ctx.rng, all_types=ctx.thorough)
        res = CorrResult(suite="routing: real InterceptingLLUDPProxyProtocol vs extracted model",
                         rule="corpus cases first; then seeded random scenarios "
                              "with 1-2 sessions, 1-3 regions each, 1-2 associations and up to %d datagrams mixing real "
                              "serialized Messages (%s template types, random flags/acks/zerocoding) in both directions "
                              "with 14 malformed/mis-addressed families; per event the outcome (which log/raise), the "
                              "(bytes, destination) sends, and at the end far_to_near_map, .session, Session.pending/"
                              "main_region/regions/circuits are compared; the statement of C06 is evaluated on the "
                              "implementation for every scenario incl. re-running it without each discarded datagram; "
                              "non-trivial = scenario in which at least one datagram is forwarded"
                              % (ctx.pick(12, 40), "all 481" if ctx.thorough else "randomly chosen"))
        dist, vio = {}, {}
        nontriv = 0
        total = 0
        corpus = [(f, c["scenario"]) for f, c in _corpus_cases() if "scenario" in c]
        if corpus:
            nontriv += _run_batch(ctx, impl, corpus, res, dist, vio, None)
            total += len(corpus)
        depth = ctx.pick(3, 4)
        exh = CorrResult(suite="routing, exhaustive small scope: real protocol vs extracted model", exhaustive=True,
                         rule="every event sequence of length 1..%d over 10 event kinds (handshake, bad session id, valid "
                              "out/in, banned, CloseCircuit, undecodable, frag, no circuit, self-addressed) on one "
                              "session/region/association; same comparison and impl-level oracle as the random suite; "
                              "non-trivial = at least one datagram forwarded" % depth)
        edist, evio = {}, {}
        batch = [("exh:" + tag, sc) for tag, sc in exhaustive_scenarios(ctx, impl, depth)]
        exh.distinct_nontrivial = _run_batch(ctx, impl, batch, exh, edist, evio, None)
        exh.evaluations = len(batch)
        exh.distribution = {"event_outcomes": edist, "impl_violation_classes": evio}
        exh.samples = [{"tag": t, "events": len(sc["events"])} for t, sc in batch[500:503]]
        exh.impl_violations.sort(key=lambda v: v.get("class") in (POISON_CLASS, RLV_CLASS))
        out.append(exh)
        nrand = ctx.pick(1000, 8000)
        done = 0
        while done < nrand:
            chunk = min(500, nrand - done)
            batch = [("rand", gen_scenario(ctx, impl, P, ctx.pick(12, 40))) for _ in range(chunk)]
            nontriv += _run_batch(ctx, impl, batch, res, dist, vio, ctx.pick(2, 3))
            total += chunk
            done += chunk
        res.evaluations = total
        res.distinct_nontrivial = nontriv
        res.distribution = {"event_outcomes": dist, "impl_violation_classes": vio,
                            "oracle_payloads": len(impl._oracle), "impl_runs": impl.runs}
        res.samples = [{"tag": t, "events": len(sc["events"]), "first_event": sc["events"][0] if sc["events"] else None}
                       for t, sc in batch[:3]]
        # findings already reported for the unchanged tree go last, so that a new failure is what gets replayed
        res.impl_violations.sort(key=lambda v: v.get("class") in (POISON_CLASS, RLV_CLASS))
        out.append(res)
        # ---- size-dependent behaviour of the routing state
        sc_res = CorrResult(suite="routing, size-dependent state: real protocol vs extracted model",
                            rule="linear-size scenarios: fan-out to N distinct stray destinations for N in %s with "
                                 "simulator->viewer traffic from the first-learnt, a middle and the last-learnt open circuit "
                                 "after every stray; 20 regions with all circuits open; %d datagrams of repeated traffic on "
                                 "one circuit; same comparison (the model's far_to_near map is unbounded) and impl-level "
                                 "oracle as the other routing suites; non-trivial = at least one datagram forwarded"
                                 % (list(SCALE_NS), ctx.pick(1000, 3000)))
        sdist, svio = {}, {}
        batch = list(scale_scenarios(ctx, impl, P))
        sc_res.distinct_nontrivial = _run_batch(ctx, impl, batch, sc_res, sdist, svio, 1)
        sc_res.evaluations = len(batch)
        sc_res.distribution = {"event_outcomes": sdist, "impl_violation_classes": svio,
                               "events_per_scenario": {t: len(sc["events"]) for t, sc in batch}}
        sc_res.samples = [{"tag": t, "events": len(sc["events"])} for t, sc in batch[:3]]
        # a disagreement record carries its scenario; keep only the smallest ones
        sc_res.disagreements.sort(key=lambda d: len(d.get("scenario", {}).get("events", [])))
        del sc_res.disagreements[3:]
        out.append(sc_res)
        out.append(correspond_c06b(ctx))
        return out
    finally:
        impl.close()


def search(ctx, hints):
    impl = Impl()
    try:
        for h in hints:
            d = h.get("disagreement")
            if d and "scenario" in d:
                v = check_property(impl, d["scenario"])
                if v:
                    return shrink(impl, v)
        for f, c in _corpus_cases():
            if "scenario" in c:
                v = check_property(impl, c["scenario"])
                if v:
                    return shrink(impl, v)
        for tag, sc in exhaustive_scenarios(ctx, impl, 3):
            v = check_property(impl, sc)
            if v:
                return shrink(impl, v)
        P = Payloads(impl, ctx.rng, all_types=False)
        for tag, sc in scale_scenarios(ctx, impl, P):
            v = check_property(impl, sc, iso_limit=1, rng=ctx.rng)
            if v:
                return shrink(impl, v)
        for _ in range(ctx.pick(1500, 10000)):
            v = check_property(impl, gen_scenario(ctx, impl, P, 12), iso_limit=2, rng=ctx.rng)
            if v:
                return shrink(impl, v)
        return None
    finally:
        impl.close()


def replay(ctx, case):
    impl = Impl()
    try:
        if case.get("kind") == "close":
            r = correspond_close(ctx, impl)
            return (True, r.impl_violations[0]) if r.impl_violations else (False, "holds")
        if "scenario" in case:
            v = check_property(impl, case["scenario"])
            if v is None:
                return False, "holds"
            v = dict(v)
            v.pop("scenario", None)
            return True, v
        if "addr" in case:
            a = tuple(case["addr"])
            body = bytes.fromhex(case["input"])
            io = impl.wrap(a, body)
            back = impl.parse_socks(unhx(io)) if not io.startswith("EXC") else io
            want = "OK I %d %d %s" % (a[0], a[1], hx(body))
            return (back != want), {"wrapped": io, "parsed_back": back, "want": want}
        if "input" in case:
            io = impl.parse_socks(bytes.fromhex(case["input"]))
            return (io != "NONE"), io
        return False, "nothing to replay"
    finally:
        impl.close()
