"""C01 - LLUDP template codec: every template-conformant message round-trips by value.

Model: coq/theories/Tmpl/{Template,Codec}.v, proofs Tmpl/CodecProofs.v, theorems Props/C01.v.
Tie:   (G) coq/gen/Template_gen.v regenerated from the live TemplateDictionary (+ wf_dict obligation),
       (M) extracted model (run on that generated dictionary) vs UDPMessageSerializer / UDPMessageDeserializer.

This module also holds the adapter (Python Message <-> model message line) shared with C02.
"""
import itertools
import json
import os
import struct
import uuid as _uuid

from harness.common.framework import CorrResult, VERIF
from harness.translate import template as tmpl_tr

PROP_ID = "C01"
COQ_PROPS = "theories/Props/C01.v"
COQ_EXTRA = ["gen/Template_gen.v"]
EXTRACT = ("theories/Extract/ExC01.v", "c01_driver.ml")
EXTRACT_Z = True
TRUSTED = [
    "modelled by hand (coq/theories/Tmpl/Codec.v): UDPMessageSerializer.serialize/_serialize_block/_serialize_var, "
    "UDPMessageDeserializer._parse_message_header/_parse_message_body/_parse_var/_parse_msg_num, TemplateDataPacker.SPECS, "
    "Message/Block fields; Python exceptions of any class are the single outcome None",
    "values are wire-level: ints as numbers, every other variable as its payload bytes. The Python value <-> payload mapping "
    "(struct '<f' '<d' for floats and vectors, Quaternion packing X,Y,Z only, uuid bytes, dotted-quad IPs, str = UTF-8 + NUL) "
    "is the harness adapter `tok()` and is exercised by every correspondence case, not proved; struct/uuid/socket/UTF-8 codec are assumed. "
    "The one float effect that is visible at byte level (a signalling single-precision NaN comes back quiet after unpack/pack) "
    "IS modelled (quiet_groups); C01's wire-level domain excludes exactly the single-precision signalling NaNs (val_ok demands snan_free; "
    "Python cannot even produce one through struct.pack('<f')), quiet NaNs round-trip bit-exactly; Python-level `==` is only checked on NaN-free messages",
    "RawBytes values (caller-supplied pre-encoded fields) are modelled (WRaw: written as is) and exercised by the correspondence; they are "
    "outside the conformance domain (val_ok is false on them). Pretty/subfield-serializer values of Block.__setitem__ are not modelled; "
    "the generator does not produce them",
    "Python dict semantics of Message.blocks / Block.vars are association lists with first-match lookup; the adapter emits each key once "
    "(dict keys are unique); dict *order* is kept as is and the theorem's right-hand side `normalize` reorders to template order - "
    "Python's Message.__eq__ compares dicts and so ignores order (C01_normalize_keeps_values states what normalize preserves)",
    "names are character lists instead of Coq `string` (extraction of `string` clashes with the shared OCaml prelude)",
    "the template dictionary is taken from the live objects (DEFAULT_TEMPLATE_DICT) by harness/translate/template.py; "
    "template_parser.py's reading of message_template.msg itself is not modelled (it is the input of the translator)",
]

UNSIGNED = {"TU8": 1, "TU16": 2, "TU32": 4, "TU64": 8, "TBool": 1, "TIPPort": 2}
SIGNED = {"TS8": 1, "TS16": 2, "TS32": 4, "TS64": 8}
F32S = {"TF32": 1, "TVec3": 3, "TQuat": 3, "TVec4": 4}
F64S = {"TF64": 1, "TVec3d": 3}


# --------------------------------------------------------------------------
# implementation access

class Impl:
    def __init__(self):
        from hippolyzer.lib.base.message.udpserializer import UDPMessageSerializer
        from hippolyzer.lib.base.message.udpdeserializer import UDPMessageDeserializer
        from hippolyzer.lib.base.message.message import Message, Block
        from hippolyzer.lib.base.settings import Settings
        from hippolyzer.lib.base import datatypes
        import logging
        logging.getLogger("message.udpdeserializer").setLevel(logging.CRITICAL + 1)
        logging.getLogger("message.udpserializer").setLevel(logging.CRITICAL + 1)
        self.Message, self.Block = Message, Block
        self.dt = datatypes
        self.ser = UDPMessageSerializer()
        eager = Settings()
        eager.ENABLE_DEFERRED_PACKET_PARSING = False
        lazy = Settings()
        lazy.ENABLE_DEFERRED_PACKET_PARSING = True
        self.de_eager = UDPMessageDeserializer(settings=eager)
        self.de_lazy = UDPMessageDeserializer(settings=lazy)
        self.tmsgs = tmpl_tr.load_template()
        self.by_name = {t.name: t for t in self.tmsgs}

    def serialize(self, m):
        try:
            return bytes(self.ser.serialize(m))
        except Exception as e:  # any exception class is the observation "error"
            return "EXC:" + type(e).__name__

    def deserialize(self, b: bytes):
        try:
            return self.de_eager.deserialize(b)
        except Exception as e:
            return "EXC:" + type(e).__name__


_IMPL = None


def impl() -> Impl:
    global _IMPL
    if _IMPL is None:
        _IMPL = Impl()
    return _IMPL


# --------------------------------------------------------------------------
# adapter: Python value -> model token (wire-level value)

def _hexint(prefix_pos, v: int) -> str:
    return ("%s%x" % (prefix_pos, v)) if v >= 0 else ("S-%x" % -v)


def tok(tv, val) -> str:
    """wire-level value of a Python variable value for template variable tv (to_model)"""
    ty = tv.ty if tv is not None else None
    if type(val).__name__ == "RawBytes":
        return "R" + bytes(val).hex()       # pre-encoded field, written as is
    try:
        if ty in UNSIGNED:
            if isinstance(val, (int, bool)):
                return _hexint("U", int(val))
            return "B"
        if ty in SIGNED:
            if isinstance(val, (int, bool)):
                return _hexint("S", int(val))
            return "B"
        if ty in F32S or ty in F64S:
            n = F32S.get(ty) or F64S.get(ty)
            fmt = "<%d%s" % (n, "f" if ty in F32S else "d")
            if ty in ("TF32", "TF64"):
                comps = (val,)
            elif ty == "TQuat":
                comps = tuple(val.data() if hasattr(val, "data") else val)[:3]
            else:
                comps = tuple(val)
            return "B" + struct.pack(fmt, *comps).hex()
        if ty == "TUUID":
            return "B" + _uuid.UUID(str(val)).bytes.hex()
        if ty == "TIPAddr":
            parts = str(val).split(".")
            if len(parts) != 4:
                return "B"
            return "B" + bytes(int(p) for p in parts).hex()
        # Fixed / Variable (and values under names the template does not know): _pack_string
        if isinstance(val, str):
            return "B" + (val.encode("utf8") + b"\x00").hex()
        if isinstance(val, (bytes, bytearray)):
            return "B" + bytes(val).hex()
        return "B"
    except Exception:
        # the implementation will fail on this value too (struct.error, ValueError...): a payload of
        # impossible length makes the model fail as well
        return "Bff" if ty not in ("TFixed", "TVarlen") else "B"


def to_line(im: Impl, m, raw="auto") -> str:
    """model message line of a Python Message"""
    t = im.by_name.get(m.name)
    toks = [m.name if m.name else "?", str(int(m.send_flags)),
            "-" if m.packet_id is None else str(int(m.packet_id)),
            bytes(m.extra).hex() or ".",
            ",".join(str(int(a)) for a in m.acks) or "."]
    rb = m.raw_body
    toks.append("." if rb is None else (bytes(rb).hex() or "="))
    blocks = m._blocks
    toks.append(str(len(blocks)))
    for bname, blist in blocks.items():
        tb = None
        if t is not None:
            for b in t.blocks:
                if b.name == bname:
                    tb = b
        toks += [bname, str(len(blist))]
        for blk in blist:
            items = [(k, v) for k, v in blk.vars.items() if v is not None]
            toks += ["1" if blk.fill_missing else "0", str(len(items))]
            for k, v in items:
                tv = None
                if tb is not None:
                    for x in tb.vars:
                        if x.name == k:
                            tv = x
                toks += [k, tok(tv, v)]
    return " ".join(toks)


def view_kind(im: Impl, v) -> str:
    if isinstance(v, str):
        return "STR"
    if isinstance(v, im.dt.JankStringyBytes):
        return "JANK"
    if isinstance(v, (bytes, bytearray)):
        return "BYTES"
    return type(v).__name__


# --------------------------------------------------------------------------
# generator

def f32(x: float) -> float:
    return struct.unpack("<f", struct.pack("<f", x))[0]


NAN = float("nan")
F32_EDGE = [NAN, 0.0, -0.0, 1.0, -1.5, 2.0 ** -149, -(2.0 ** -149), 2.0 ** -126, 3.4028234663852886e38, -3.4028234663852886e38,
            float("inf"), float("-inf"), 0.5, 255.0]
F64_EDGE = [NAN, 0.0, -0.0, 5e-324, -5e-324, 2.2250738585072014e-308, 1.7976931348623157e308, -1.7976931348623157e308,
            float("inf"), float("-inf"), 0.1, 1e100]
TEXTS = ["", "a", "hello world", "héllo 世界", "a\x00b", "\U0001f600", "x" * 40]
BLOBS = [b"", b"\x00", b"\x00\x00", b"abc\x00", b"abc\x00\x00", b"abc", b"\xff\xfe\x00", b"\xc3\x28\x00", b"a\x00b\x00",
         b"\xed\xa0\x80\x00", b"\xf4\x90\x80\x80\x00", b"\xc0\x80\x00", bytes(range(256))[:200]]


class Gen:
    def __init__(self, im: Impl, rng):
        self.im, self.rng = im, rng

    def rf32(self):
        r = self.rng
        if r.random() < 0.5:
            return r.choice(F32_EDGE)
        while True:
            x = struct.unpack("<f", r.getrandbits(32).to_bytes(4, "little"))[0]
            if x == x:
                return x

    def rf64(self):
        r = self.rng
        if r.random() < 0.5:
            return r.choice(F64_EDGE)
        while True:
            x = struct.unpack("<d", r.getrandbits(64).to_bytes(8, "little"))[0]
            if x == x:
                return x

    def rbytes(self, n):
        r = self.rng
        k = r.random()
        if k < 0.3:
            return bytes(r.getrandbits(8) for _ in range(n))
        if k < 0.6:
            return bytes(r.choice((0, 0, 0, 1, 255, 65)) for _ in range(n))
        if k < 0.8:
            return bytes(r.choice((0x61, 0x62, 0x20, 0xc3, 0xa9)) for _ in range(n))
        return b"\x00" * n

    def value(self, tv, big_ok=True):
        """a value in the wire domain of tv"""
        r, dt = self.rng, self.im.dt
        ty = tv.ty
        if ty in UNSIGNED:
            bits = 8 * UNSIGNED[ty]
            if ty == "TBool":
                return r.choice((True, False, 0, 1, 255, 2))
            return r.choice((0, 1, (1 << bits) - 1, (1 << (bits - 1)), r.getrandbits(bits)))
        if ty in SIGNED:
            bits = 8 * SIGNED[ty]
            return r.choice((0, -1, 1, -(1 << (bits - 1)), (1 << (bits - 1)) - 1, r.getrandbits(bits) - (1 << (bits - 1))))
        if ty == "TF32":
            return self.rf32()
        if ty == "TF64":
            return self.rf64()
        if ty == "TVec3":
            c = (self.rf32(), self.rf32(), self.rf32())
            return dt.Vector3(*c) if r.random() < 0.7 else c
        if ty == "TVec3d":
            c = (self.rf64(), self.rf64(), self.rf64())
            return dt.Vector3(*c) if r.random() < 0.7 else c
        if ty == "TVec4":
            c = (self.rf32(), self.rf32(), self.rf32(), self.rf32())
            return dt.Vector4(*c) if r.random() < 0.7 else c
        if ty == "TQuat":
            c = (self.rf32(), self.rf32(), self.rf32())
            return dt.Quaternion(*c) if r.random() < 0.7 else c
        if ty == "TUUID":
            k = r.random()
            if k < 0.2:
                return dt.UUID()
            u = dt.UUID(bytes=bytes(r.getrandbits(8) for _ in range(16)))
            return str(u) if k > 0.9 else u
        if ty == "TIPAddr":
            return ".".join(str(r.choice((0, 1, 127, 255, r.getrandbits(8)))) for _ in range(4))
        if ty == "TFixed":
            return self.rbytes(tv.size)
        if ty == "TVarlen":
            mx = (1 << (8 * tv.size)) - 1
            k = r.random()
            if k < 0.25:
                s = r.choice(TEXTS)
                if len(s.encode("utf8")) + 1 <= mx:
                    return s
            if k < 0.5:
                b = r.choice(BLOBS)
                if len(b) <= mx:
                    return b
            if k < 0.58:
                return self.rbytes(mx if (mx <= 255 or big_ok and r.random() < 0.1) else 255)
            if k < 0.64:
                return b""
            return self.rbytes(r.randrange(0, min(mx, 48) + 1))
        raise ValueError(ty)

    def bad_value(self, tv):
        """a value outside the wire domain (the serializer must refuse it, or it does not round-trip)"""
        r = self.rng
        ty = tv.ty
        if ty in UNSIGNED:
            return r.choice((-1, 1 << (8 * UNSIGNED[ty])))
        if ty in SIGNED:
            b = 8 * SIGNED[ty]
            return r.choice((-(1 << (b - 1)) - 1, 1 << (b - 1)))
        if ty == "TVarlen":
            return b"\x01" * (1 << (8 * tv.size)) if tv.size == 1 else None
        if ty == "TFixed":
            return None
        if ty == "TF32":
            return 1e39          # OverflowError in struct
        return None

    def message(self, t, mode="ok", flags=None, counts=None, big_ok=True):
        """build a Python Message for template t.  mode 'ok' = conforming, otherwise the name of a defect to inject"""
        r, im = self.rng, self.im
        nb = len(t.blocks)
        keep = nb
        if nb > 1 and r.random() < 0.2:
            keep = r.randrange(1, nb)
        if flags is None:
            flags = r.choice((0, 0x80, 0x40, 0x20, 0x10)) if r.random() < 0.5 else 16 * r.randrange(16)
        blocks = []
        for bi, b in enumerate(t.blocks[:keep]):
            if b.kind == "S":
                n = 1
            elif b.kind == "M":
                n = b.number
            else:
                n = counts if counts is not None else r.choice((0, 1, 1, 2, 2, 3, r.randrange(0, 8)))
            if mode == "count" and bi == 0:
                n = {"S": r.choice((0, 2)), "M": b.number + r.choice((-1, 1)), "V": 256}[b.kind]
            fill = r.random() < 0.25
            insts = []
            for _ in range(n):
                kw = {}
                vs = list(b.vars)
                if r.random() < 0.15:
                    r.shuffle(vs)
                for tv in vs:
                    if fill and r.random() < 0.4:
                        continue
                    kw[tv.name] = self.value(tv, big_ok and n <= 3)
                insts.append(im.Block(b.name, fill_missing=fill, **kw))
            blocks.append((b, insts))
        if mode == "range" and blocks:
            cands = [(insts, tv) for b, insts in blocks for tv in b.vars if insts and self.bad_value(tv) is not None]
            if cands:
                insts, tv = r.choice(cands)
                insts[r.randrange(len(insts))].vars[tv.name] = self.bad_value(tv)
        if mode in ("rawbytes", "rawjunk") and blocks:
            cands = [(insts, tv) for b, insts in blocks for tv in b.vars if insts]
            if cands:
                insts, tv = r.choice(cands)
                blk = insts[r.randrange(len(insts))]
                if mode == "rawbytes":
                    # the exact encoding of a legal value, supplied pre-packed (length prefix included)
                    tk = tok(tv, self.value(tv, False))
                    if tk[0] == "U":
                        w = UNSIGNED[tv.ty]
                        enc = int(tk[1:], 16).to_bytes(w, "big" if tv.ty == "TIPPort" else "little")
                    elif tk[0] == "S":
                        w = SIGNED[tv.ty]
                        enc = int(tk[1:], 16).to_bytes(w, "little", signed=True)
                    else:
                        pl = bytes.fromhex(tk[1:])
                        enc = (len(pl).to_bytes(tv.size, "little") + pl) if tv.ty == "TVarlen" else pl
                else:
                    enc = self.rbytes(r.randrange(0, 6))
                blk.vars[tv.name] = im.dt.RawBytes(enc)
        if mode == "unset" and blocks:
            cands = [(insts, b) for b, insts in blocks if insts]
            if cands:
                insts, b = r.choice(cands)
                blk = insts[r.randrange(len(insts))]
                blk.fill_missing = False
                blk.vars.pop(r.choice(b.vars).name, None)
        order = list(range(len(blocks)))
        if r.random() < 0.15:
            r.shuffle(order)
        pid = r.choice((0, 1, 2 ** 32 - 1, r.getrandbits(32), r.getrandbits(16)))
        m = im.Message(t.name, packet_id=pid, flags=flags)
        for i in order:
            b, insts = blocks[i]
            m.create_block_list(b.name)
            for blk in insts:
                m.add_block(blk)
        if mode == "gap" and len(blocks) >= 2:
            # a missing block followed by a present one
            del m._blocks[blocks[r.randrange(len(blocks) - 1)][0].name]
        if mode == "unknown_block":
            m.create_block_list("NoSuchBlock")
            m.add_block(im.Block("NoSuchBlock", X=1))
        if mode == "extra_var" and blocks and blocks[0][1]:
            blocks[0][1][0].vars["NoSuchVar"] = 5
        ex = r.choice((0, 0, 0, 1, 4, 255, r.randrange(0, 20)))
        if mode == "extra256":
            ex = 256
        if ex:
            m.raw_extra = self.rbytes(ex)
            m.offset = ex
        if flags & 0x10:
            n = r.choice((0, 1, 2, 255, r.randrange(0, 6)))
            if mode == "acks256":
                n = 256
            acks = [r.choice((0, 1, 2 ** 32 - 1, r.getrandbits(32))) for _ in range(n)]
            if mode == "ackrange" and acks:
                acks[r.randrange(len(acks))] = 2 ** 32
            m.acks = tuple(acks)
        elif mode == "acks_noflag":
            m.acks = (1, 2)
        if mode == "flags256":
            m.send_flags = flags | 0x100
        if mode == "pid":
            m.packet_id = r.choice((2 ** 32, None))
        if mode == "name":
            m.name = "NoSuchMessage"
        if mode is None or mode not in BAD_MODES:
            # what the generator MEANT to build, kept apart from the Message object (whose constructor / property setters are
            # code under test): flags and appended acks as chosen above
            INTENDED[id(m)] = (m, int(flags), tuple(m.acks) if flags & 0x10 else ())
            if len(INTENDED) > 200000:
                INTENDED.clear()
        return m


INTENDED = {}

BAD_MODES = ["rawbytes", "rawbytes", "rawjunk", "count", "range", "unset", "gap", "unknown_block", "extra_var", "extra256", "acks256", "ackrange",
             "acks_noflag", "flags256", "pid", "name"]


def mutate(rng, b: bytes) -> bytes:
    """malformed stream: truncate / flip / insert / extend"""
    b = bytearray(b)
    k = rng.random()
    if k < 0.3 and len(b) > 1:
        return bytes(b[:rng.randrange(0, len(b))])
    if k < 0.6 and b:
        for _ in range(rng.choice((1, 1, 2, 4))):
            i = rng.randrange(len(b))
            b[i] = rng.choice((0, 255, b[i] ^ (1 << rng.randrange(8)), rng.getrandbits(8)))
        return bytes(b)
    if k < 0.75:
        i = rng.randrange(len(b) + 1)
        b[i:i] = bytes(rng.choice((0, 255, rng.getrandbits(8))) for _ in range(rng.randrange(1, 6)))
        return bytes(b)
    if k < 0.9:
        return bytes(b) + bytes(rng.getrandbits(8) for _ in range(rng.randrange(1, 9)))
    if len(b) > 7:
        i = rng.randrange(6, len(b))
        del b[i:i + rng.randrange(1, 5)]
    return bytes(b)


# --------------------------------------------------------------------------
# the property evaluated on the implementation alone

def default_tok(tv) -> str:
    """the zero value at the width the template prescribes (what an unset variable must decode to)"""
    ty = tv.ty
    if ty in UNSIGNED:
        return "U0"
    if ty in SIGNED:
        return "S0"
    if ty in F32S:
        return "B" + "00" * (4 * F32S[ty])
    if ty in F64S:
        return "B" + "00" * (8 * F64S[ty])
    if ty == "TUUID":
        return "B" + "00" * 16
    if ty == "TIPAddr":
        return "B" + "00" * 4
    if ty == "TFixed":
        return "B" + "00" * tv.size
    return "B"


def in_domain(im: Impl, m) -> bool:
    """template conformance of a Python message, written directly against the property statement"""
    t = im.by_name.get(m.name)
    if t is None or m.raw_body is not None:
        return False
    if not (0 <= int(m.send_flags) < 256) or m.packet_id is None or not (0 <= m.packet_id < 2 ** 32):
        return False
    if len(m.extra) > 255:
        return False
    if int(m.send_flags) & 0x10:
        if len(m.acks) > 255 or any(not (0 <= a < 2 ** 32) for a in m.acks):
            return False
    elif m.acks:
        return False
    names = [b.name for b in t.blocks]
    present = [n for n in names if n in m._blocks]
    if set(m._blocks) - set(names):
        return False
    if present != names[:len(present)] or (names and not present):
        return False
    size = len(t.freq_num_bytes) + len(m.extra)
    for b in t.blocks[:len(present)]:
        bl = m._blocks[b.name]
        n = len(bl)
        if (b.kind == "S" and n != 1) or (b.kind == "M" and n != b.number) or n > 255:
            return False
        size += 1 if b.kind == "V" else 0
        for blk in bl:
            if any(v is not None and k not in {x.name for x in b.vars} for k, v in blk.vars.items()):
                return False          # a variable the template does not have
            for tv in b.vars:
                v = blk.vars.get(tv.name)
                if type(v).__name__ == "RawBytes":
                    return False      # pre-encoded fields are outside the template's value domain
                if v is None:
                    if not blk.fill_missing:
                        return False
                    size += {"TFixed": tv.size, "TVarlen": tv.size}.get(tv.ty, tv.py.type.size)
                    continue
                tk = tok(tv, v)
                ty = tv.ty
                if ty in UNSIGNED:
                    if not (tk[0] == "U" and int(tk[1:], 16) < (1 << (8 * UNSIGNED[ty]))):
                        return False
                    size += UNSIGNED[ty]
                elif ty in SIGNED:
                    if tk[0] != "S":
                        return False
                    z = int(tk[1:], 16)
                    h = 1 << (8 * SIGNED[ty] - 1)
                    if not (-h <= z < h):
                        return False
                    size += SIGNED[ty]
                else:
                    pl = bytes.fromhex(tk[1:])
                    if ty == "TVarlen":
                        if len(pl) >= (1 << (8 * tv.size)):
                            return False
                        size += tv.size + len(pl)
                    else:
                        want = tv.size
                        if len(pl) != want:
                            return False
                        if ty in F32S:
                            for i in range(0, len(pl), 4):
                                bits = int.from_bytes(pl[i:i + 4], "little")
                                # signalling NaN: exponent all ones, mantissa non-zero, quiet bit clear
                                if bits & 0x7F800000 == 0x7F800000 and bits & 0x007FFFFF and not bits & 0x00400000:
                                    return False
                        size += want
    if int(m.send_flags) & 0x80 and size > 0x3000:
        return False
    return True


def expected_line(im: Impl, m) -> str:
    """what the decoded message must be, by the property statement: same header fields, the present blocks
    in template order, every set variable unchanged, every unset one the zero value at template width"""
    t = im.by_name[m.name]
    fl, ak = int(m.send_flags), tuple(m.acks)
    rec = INTENDED.get(id(m))
    if rec is not None and rec[0] is m:
        fl = rec[1]
    toks = [m.name, str(fl), str(int(m.packet_id)), bytes(m.extra).hex() or ".",
            ",".join(str(int(a)) for a in ak) or ".", "."]
    present = [b for b in t.blocks if b.name in m._blocks]
    toks.append(str(len(present)))
    for b in present:
        bl = m._blocks[b.name]
        toks += [b.name, str(len(bl))]
        for blk in bl:
            toks += ["0", str(len(b.vars))]
            for tv in b.vars:
                v = blk.vars.get(tv.name)
                toks += [tv.name, default_tok(tv) if v is None else tok(tv, v)]
    return " ".join(toks)


def check_roundtrip(im: Impl, m):
    """C01 on the implementation: returns None or a failure description (only called for in-domain messages)"""
    b = im.serialize(m)
    base = {"message": m.name, "line": to_line(im, m)}
    if isinstance(b, str):
        return dict(base, clause="conformant message is encodable", got=b, **{"class": "serialize-raises"})
    d = im.deserialize(b)
    if isinstance(d, str):
        return dict(base, clause="encoded datagram is well formed (decodes)", datagram=b.hex(), got=d,
                    **{"class": "datagram-not-decodable"})
    got, want = to_line(im, d), expected_line(im, m)
    if got != want:
        return dict(base, clause="decode(encode(m)) equals m by value (blocks, values, flags, id, acks, extra; "
                                 "unset variables = zero at template width)",
                    datagram=b.hex(), got=got, want=want, **{"class": "roundtrip-value-mismatch"})
    return None


def python_eq_check(im: Impl, m):
    """Python-level Message.__eq__ / field equality after a round trip, for messages whose values are canonical
    Python values (every variable set, text as str, other payloads as bytes)"""
    b = im.serialize(m)
    if isinstance(b, str):
        return None
    d = im.deserialize(b)
    if isinstance(d, str):
        return None
    try:
        same = (d == m) and d.send_flags == m.send_flags and d.packet_id == m.packet_id and \
               tuple(d.acks) == tuple(m.acks) and bytes(d.extra) == bytes(m.extra)
    except Exception as e:
        return {"clause": "Message.__eq__ after round trip", "message": m.name, "line": to_line(im, m),
                "got": "EXC:" + type(e).__name__, "class": "python-eq-raises"}
    if not same:
        return {"clause": "Message.__eq__ after round trip", "message": m.name, "line": to_line(im, m),
                "got": to_line(im, d), "class": "python-eq-mismatch"}
    return None


def canonical_python_values(im: Impl, m) -> bool:
    """True when every variable is set to the Python value a decode would produce (so Python == is meaningful)"""
    t = im.by_name[m.name]
    for b in t.blocks:
        if b.name not in m._blocks:
            continue
        for blk in m._blocks[b.name]:
            for tv in b.vars:
                v = blk.vars.get(tv.name)
                if v is None:
                    return False
                if tv.ty in F32S or tv.ty in F64S:
                    comps = (v,) if isinstance(v, float) else tuple(v)
                    if any(c != c for c in comps):
                        return False      # NaN != NaN in Python; the wire-level check still applies
                if tv.ty == "TVarlen" or tv.ty == "TFixed":
                    if isinstance(v, str):
                        if not (tv.text and not tv.bin) or v.endswith("\x00"):
                            return False
                    else:
                        # bytes that the decoder would present as str are not canonical
                        if tv.text and not tv.bin and bytes(v).endswith(b"\x00") and not bytes(v).endswith(b"\x00\x00"):
                            try:
                                bytes(v).decode("utf8")
                                return False
                            except UnicodeDecodeError:
                                pass
                if tv.ty in ("TVec3", "TVec3d", "TVec4", "TQuat") and not isinstance(v, im.dt.TupleCoord):
                    return False
                if tv.ty == "TUUID" and not isinstance(v, im.dt.UUID):
                    return False
    return True


# --------------------------------------------------------------------------
# case lists

def special_types(im: Impl):
    want = {"TFixed", "TIPAddr", "TIPPort", "TQuat", "TU64", "TF64", "TVec3d", "TVec4", "TS16", "TS8", "TU16"}
    out = []
    for t in im.tmsgs:
        if any(b.kind == "M" for b in t.blocks) or any(tv.ty in want for b in t.blocks for tv in b.vars) or not t.blocks:
            out.append(t)
    return out


def corpus_cases(prop="C01"):
    d = os.path.join(VERIF, "corpus", prop)
    out = []
    if os.path.isdir(d):
        for f in sorted(os.listdir(d)):
            if f.endswith(".json"):
                try:
                    out.append((f, json.load(open(os.path.join(d, f)))))
                except Exception:
                    pass
    return out


def line_to_message(im: Impl, line: str):
    """rebuild a Python Message from a model line (used for corpus / replay files).
    Values come back as ints / bytes / floats from their wire form."""
    toks = line.split(" ")
    it = iter(toks)
    name = next(it)
    flags = int(next(it))
    pid = next(it)
    extra = next(it)
    acks = next(it)
    raw = next(it)
    m = im.Message(name, packet_id=None if pid == "-" else int(pid), flags=flags)
    if extra != ".":
        m.raw_extra = bytes.fromhex(extra)
        m.offset = len(m.raw_extra)
    if acks != ".":
        m.acks = tuple(int(a) for a in acks.split(","))
    t = im.by_name.get(name)
    nb = int(next(it))
    for _ in range(nb):
        bname = next(it)
        ni = int(next(it))
        m.create_block_list(bname)
        tb = None
        if t:
            for b in t.blocks:
                if b.name == bname:
                    tb = b
        for _ in range(ni):
            fill = next(it) == "1"
            nv = int(next(it))
            kw = {}
            for _ in range(nv):
                vn = next(it)
                tk = next(it)
                tv = None
                if tb:
                    for x in tb.vars:
                        if x.name == vn:
                            tv = x
                kw[vn] = from_tok(im, tv, tk)
            blk = im.Block(bname, fill_missing=fill)
            blk.vars.update(kw)
            m.add_block(blk)
    if raw not in (".",):
        m.raw_body = b"" if raw == "=" else bytes.fromhex(raw)
    return m


def from_tok(im: Impl, tv, tk: str):
    if tk[0] == "U":
        return int(tk[1:], 16)
    if tk[0] == "S":
        return int(tk[1:], 16)
    if tk[0] == "R":
        return im.dt.RawBytes(bytes.fromhex(tk[1:]))
    pl = bytes.fromhex(tk[1:])
    ty = tv.ty if tv is not None else None
    try:
        if ty in F32S:
            c = struct.unpack("<%df" % F32S[ty], pl)
            return c[0] if ty == "TF32" else c
        if ty in F64S:
            c = struct.unpack("<%dd" % F64S[ty], pl)
            return c[0] if ty == "TF64" else c
        if ty == "TUUID":
            return im.dt.UUID(bytes=pl)
        if ty == "TIPAddr":
            return ".".join(str(x) for x in pl)
    except Exception:
        pass
    return pl


def gen_cases(ctx, im: Impl):
    """yields (kind, Message)"""
    g = Gen(im, ctx.rng)
    rng = ctx.rng
    # 0. corpus first
    for f, c in corpus_cases("C01"):
        if "line" in c:
            try:
                yield "corpus", line_to_message(im, c["line"])
            except Exception:
                ctx.notes.append("corpus case %s could not be rebuilt" % f)
    # 1. every message type with special variable kinds, every flag combination somewhere
    spec = special_types(im)
    flag_cycle = itertools.cycle([16 * k for k in range(16)])
    for t in spec:
        yield "special", g.message(t, flags=next(flag_cycle))
    # 2. message types: all in thorough, a seeded subset in quick
    types = list(im.tmsgs) if ctx.thorough else rng.sample(im.tmsgs, 120)
    reps = ctx.pick(3, 12)
    for t in types:
        for _ in range(reps):
            yield "typed", g.message(t, flags=next(flag_cycle))
    # 3. block-count scopes on Variable blocks: 0, 1, 2, 255
    vb = [t for t in im.tmsgs if any(b.kind == "V" for b in t.blocks)]
    for t in (vb if ctx.thorough else rng.sample(vb, 24)):
        for c in (0, 1, 2, 255):
            yield "count%d" % c, g.message(t, counts=c, big_ok=False, flags=rng.choice((0, 0x80)))
    # 4. all-defaults: every variable unset under fill_missing, for every type with a Fixed variable and a sample
    fx = [t for t in im.tmsgs if any(tv.ty == "TFixed" for b in t.blocks for tv in b.vars)]
    for t in fx + rng.sample(im.tmsgs, ctx.pick(20, 200)):
        m = im.Message(t.name, packet_id=7, flags=rng.choice((0, 0x80)))
        for b in t.blocks:
            n = {"S": 1, "M": b.number, "V": rng.choice((0, 1, 2))}[b.kind]
            m.create_block_list(b.name)
            for _ in range(n):
                m.add_block(im.Block(b.name, fill_missing=True))
        yield "alldefault", m
    # 5. non-conforming messages: both sides must refuse alike (or encode alike)
    for _ in range(ctx.pick(700, 12000)):
        yield "bad", g.message(rng.choice(im.tmsgs), mode=rng.choice(BAD_MODES))
    # 6. random bulk
    for _ in range(ctx.pick(2200, 110000)):
        yield "random", g.message(rng.choice(im.tmsgs))


def small_scope_multiple_fixed(im: Impl):
    """exhaustive small scopes on a message type with a Multiple block (TestMessage: Single U32 + Multiple 4 of 3 x U32)
    and one with a Fixed variable (CreateTrustedCircuit: UUID + Fixed 32; ViewerEffect.Effect.Color: Fixed 4):
    every combination of the listed counts / presence / lengths / flag bits"""
    M, B = im.Message, im.Block
    t = im.by_name.get("TestMessage")
    if t is not None and [b.kind for b in t.blocks] == ["S", "M"]:
        vals = (0, 0xFFFFFFFF)
        for fl in (0, 0x80):
            for n1 in (0, 1, 2):
                for nn in range(0, 7):
                    for present in ((True, True), (True, False), (False, True)):
                        for fill in (False, True):
                            for pattern in range(3):
                                m = M("TestMessage", packet_id=1, flags=fl)
                                if present[0]:
                                    m.create_block_list("TestBlock1")
                                    for i in range(n1):
                                        m.add_block(B("TestBlock1", fill_missing=fill, **({} if (fill and pattern == 2) else {"Test1": vals[i % 2]})))
                                if present[1]:
                                    m.create_block_list("NeighborBlock")
                                    for i in range(nn):
                                        kw = {"Test0": vals[(i + pattern) % 2], "Test1": i, "Test2": vals[pattern % 2]}
                                        if pattern == 2:
                                            del kw["Test1"]
                                        m.add_block(B("NeighborBlock", fill_missing=fill, **kw))
                                yield "scopeM", m
    t = im.by_name.get("CreateTrustedCircuit")
    if t is not None:
        u = im.dt.UUID(bytes=bytes(range(16)))
        for fl in (0, 0x80, 0x10):
            for ln in (0, 1, 31, 32, 33):
                for kind in ("zeros", "ff", "mixed", "str", "unset"):
                    for fill in (False, True):
                        for n in (0, 1, 2):
                            kw = {"EndPointID": u}
                            if kind == "zeros":
                                kw["Digest"] = b"\x00" * ln
                            elif kind == "ff":
                                kw["Digest"] = b"\xff" * ln
                            elif kind == "mixed":
                                kw["Digest"] = bytes((i * 37) % 256 for i in range(ln))
                            elif kind == "str":
                                kw["Digest"] = "d" * max(ln - 1, 0)      # str = UTF-8 + NUL: ln bytes when ln >= 1
                            m = M("CreateTrustedCircuit", packet_id=9, flags=fl)
                            m.create_block_list("DataBlock")
                            for _ in range(n):
                                m.add_block(B("DataBlock", fill_missing=fill, **kw))
                            if fl & 0x10:
                                m.acks = (3,)
                            yield "scopeF", m
    t = im.by_name.get("ViewerEffect")
    if t is not None:
        z = im.dt.UUID()
        for ln in range(0, 6):
            for n in (0, 1, 2):
                for fill in (False, True):
                    for setcolor in (True, False):
                        m = M("ViewerEffect", B("AgentData", AgentID=z, SessionID=z), packet_id=3, flags=0)
                        m.create_block_list("Effect")
                        for i in range(n):
                            kw = dict(ID=z, AgentID=z, Type=i, Duration=1.0, TypeData=b"")
                            if setcolor:
                                kw["Color"] = bytes(range(1, ln + 1))
                            m.add_block(B("Effect", fill_missing=fill, **kw))
                        yield "scopeF", m


def small_scope_cases(im: Impl):
    """exhaustive small scope on one message type with a Variable block and a 1-byte Variable field:
    TestMessage? -> use ChatFromViewer-like shapes is too wide; take `PacketAck` (Fixed freq, Variable block of one U32):
    all flag nibbles x counts 0..3 x ack counts 0..2 x extra 0..1 with boundary IDs"""
    t = im.by_name.get("PacketAck")
    if t is None:
        return
    vals = (0, 1, 0xFFFFFFFF, 0x00FF00FF)
    for fl in range(16):
        for n in range(0, 4):
            for ids in itertools.product(vals[:3], repeat=n) if n <= 2 else [vals[:3], (0, 0, 0)]:
                for na in ((0, 1, 2) if fl & 1 else (0,)):
                    for ex in (0, 1):
                        m = im.Message("PacketAck", packet_id=n + 1, flags=fl * 16)
                        m.create_block_list("Packets")
                        for i in ids:
                            m.add_block(im.Block("Packets", ID=i))
                        m.acks = tuple(vals[:na])
                        if ex:
                            m.raw_extra = b"\x00"
                            m.offset = 1
                        yield "scope", m


# --------------------------------------------------------------------------
# framework API

def generate(ctx):
    msgs, obl = tmpl_tr.generate(ctx)
    return obl


def run_cases(ctx, im: Impl, cases, res: CorrResult, dist, with_mutation=True):
    """serialize / deserialize / conformance on model and implementation for each (kind, Message)"""
    rng = ctx.rng
    lines = []
    meta = []
    for kind, m in cases:
        dist[kind] = dist.get(kind, 0) + 1
        line = to_line(im, m)
        b = im.serialize(m)
        lines.append("S " + line)
        lines.append("C " + line)
        meta.append(("S", kind, m, line, b))
        meta.append(("C", kind, m, line, b))
        if not isinstance(b, str):
            lines.append("D " + b.hex())
            meta.append(("D", kind, m, line, b))
            lines.append("N " + line)
            meta.append(("N", kind, m, line, b))
            if with_mutation and rng.random() < 0.5:
                mb = mutate(rng, b)
                lines.append("D " + (mb.hex() or "."))
                meta.append(("DM", kind, None, None, mb))
                dist["mutated"] = dist.get("mutated", 0) + 1
    out = ctx.run_driver(lines)
    seen = set()
    for (op, kind, m, line, b), mo in zip(meta, out):
        if mo.startswith("DRIVER-EXC"):
            res.disagreements.append({"op": op, "kind": kind, "line": line, "model": mo})
            continue
        if op == "S":
            io = b if isinstance(b, str) else "OK " + (b.hex() or ".")
            if io.startswith("EXC:"):
                io = "ERR"
            if io != mo:
                res.disagreements.append({"op": "serialize", "kind": kind, "line": line, "impl": io[:300], "model": mo[:300],
                                          "impl_exc": b if isinstance(b, str) else None})
            if line not in seen:
                seen.add(line)
                if any(x.startswith("B") and len(x) > 1 or x.startswith(("U", "S")) for x in line.split(" ")[7:]):
                    res.distinct_nontrivial += 1
        elif op == "C":
            conf = in_domain(im, m)
            if mo != ("1" if conf else "0"):
                res.disagreements.append({"op": "conforms", "kind": kind, "line": line, "impl_domain": conf, "model": mo})
            if conf:
                dist["conforming"] = dist.get("conforming", 0) + 1
                v = check_roundtrip(im, m)
                if v:
                    v["kind"] = kind
                    res.impl_violations.append(v)
                elif canonical_python_values(im, m):
                    dist["python_eq_checked"] = dist.get("python_eq_checked", 0) + 1
                    v = python_eq_check(im, m)
                    if v:
                        res.impl_violations.append(v)
        elif op in ("D", "DM"):
            d = im.deserialize(b)
            io = "ERR" if isinstance(d, str) else "OK " + to_line(im, d)
            if io != mo:
                res.disagreements.append({"op": "deserialize", "kind": kind, "datagram": b.hex(), "impl": io[:400], "model": mo[:400],
                                          "impl_exc": d if isinstance(d, str) else None})
            if op == "DM":
                dist["mutated_ok" if io != "ERR" else "mutated_err"] = dist.get("mutated_ok" if io != "ERR" else "mutated_err", 0) + 1
        elif op == "N":
            # the theorem's right-hand side against the implementation's decode of its own encoding
            if in_domain(im, m):
                d = im.deserialize(b)
                io = "ERR" if isinstance(d, str) else to_line(im, d)
                if io != mo:
                    res.disagreements.append({"op": "normalize-vs-decode", "kind": kind, "line": line, "impl": io[:400], "model": mo[:400]})
        res.evaluations += 1


def correspond(ctx):
    im = impl()
    res = CorrResult(suite="template codec: impl vs extracted model on the generated dictionary",
                     rule="Python Messages built from the live template (types with Fixed/Multiple/IP/Quaternion/64-bit variables and "
                          "block-less types always; a seeded subset of 120 other types in quick, all 481 in thorough), values at "
                          "type boundaries (min/max ints, -0.0, denormals, inf, empty/maximal Variable, NULs, invalid UTF-8), flags "
                          "cycling through all 16 combinations of ZEROCODED/RELIABLE/RESENT/ACK, acks 0/1/2/255, extra 0/1/4/255 bytes, "
                          "Variable-block counts 0/1/2/255, shuffled dict orders, unset variables under fill_missing, plus messages with "
                          "one injected defect (13 kinds) and byte-mutated datagrams. Per case: serialize bytes (or error) equal; conforms "
                          "(model) = in_domain (independent Python transcription of the statement); deserialize of the datagram equal "
                          "(as model lines); model normalize = impl decode(encode); impl-level oracle of C01 on every in-domain message. "
                          "Exhaustive small scopes: PacketAck (16 flag nibbles x counts 0..3 x acks 0..2 x extra 0..1); TestMessage with its "
                          "Multiple-4 block (counts 0..6 x Single counts 0..2 x block presence x fill x 3 value/unset patterns x zerocoded); "
                          "CreateTrustedCircuit Fixed-32 Digest (lengths 0/1/31/32/33 x zeros/ff/mixed/str/unset x fill x instance counts 0..2 "
                          "x flags) and ViewerEffect Fixed-4 Color (lengths 0..5 x counts 0..2 x fill x set/unset). RawBytes (pre-packed) values "
                          "are injected as exact encodings and as junk. "
                          "non-trivial = distinct message line with at least one set variable")
    dist = {}
    # the dictionary the driver runs on is the generated one, and it is well formed there too
    w = ctx.run_driver(["W"])[0]
    if w != "1 %d" % len(im.tmsgs):
        res.disagreements.append({"op": "dictionary", "model": w, "impl": "1 %d" % len(im.tmsgs)})
    batch = []
    cases = itertools.chain(gen_cases(ctx, im), small_scope_cases(im), small_scope_multiple_fixed(im))
    for c in cases:
        batch.append(c)
        if len(batch) >= 400:
            run_cases(ctx, im, batch, res, dist)
            batch = []
    if batch:
        run_cases(ctx, im, batch, res, dist)
    res.distribution = dist
    res.samples = [{"kind": k, "line": to_line(im, m)[:300]} for k, m in itertools.islice(gen_cases(_Frozen(ctx), im), 3)]
    return res


class _Frozen:
    """a throw-away ctx with its own rng so that sampling for the evidence does not disturb the run"""
    def __init__(self, ctx):
        import random
        self.rng = random.Random(ctx.seed + 12345)
        self.thorough = False
        self.notes = []

    def pick(self, q, t):
        return q


def _check_message(im: Impl, m):
    if not in_domain(im, m):
        return None
    v = check_roundtrip(im, m)
    if v:
        return v
    if canonical_python_values(im, m):
        return python_eq_check(im, m)
    return None


def _clone(im: Impl, m):
    return line_to_message(im, to_line(im, m))


def _simple_value(tv):
    ty = tv.ty
    if ty in UNSIGNED or ty in SIGNED:
        return 0
    if ty == "TVarlen":
        return b""
    if ty == "TFixed":
        return b"\x00" * tv.size
    if ty in F32S:
        return 0.0 if ty == "TF32" else (0.0,) * F32S[ty]
    if ty in F64S:
        return 0.0 if ty == "TF64" else (0.0,) * F64S[ty]
    if ty == "TUUID":
        return "00000000-0000-0000-0000-000000000000"
    if ty == "TIPAddr":
        return "0.0.0.0"
    return None


def shrink(im: Impl, m, v):
    """greedy structural shrinking while a failure of the same class persists: clear extra / acks / flags,
    drop trailing blocks, drop instances of Variable blocks, replace values by the simplest one of their type"""
    cls = v.get("class")

    def still(m2):
        try:
            w = _check_message(im, m2)
        except Exception:
            return None
        return w if (w and w.get("class") == cls) else None

    try:
        cur = _clone(im, m)
    except Exception:
        return v
    w0 = still(cur)
    if not w0:
        return v
    best = w0
    t = im.by_name.get(cur.name)

    def attempt(mutator):
        nonlocal cur, best
        try:
            m2 = _clone(im, cur)
            if mutator(m2) is False:
                return False
            w = still(m2)
        except Exception:
            return False
        if w:
            cur, best = m2, w
            return True
        return False

    def noextra(x):
        if not x.raw_extra:
            return False
        x.raw_extra, x.offset = b"", 0

    def noacks(x):
        if not (x.acks or int(x.send_flags) & 0x10):
            return False
        x.acks = ()
        x.send_flags = int(x.send_flags) & ~0x10

    def flags0(x):
        if not int(x.send_flags) & ~0x10:
            return False
        x.send_flags = int(x.send_flags) & 0x10

    for f in (noextra, noacks, flags0):
        attempt(f)
    if t is not None:
        # trailing blocks
        for b in reversed(t.blocks[1:]):
            def drop(x, name=b.name):
                if name not in x._blocks:
                    return False
                del x._blocks[name]
            attempt(drop)
        # instances of Variable blocks
        for b in t.blocks:
            if b.kind != "V":
                continue
            progress = True
            while progress:
                progress = False
                n = len(cur._blocks.get(b.name, ()))
                for keep in (0, 1, n // 2, n - 1):
                    if 0 <= keep < n:
                        def cut(x, name=b.name, keep=keep):
                            del x._blocks[name][keep:]
                        if attempt(cut):
                            progress = True
                            break
        # values
        for b in t.blocks:
            for i in range(len(cur._blocks.get(b.name, ()))):
                for tv in b.vars:
                    def simp(x, name=b.name, i=i, tv=tv):
                        blk = x._blocks[name][i]
                        if blk.vars.get(tv.name) is None:
                            return False
                        sv = _simple_value(tv)
                        if sv is None or tok(tv, blk.vars[tv.name]) == tok(tv, sv):
                            return False
                        blk.vars[tv.name] = sv
                    attempt(simp)
    return best


def search(ctx, hints):
    im = impl()
    for h in hints:
        for key in ("impl_violation", "disagreement"):
            d = h.get(key)
            if d and d.get("line"):
                try:
                    m = line_to_message(im, d["line"])
                    v = _check_message(im, m)
                    if v:
                        return shrink(im, m, v)
                except Exception:
                    pass
    for kind, m in itertools.chain(gen_cases(ctx, im), small_scope_cases(im), small_scope_multiple_fixed(im)):
        v = _check_message(im, m)
        if v:
            return shrink(im, m, v)
    return None


def replay(ctx, case):
    im = impl()
    m = line_to_message(im, case["line"])
    if not in_domain(im, m):
        return False, "case is not template conformant (outside C01's domain)"
    v = check_roundtrip(im, m)
    return (v is not None), (v or "round trip holds")
