"""C17 - event queue: no event lost, duplicated or reordered; injections delivered once.
Model: coq/theories/Http/EventQueue.v (extracted, coq/ocaml/c17_driver.ml) against the real
MITMProxyEventManager._handle_request/_handle_response EventQueueGet branches + EventQueueManager."""
import copy
import json
import logging
import os

from harness.common.framework import CorrResult

PROP_ID = "C17"
COQ_PROPS = "theories/Props/C17.v"
EXTRACT = ("theories/Extract/ExC17.v", "c17_driver.ml")
TRUSTED = [
    "modelled by hand (Http/EventQueue.v): EventQueueManager.{inject_event,take_injected_events,cache_last_poll_response,"
    "get_cached_poll_response,clear}, ProxiedRegion.mark_dead's call of clear, the EventQueueGet branches of "
    "MITMProxyEventManager._handle_request/_handle_response and the boolean verdict of _handle_eq_event; one region per model "
    "instance (each ProxiedRegion owns its EventQueueManager; the harness runs two regions and projects the history per region)",
    "events are (origin tag, number) pairs; the real events are LLSD maps {'message': 'HvTest', 'body': {'o': tag, 'n': number}}; "
    "the addon verdict is an oracle of the model (harness: an addon object swallowing simulator events with an odd number)",
    "out of the model: LLSD (de)serialisation, message_handler/addon side effects of _handle_eq_event, the wake-up PlacesQuery of "
    "inject_event (only checked to be emitted on the circuit), exceptions inside the response branch (malformed bodies)",
    "composition theorem (C17_viewer_stream / C17_viewer_caught_up): the simulator and the viewer are an environment model "
    "(end of Http/EventQueue.v), not code of /repo: the simulator sends every batch at most once, in order, with pairwise distinct "
    "ids and never re-sends (sim_ok + the y_sim discipline); the viewer polls with the id of the last response it received, may "
    "lose any response, re-polls with the same ack and accepts an id once; the harness runs the same scenario on the real handlers "
    "(viewer_check)",
    "placement of injected events inside a response: the statement ('delivered exactly once, in the next response that carries "
    "events'; simulator events 'in order') fixes the order among simulator events and among injected events, not their "
    "interleaving; the oracle therefore accepts any interleaving, while the model follows the code (kept simulator events first, "
    "then the queue) - a change of placement shows up as a model disagreement only (mutant c17-m5)",
    "register_once is proved for Session.register_region (Caps.v model, shared with C16); the mapping from "
    "EstablishAgentCommunication/EnableSimulator/TeleportFinish/CrossedRegion bodies to its arguments is exercised on the real code only",
]

logging_disabled = False


# --------------------------------------------------------------------------- encoding

def ev_tok(e):
    return "%d.%d" % e


def ack_tok(a):
    return "-" if a is None else str(a)


def body_tok(b):
    if b is None:
        return "-"
    return "%d:%s" % (b[0], ",".join(ev_tok(e) for e in b[1]))


def op_tokens(op):
    k = op[0]
    if k == "I":
        return ["I", ev_tok(tuple(op[2]))]
    if k == "Q":
        return ["Q", ack_tok(op[2])]
    if k == "P":
        return ["P", ack_tok(op[4]), str(op[2]), body_tok(op[3])]
    if k == "D":
        return ["D"]
    raise ValueError(op)


def ev_llsd(e):
    return {"message": "HvTest", "body": {"o": e[0], "n": e[1]}}


def ev_of_llsd(d):
    try:
        return (int(d["body"]["o"]), int(d["body"]["n"]))
    except Exception:
        return (9, 9)


def body_llsd(b):
    if b is None:
        return None
    return {"events": [ev_llsd(e) for e in b[1]], "id": b[0]}


def body_of_llsd(d):
    if d is None:
        return None
    if not isinstance(d, dict):
        return (99, [])
    return (int(d.get("id", -1)), [ev_of_llsd(e) for e in d.get("events", [])])


def norm_op(op):
    op = list(op)
    if op[0] == "I":
        op[2] = tuple(op[2])
    if op[0] == "P" and op[3] is not None:
        op[3] = (op[3][0], [tuple(e) for e in op[3][1]])
    return tuple(op)


# --------------------------------------------------------------------------- implementation side

class SwallowOdd:
    """addon object: swallows simulator events with an odd number"""

    def handle_eq_event(self, session, region, event):
        try:
            b = event["body"]
            if event["message"] == "HvTest" and int(b["o"]) == 0 and int(b["n"]) % 2 == 1:
                return True
        except Exception:
            pass
        return None


EQ_URLS = ["http://sim1.test/cap/eq-aaaa", "http://sim1.test/cap/eq-bbbb"]


class World:
    def __init__(self):
        from hippolyzer.lib.base.datatypes import UUID
        from hippolyzer.lib.base.test_utils import MockTransport
        from hippolyzer.lib.proxy.sessions import SessionManager
        from hippolyzer.lib.proxy.settings import ProxySettings
        from hippolyzer.lib.proxy.addons import AddonManager
        from hippolyzer.lib.proxy.http_event_manager import MITMProxyEventManager
        self.sm = SessionManager(ProxySettings())
        AddonManager.init([], self.sm, [SwallowOdd()])
        self.em = MITMProxyEventManager(self.sm, self.sm.flow_context)
        self.session = self.sm.create_session({
            "session_id": str(UUID(int=1)), "secure_session_id": str(UUID(int=2)), "agent_id": str(UUID(int=3)),
            "circuit_code": 1, "sim_ip": "127.0.0.1", "sim_port": 11, "region_x": 0, "region_y": 5,
            "seed_capability": "http://sim1.test/seed/aaaa"})
        self.session.register_region(("127.0.0.1", 12), "http://sim1.test/seed/bbbb", handle=6)
        self.sm.claim_session(self.session.id)
        self.transport = MockTransport()
        for r, u in zip(self.session.regions, EQ_URLS):
            r.update_caps({"EventQueueGet": u})
            self.session.open_circuit(("127.0.0.1", 1), r.circuit_addr, self.transport)
        self.pending = {0: [], 1: []}

    def region(self, r):
        return self.session.regions[r]

    def apply(self, op):
        try:
            return self._apply(op)
        except Exception as e:
            return "EXC:" + type(e).__name__

    def _apply(self, op):
        import mitmproxy.http
        from mitmproxy.test import tflow, tutils
        from hippolyzer.lib.base import llsd
        from hippolyzer.lib.proxy.caps import SerializedCapData
        from hippolyzer.lib.proxy.http_flow import HippoHTTPFlow
        k, r = op[0], op[1]
        reg = self.region(r)
        if k == "I":
            n0 = len(self.transport.packets)
            reg.eq_manager.inject_event(ev_llsd(tuple(op[2])))
            emitted = len(self.transport.packets) - n0
            return "none" if emitted == 1 or not reg.circuit.is_alive else "EXC:no-wakeup-datagram(%d)" % emitted
        if k == "Q":
            fake = tflow.tflow(req=tutils.treq(method=b"POST"))
            fake.request.url = EQ_URLS[r]
            fake.request.content = llsd.format_xml({"ack": op[2], "done": False})
            fake.metadata["cap_data_ser"] = SerializedCapData()
            flow = HippoHTTPFlow.from_state(fake.get_state(), self.sm)
            self.em._handle_request(flow)
            if flow.response_injected:
                content = flow.response.content
                status = flow.response.status_code
                # mitmproxy would not call the response hook for an injected response; the handler guards that itself
                flow2 = HippoHTTPFlow.from_state(flow.get_state(), self.sm)
                self.em._handle_response(flow2)
                if flow2.response.content != content:
                    return "EXC:injected-response-reprocessed"
                if status != 200:
                    return "EXC:cached-status-%d" % status
                return "cached:" + body_tok(body_of_llsd(llsd.parse_xml(content)))
            self.pending[r].append((op[2], flow.get_state()))
            return "fwd"
        if k == "P":
            ack, state = self.pending[r].pop()
            flow = HippoHTTPFlow.from_state(copy.deepcopy(state), self.sm)
            flow.flow.response = mitmproxy.http.Response.make(op[2], llsd.format_xml(body_llsd(op[3])),
                                                              {"Content-Type": "application/llsd+xml"})
            self.em._handle_response(flow)
            return "body:" + body_tok(body_of_llsd(llsd.parse_xml(flow.response.content)))
        if k == "D":
            reg.mark_dead()
            return "none"
        raise ValueError(op)

    def dump(self, r):
        m = self.region(r).eq_manager
        return "Q %s A %s P %s" % (",".join(ev_tok(ev_of_llsd(e)) for e in m._queued_events), ack_tok(m._last_ack),
                                   body_tok(body_of_llsd(m._last_payload)))

    def snapshot(self):
        return ([(copy.deepcopy(self.region(r).eq_manager._queued_events), self.region(r).eq_manager._last_ack,
                  copy.deepcopy(self.region(r).eq_manager._last_payload), list(self.pending[r]),
                  self.region(r).circuit.is_alive) for r in (0, 1)], len(self.transport.packets))

    def restore(self, snap):
        per, npk = snap
        for r, (q, a, p, pend, alive) in enumerate(per):
            m = self.region(r).eq_manager
            m._queued_events = copy.deepcopy(q)
            m._last_ack = a
            m._last_payload = copy.deepcopy(p)
            self.pending[r] = list(pend)
            self.region(r).circuit.is_alive = alive
        del self.transport.packets[npk:]


# --------------------------------------------------------------------------- the statement of C17 on a history

class Spec:
    """per region: what the statement of C17 demands of every response, computed from the history alone"""

    def __init__(self):
        self.pending_inj = []
        self.last = None            # (request ack, body) of the last processed 200-with-body response since the last teardown
        self.sim_in = []            # non-swallowed simulator events so far
        self.sim_out = []           # simulator events handed to the viewer in fresh responses
        self.inj_in = []
        self.inj_out = []

    @staticmethod
    def swallowed(e):
        return e[0] == 0 and e[1] % 2 == 1

    def step(self, op, out, i):
        v = []
        k = op[0]
        if out.startswith("EXC:"):
            return [{"clause": "no exception escapes the event queue handlers", "class": "exception:" + out[4:], "step": i}]
        if k == "I":
            self.pending_inj.append(tuple(op[2]))
            self.inj_in.append(tuple(op[2]))
        elif k == "D":
            self.pending_inj = []
            self.last = None
        elif k == "Q":
            want = None
            if self.last is not None and self.last[0] == op[2] and self.last[1] is not None:
                want = "cached:" + self.last[1]      # verbatim: the body that was actually handed out before
            if want is not None and out != want:
                v.append({"clause": "replay: same ack as the previous request gets the previous response again",
                          "class": "replay-not-served", "step": i, "want": want, "got": out})
            if want is None and out != "fwd":
                v.append({"clause": "replay: only a repeated ack is answered from the cache",
                          "class": "stale-cache-served", "step": i, "got": out})
        elif k == "P":
            status, body, ack = op[2], op[3], op[4]
            if status == 200 and body is not None:
                kept = [e for e in body[1] if not self.swallowed(e)]
                new = kept + self.pending_inj
                want = None if (body[1] and not new) else (body[0], new)
                ok = out == "body:" + body_tok(want)
                if not ok and want is not None and out.startswith("body:") and out != "body:-" and ":" in out[5:]:
                    # the statement fixes the order within the simulator's events and within the injected ones,
                    # not how the two are interleaved
                    gid, gevs = out[5:].split(":")
                    gl = [tuple(map(int, x.split("."))) for x in gevs.split(",") if x]
                    ok = (gid == str(want[0]) and len(gl) == len(new) and [e for e in gl if e[0] == 0] == kept
                          and [e for e in gl if e[0] == 1] == self.pending_inj)
                if not ok:
                    cls = "response-events-wrong"
                    if want is None or out == "body:-":
                        cls = "undef-rule-wrong"
                    v.append({"clause": "delivered_stream / undef_on_empty: kept simulator events in order, then every queued injected event",
                              "class": cls, "step": i, "want": "body:" + body_tok(want), "got": out})
                self.sim_in += kept
                if want is not None:
                    self.sim_out += [e for e in want[1] if e[0] == 0]
                    self.inj_out += [e for e in want[1] if e[0] == 1]
                self.pending_inj = []
                self.last = (ack, None if want is None else (out[5:] if ok else body_tok(want)))
            else:
                if out != "body:" + body_tok(body):
                    v.append({"clause": "non-200 / undef responses are passed through untouched", "class": "passthrough-changed",
                              "step": i, "want": "body:" + body_tok(body), "got": out})
        return v


def viewer_check(world_factory, rng, n_cycles):
    """A well-behaved viewer on one region: acks the id of the last response it received, re-polls with the same ack when a
    response is lost.  Returns a violation dict or None: what the viewer received (a body with an already seen id counted
    once) must be the kept simulator events in order plus each injected event once."""
    w = world_factory()
    ack = None
    seen_ids = set()
    received = []
    expect_sim, expect_inj = [], []
    sim_id = 100
    n = 0
    hist = []
    for c in range(n_cycles):
        if rng.random() < 0.4:
            n += 2
            e = (1, n)
            hist.append(["I", 0, e])
            o = w.apply(("I", 0, e))
            if o.startswith("EXC"):
                return {"clause": "inject", "class": "exception:" + o[4:], "history": hist}
            expect_inj.append(e)
        hist.append(["Q", 0, ack])
        o = w.apply(("Q", 0, ack))
        if o.startswith("EXC"):
            return {"clause": "poll request", "class": "exception:" + o[4:], "history": hist}
        if o == "fwd":
            x = rng.random()
            if x < 0.15:
                op = ("P", 0, 502, None, ack)
            elif x < 0.25:
                op = ("P", 0, 200, None, ack)
            else:
                sim_id += 1
                evs = []
                for _ in range(rng.randrange(1, 4)):
                    n += 1
                    evs.append((0, n))
                op = ("P", 0, 200, (sim_id, evs), ack)
                expect_sim += [e for e in evs if e[1] % 2 == 0]
            hist.append(list(op))
            o = w.apply(op)
            if o.startswith("EXC"):
                return {"clause": "poll response", "class": "exception:" + o[4:], "history": hist}
            status = op[2]
            body = o[5:]
        else:
            status = 200
            body = o[7:]
        lost = rng.random() < 0.3
        hist.append(["lost" if lost else "received", body])
        if lost or status != 200 or body == "-":
            continue
        bid, evs = body.split(":")
        bid = int(bid)
        if bid not in seen_ids:
            seen_ids.add(bid)
            received += [tuple(map(int, e.split("."))) for e in evs.split(",") if e]
        ack = bid
    got_sim = [e for e in received if e[0] == 0]
    got_inj = [e for e in received if e[0] == 1]
    # everything but a tail still in flight (last response lost / injections still queued) must have arrived
    if got_sim != expect_sim[:len(got_sim)] or len(expect_sim) - len(got_sim) > 3:
        return {"clause": "delivered_stream (viewer with lost responses): simulator events once, in order",
                "class": "viewer-stream-sim-wrong", "want": expect_sim, "got": got_sim, "history": hist}
    if got_inj != expect_inj[:len(got_inj)]:
        return {"clause": "delivered_stream (viewer with lost responses): injected events once, in order",
                "class": "viewer-stream-injected-wrong", "want": expect_inj, "got": got_inj, "history": hist}
    return None


def announce_check():
    """register_once on the real handler: region-announcing events create exactly one region per circuit address"""
    from hippolyzer.lib.base.message.message import Message, Block
    from hippolyzer.lib.base.message.llsd_msg_serializer import LLSDMessageSerializer
    w = World()
    ser = LLSDMessageSerializer()
    eac = {"message": "EstablishAgentCommunication",
           "body": {"agent-id": "x", "sim-ip-and-port": "127.0.0.1:31", "seed-capability": "http://sim1.test/seed/n31"}}
    ens = ser.serialize(Message("EnableSimulator", Block("SimulatorInfo", Handle=77, IP="127.0.0.1", Port=32)), True)
    evs = [eac, ens, eac, ens, eac]
    viols = []
    idn = 500
    ack = None
    for rounds in range(2):
        o = w.apply(("Q", 0, ack))
        if o != "fwd":
            # replayed: no processing expected
            pass
        else:
            import mitmproxy.http
            from hippolyzer.lib.base import llsd
            from hippolyzer.lib.proxy.http_flow import HippoHTTPFlow
            a, state = w.pending[0].pop()
            flow = HippoHTTPFlow.from_state(copy.deepcopy(state), w.sm)
            idn += 1
            flow.flow.response = mitmproxy.http.Response.make(200, llsd.format_xml({"events": evs, "id": idn}),
                                                              {"Content-Type": "application/llsd+xml"})
            w.em._handle_response(flow)
            parsed = llsd.parse_xml(flow.response.content)
            if [e["message"] for e in parsed["events"]] != [e["message"] for e in evs]:
                viols.append({"clause": "region-announcing events are forwarded unchanged", "class": "announce-events-changed",
                              "got": [e["message"] for e in parsed["events"]]})
            ack = idn
        addrs = [r.circuit_addr for r in w.session.regions]
        for port, seed in ((31, "http://sim1.test/seed/n31"), (32, None)):
            c = addrs.count(("127.0.0.1", port))
            if c != 1:
                viols.append({"clause": "register_once", "class": "region-registered-%d-times" % c, "port": port, "round": rounds})
        r31 = [r for r in w.session.regions if r.circuit_addr == ("127.0.0.1", 31)]
        if r31 and r31[0].cap_urls.get("Seed") != "http://sim1.test/seed/n31":
            viols.append({"clause": "register_once: announced seed recorded", "class": "announced-seed-missing"})
        r32 = [r for r in w.session.regions if r.circuit_addr == ("127.0.0.1", 32)]
        if r32 and r32[0].handle != 77:
            viols.append({"clause": "register_once: announced handle recorded", "class": "announced-handle-missing",
                          "got": r32[0].handle})
    if len(w.session.regions) != 4:
        viols.append({"clause": "register_once", "class": "region-count-%d" % len(w.session.regions)})
    return viols


def announce_family(max_len=3):
    """register_once over EVERY sequence (length <= max_len) of region-announcing events of all four kinds, with addresses
    and region handles that collide in every way (same handle at a new address, new handle at a known address, handle of a
    region known since login, repeated announcements).  Seeds are a function of the address, so an announcement never names
    another region's seed.  The statement, evaluated on the real handler: after the response was processed there is exactly
    one region per announced address (none lost, none doubled), the regions known before are all still there once, and the
    events reach the viewer unchanged."""
    import itertools
    import mitmproxy.http
    from hippolyzer.lib.base import llsd
    from hippolyzer.lib.base.datatypes import UUID
    from hippolyzer.lib.base.message.message import Message, Block
    from hippolyzer.lib.base.message.llsd_msg_serializer import LLSDMessageSerializer
    from hippolyzer.lib.proxy.http_flow import HippoHTTPFlow
    ser = LLSDMessageSerializer()

    def eac(p):
        return {"message": "EstablishAgentCommunication",
                "body": {"agent-id": "x", "sim-ip-and-port": "127.0.0.1:%d" % p, "seed-capability": "http://sim1.test/seed/n%d" % p}}

    def ens(h, p):
        return ser.serialize(Message("EnableSimulator", Block("SimulatorInfo", Handle=h, IP="127.0.0.1", Port=p)), True)

    def tpf(name, block, h, p):
        return ser.serialize(Message(name, Block("AgentData", AgentID=UUID(int=3), SessionID=UUID(int=1)) if name == "CrossedRegion"
                                     else Block("Info", AgentID=UUID(int=3), LocationID=4, SimIP="127.0.0.1", SimPort=p, RegionHandle=h,
                                                SeedCapability="http://sim1.test/seed/n%d" % p, SimAccess=13, TeleportFlags=0),
                                     *([Block("RegionData", SimIP="127.0.0.1", SimPort=p, RegionHandle=h,
                                              SeedCapability="http://sim1.test/seed/n%d" % p),
                                        Block("Info", Position=(1.0, 2.0, 3.0), LookAt=(1.0, 0.0, 0.0))] if name == "CrossedRegion" else [])), True)

    letters = [("EAC31", 31, eac(31)), ("EAC32", 32, eac(32)), ("ES77@31", 31, ens(77, 31)), ("ES77@32", 32, ens(77, 32)),
               ("ES78@32", 32, ens(78, 32)), ("ES77@33", 33, ens(77, 33)), ("ES6@34", 34, ens(6, 34)),
               ("TF77@35", 35, tpf("TeleportFinish", "Info", 77, 35)), ("CR5@36", 36, tpf("CrossedRegion", "RegionData", 5, 36))]
    viols, n = [], 0
    for k in range(1, max_len + 1):
        for seq in itertools.product(letters, repeat=k):
            n += 1
            names = [x[0] for x in seq]
            try:
                w = World()
                before = [r.circuit_addr for r in w.session.regions]
                if w.apply(("Q", 0, None)) != "fwd":
                    continue
                a, state = w.pending[0].pop()
                flow = HippoHTTPFlow.from_state(copy.deepcopy(state), w.sm)
                evs = [copy.deepcopy(x[2]) for x in seq]
                flow.flow.response = mitmproxy.http.Response.make(200, llsd.format_xml({"events": evs, "id": 900}),
                                                                  {"Content-Type": "application/llsd+xml"})
                w.em._handle_response(flow)
                parsed = llsd.parse_xml(flow.response.content)
                sent_xml = [llsd.format_xml(x[2]) for x in seq]          # the events as the simulator sent them (pristine copies)
                got_xml = [llsd.format_xml(e) for e in parsed["events"]]
                if got_xml != sent_xml:
                    k = next((j for j in range(min(len(got_xml), len(sent_xml))) if got_xml[j] != sent_xml[j]), min(len(got_xml), len(sent_xml)))
                    viols.append({"clause": "every event the simulator sends is delivered to the viewer unchanged (same LLSD value and types)",
                                  "class": "announce-events-changed", "announcements": names,
                                  "sent": sent_xml[k].decode("utf8", "replace")[:300] if k < len(sent_xml) else None,
                                  "got": got_xml[k].decode("utf8", "replace")[:300] if k < len(got_xml) else None})
                addrs = [r.circuit_addr for r in w.session.regions]
                want = list(before)
                for _, p, _e in seq:
                    if ("127.0.0.1", p) not in want:
                        want.append(("127.0.0.1", p))
                if sorted(addrs) != sorted(want):
                    viols.append({"clause": "register_once: every announced region is registered exactly once (one region per announced address)",
                                  "class": "announced-region-count", "announcements": names,
                                  "got": sorted(a[1] for a in addrs), "want": sorted(a[1] for a in want)})
            except Exception as e:
                viols.append({"clause": "register_once", "class": "exception:" + type(e).__name__, "announcements": names,
                              "detail": str(e)[:200]})
    return viols, n


# --------------------------------------------------------------------------- generators

BODIES = [None, (7, [(0, 2)]), (8, [(0, 1)]), (9, [(0, 1), (0, 2), (0, 4)]), (10, [])]


def alphabet(ctx):
    a = [("I", 0, (1, 20)), ("I", 0, (1, 22)), ("Q", 0, None), ("Q", 0, 7), ("Q", 0, 8), ("D", 0)]
    for b in BODIES:
        a.append(("P", 0, 200, b))
    a.append(("P", 0, 502, None))
    a.append(("P", 0, 404, (7, [(0, 2)])))
    a.append(("I", 1, (1, 30)))
    a.append(("Q", 1, None))
    a.append(("P", 1, 200, (7, [(0, 6)])))
    return a


def load_corpus():
    d = os.path.join(os.path.dirname(os.path.dirname(os.path.dirname(os.path.abspath(__file__)))), "corpus", "C17")
    out = []
    if os.path.isdir(d):
        for f in sorted(os.listdir(d)):
            if f.endswith(".json"):
                c = json.load(open(os.path.join(d, f)))
                out.append((f, [norm_op(o) for o in c["ops"]]))
    return out


def project_lines(ops):
    """model lines for region 0 and region 1"""
    out = []
    for r in (0, 1):
        toks = []
        for op in ops:
            if op[1] != r:
                continue
            if toks:
                toks.append("|")
            toks += op_tokens(op)
        out.append(" ".join(toks))
    return out


def run_history(ops):
    """ops: P ops carry the ack of their request as 5th element (filled here when missing). Returns (ops, outs, viols, world)"""
    w = World()
    specs = {0: Spec(), 1: Spec()}
    outs, viols, full = [], [], []
    for i, op in enumerate(ops):
        op = tuple(op)
        if op[0] == "P":
            if not w.pending[op[1]]:
                continue
            op = (op[0], op[1], op[2], op[3], w.pending[op[1]][-1][0])
        o = w.apply(op)
        full.append(op)
        outs.append(o)
        for v in specs[op[1]].step(op, o, len(full) - 1):
            v["ops"] = [list(x) for x in full]
            viols.append(v)
    return full, outs, viols, w


def expect_strings(full, outs, w):
    res = []
    for r in (0, 1):
        os_ = [o for op, o in zip(full, outs) if op[1] == r]
        res.append(" | ".join(os_) + " || " + w.dump(r))
    return res


def random_history(rng, n):
    ops = []
    ids = [100]
    last_id = {0: None, 1: None}
    for _ in range(n):
        r = 0 if rng.random() < 0.8 else 1
        x = rng.random()
        if x < 0.25:
            ops.append(("I", r, (1, 2 * rng.randrange(10, 500))))
        elif x < 0.55:
            ops.append(("Q", r, rng.choice([None, last_id[r], last_id[r], rng.randrange(100, 104)])))
        elif x < 0.95:
            y = rng.random()
            if y < 0.15:
                ops.append(("P", r, rng.choice([502, 499, 404, 500]), rng.choice([None, (55, [(0, 2)])])))
            elif y < 0.25:
                ops.append(("P", r, 200, None))
            else:
                ids[0] += 1
                evs = [(0, rng.randrange(1, 200)) for _ in range(rng.choice([0, 1, 1, 2, 3, 5]))]
                ops.append(("P", r, 200, (ids[0], evs)))
                last_id[r] = ids[0]
        else:
            ops.append(("D", r))
    return ops


# --------------------------------------------------------------------------- correspondence

def correspond(ctx):
    logging.disable(logging.CRITICAL)
    try:
        return _correspond(ctx)
    finally:
        logging.disable(logging.NOTSET)


def _correspond(ctx):
    depth = ctx.pick(4, 5)
    alpha = alphabet(ctx)
    res = CorrResult(suite="event queue: exhaustive interleavings (impl vs extracted model)",
                     rule="corpus/C17 first; then every history of up to %d steps over %d steps on two regions of one session "
                          "(inject, poll request with undef/7/8 ack, 200 responses with undef body / kept / swallowed / mixed / empty "
                          "event lists, 502 and 404 responses, teardown; a response step needs a forwarded request and inherits its "
                          "ack) through the real _handle_request/_handle_response with real flows and LLSD bodies and an addon object "
                          "swallowing odd simulator events; compared per region: every step's result (cached/forwarded/body) and the "
                          "EventQueueManager state; the history-level statement of C17 is evaluated at every step; non-trivial = "
                          "history with a processed response" % (depth, len(alpha)))
    lines, expect, meta = [], [], []
    seen = {}
    nontriv = 0

    def add_viol(v):
        key = (v.get("class"), v.get("clause"))
        seen[key] = seen.get(key, 0) + 1
        if seen[key] == 1:
            res.impl_violations.append(v)

    for name, ops in load_corpus():
        full, outs, viols, w = run_history(ops)
        lines.extend(project_lines(full))
        expect.extend(expect_strings(full, outs, w))
        meta.extend([full, full])
        for v in viols:
            add_viol(v)

    world = World()

    def dfs(path, outs, specs, d):
        nonlocal nontriv
        for op in alpha:
            r = op[1]
            if op[0] == "P":
                if not world.pending[r]:
                    continue
                op = (op[0], r, op[2], op[3], world.pending[r][-1][0])
            snap = world.snapshot()
            sp = copy.deepcopy(specs)
            o = world.apply(op)
            p2, o2 = path + [op], outs + [o]
            viols = sp[r].step(op, o, len(p2) - 1)
            for v in viols:
                v["ops"] = [list(x) for x in p2]
                add_viol(v)
            lines.extend(project_lines(p2))
            expect.extend(expect_strings(p2, o2, world))
            meta.extend([p2, p2])
            if any(x[0] == "P" and x[2] == 200 and x[3] is not None for x in p2):
                nontriv += 1
            if d > 1 and not viols:
                dfs(p2, o2, sp, d - 1)
            world.restore(snap)

    dfs([], [], {0: Spec(), 1: Spec()}, depth)
    model = ctx.run_driver(lines)
    for ops, m, e in zip(meta, model, expect):
        if m.strip() != e.strip():
            res.disagreements.append({"ops": [list(o) for o in ops], "impl": e[-500:], "model": m[-500:]})
            if len(res.disagreements) > 20:
                break
    res.evaluations = len(lines)
    res.distinct_nontrivial = nontriv
    res.exhaustive = True
    res.distribution = {"depth": depth, "alphabet": len(alpha), "violation_classes": {str(k): n for k, n in seen.items()}}
    res.samples = [{"ops": [list(o) for o in meta[i]], "result": expect[i][:300]} for i in (3, len(meta) // 2, len(meta) - 2) if i < len(meta)]

    # ---- suite 2: random long histories, viewer simulation with lost responses, region announcements
    res2 = CorrResult(suite="event queue: random histories, lossy viewer, region announcements",
                      rule="seeded random histories of 10..60 steps on two regions from fresh objects (model vs impl per region, "
                           "statement evaluated at every step); a simulated well-behaved viewer with 30% lost responses over 40 poll "
                           "cycles (received stream, a replayed id counted once, must equal kept simulator events in order and each "
                           "injected event once); EstablishAgentCommunication / EnableSimulator events repeated within and across "
                           "responses must leave exactly one region per announced address; non-trivial = history with a processed response")
    lines, expect, meta = [], [], []
    nh = ctx.pick(150, 3000)
    nt2 = 0
    seen2 = {}
    for j in range(nh):
        ops = random_history(ctx.rng, ctx.rng.randrange(10, 61))
        full, outs, viols, w = run_history(ops)
        lines.extend(project_lines(full))
        expect.extend(expect_strings(full, outs, w))
        meta.extend([full, full])
        if any(x[0] == "P" and x[2] == 200 and x[3] is not None for x in full):
            nt2 += 1
        for v in viols:
            key = (v.get("class"), v.get("clause"))
            seen2[key] = seen2.get(key, 0) + 1
            if seen2[key] == 1 and key not in seen:
                res2.impl_violations.append(v)
    model = ctx.run_driver(lines)
    for ops, m, e in zip(meta, model, expect):
        if m.strip() != e.strip():
            res2.disagreements.append({"ops": [list(o) for o in ops], "impl": e[-500:], "model": m[-500:]})
            if len(res2.disagreements) > 20:
                break
    nv = ctx.pick(40, 600)
    for j in range(nv):
        v = viewer_check(World, ctx.rng, 40)
        if v:
            key = (v.get("class"), v.get("clause"))
            seen2[key] = seen2.get(key, 0) + 1
            if seen2[key] == 1:
                res2.impl_violations.append(v)
    try:
        for v in announce_check():
            res2.impl_violations.append(v)
    except Exception as e:
        res2.impl_violations.append({"clause": "register_once", "class": "exception:" + type(e).__name__, "detail": str(e)[:200]})
    n_ann = 0
    try:
        av, n_ann = announce_family(ctx.pick(3, 4))
        seen_a = set()
        for v in av:
            if v["class"] not in seen_a:
                seen_a.add(v["class"])
                res2.impl_violations.append(v)
    except Exception as e:
        res2.impl_violations.append({"clause": "register_once", "class": "exception:" + type(e).__name__, "detail": str(e)[:200]})
    res2.evaluations = len(lines) + nv + 1 + n_ann
    res2.distinct_nontrivial = nt2 + nv
    res2.distribution = {"histories": nh, "viewer_runs": nv, "violation_classes": {str(k): n for k, n in seen2.items()}}
    res2.samples = [{"ops": [list(o) for o in meta[0]][:10], "result": expect[0][:300]}] if meta else []
    return [res, res2]


# --------------------------------------------------------------------------- search / replay

def first_violation(ops):
    logging.disable(logging.CRITICAL)
    try:
        full, outs, viols, w = run_history(ops)
    finally:
        logging.disable(logging.NOTSET)
    return viols[0] if viols else None


def shrink(v):
    ops = [norm_op(o) for o in v["ops"]]
    cls = v.get("class")
    changed = True
    while changed:
        changed = False
        for i in range(len(ops) - 1):
            t = ops[:i] + ops[i + 1:]
            w = first_violation(t)
            if w and w.get("class") == cls:
                ops, v, changed = [norm_op(o) for o in w["ops"]], w, True
                break
    return v


def search(ctx, hints):
    for h in hints:
        d = h.get("disagreement") or h.get("impl_violation")
        if d and "ops" in d:
            v = first_violation([norm_op(o) for o in d["ops"]])
            if v:
                return shrink(v)
        if d and "history" in d:
            return d
    for _, ops in load_corpus():
        v = first_violation(ops)
        if v:
            return shrink(v)
    for j in range(ctx.pick(200, 2000)):
        v = first_violation(random_history(ctx.rng, ctx.rng.randrange(10, 61)))
        if v:
            return shrink(v)
    logging.disable(logging.CRITICAL)
    try:
        for j in range(ctx.pick(40, 400)):
            v = viewer_check(World, ctx.rng, 40)
            if v:
                return v
        vs = announce_check()
        if vs:
            return vs[0]
    finally:
        logging.disable(logging.NOTSET)
    return None


def replay(ctx, case):
    if "ops" in case:
        logging.disable(logging.CRITICAL)
        try:
            full, outs, viols, w = run_history([norm_op(o) for o in case["ops"]])
        finally:
            logging.disable(logging.NOTSET)
        want = case.get("class")
        for v in viols:
            if want is None or v.get("class") == want:
                return True, v
        return False, "holds (%d steps)" % len(full)
    # viewer / announcement cases are not single histories: re-run those checks
    logging.disable(logging.CRITICAL)
    try:
        rng = ctx.rng
        for j in range(100):
            v = viewer_check(World, rng, 40)
            if v:
                return True, v
        vs = announce_check()
        if vs:
            return True, vs[0]
        if "announcements" in case:
            av, _ = announce_family(3)
            for v in av:
                if v.get("announcements") == case["announcements"]:
                    return True, v
            if av:
                return True, av[0]
    finally:
        logging.disable(logging.NOTSET)
    return False, "holds"
