"""C10 - quantised floats / fixed-point fields are bit-exact inverses on the wire domain.

Model: coq/theories/Quant/QuantModel.v (PrimFloat, evaluated inside Coq by vm_compute; not extracted).
Tie to the code, every run: harness/translate/c10_quant.py collects the live quantiser instances,
runs the real implementation and writes parameters + the implementation's decode/encode results into
coq/gen/C10_gen.v, where Coq compares them with the model and proves the per-instance theorems over
ALL raws.  correspond() is the impl-level oracle: the statement of C10 evaluated on the real code for
every raw of every instance.
"""
from __future__ import annotations

import math
import os
import struct
import time

from harness.common.framework import CorrResult, COQ
from harness.translate import c10_quant as T

PROP_ID = "C10"
COQ_PROPS = "theories/Props/C10.v"
COQ_EXTRA = ["gen/C10_gen.v", "gen/C10_more_gen.v", "theories/Quant/QuantExamples.v",
             "theories/Quant/QuantTimeFacts.v"]   # duration-generic QuantizedTime proof (pulls in Quant/QuantTime*.v)
EXTRACT = None
TRUSTED = [
    "C10 model evaluated by Coq's vm_compute on primitive floats/ints (PrimFloat, Uint63): the kernel's binary64 "
    "operations are the host's IEEE-754 double operations, the same ones CPython floats use on this platform; "
    "Print Assumptions lists these primitives only",
    "modelled by hand (operation by operation, same order of roundings): QuantizedFloatBase._quantized_to_float/"
    "_float_to_quantized, QuantizedFloat, PackedTERotation._float_to_quantized, FixedPoint.serialize/deserialize, "
    "QuantizedNumPyArray.encode/decode, llanim.QuantizedTime, mesh.VertexWeights; Python round() = round-half-even "
    "via x + 2^52 (|x| < 2^51), builtin min/max keep the first argument on ties, math.fmod = exact long division, "
    "math.copysign; NumPy float64 arithmetic/np.rint/np.clip assumed to be the same IEEE operations (nan -> integer "
    "casts are not modelled and not compared); exceptions of any type are one outcome (None)",
    "the model <-> code tie is by comparison, not proof: bit-exact agreement of model and implementation decode on a "
    "checksum over all raws + sampled literals, and of encode on a structured set of floats, re-checked by Coq each run",
    "QuantizedTime: exhaustive over raws only for the declared list of durations (theorem *_partial); the statement "
    "for every positive finite F32 duration is NOT proved",
    "QuantizedTime, duration-generic (supersedes the 'NOT proved' of the previous entry): all six clauses (round trip "
    "over all 65536 raws, strict monotonicity, bit-exact end points, end points encode to 0/65535) ARE proved for EVERY "
    "binary64 duration 2^-1000 <= d <= 2^1000, hence every positive finite F32, by real-number error analysis through "
    "Flocq IEEE754.PrimFloat: Quant/QuantTimeFacts.v qtime_facts_generic and Quant/QuantTimeGeneric.v "
    "qtime_roundtrip_generic, compiled on every run (COQ_EXTRA). These two theorems are NOT closed under the global "
    "context; Print Assumptions shows exactly these standard-library axioms (none declared in this tree): "
    "ClassicalDedekindReals.sig_forall_dec, ClassicalDedekindReals.sig_not_dec, Classical_Prop.classic, "
    "FunctionalExtensionality.functional_extensionality_dep (Coq Reals); FloatAxioms.Prim2SF_SF2Prim, "
    "FloatAxioms.Prim2SF_valid, FloatAxioms.SF2Prim_Prim2SF, FloatAxioms.abs_spec, FloatAxioms.add_spec, "
    "FloatAxioms.div_spec, FloatAxioms.eqb_spec, FloatAxioms.frshiftexp_spec, FloatAxioms.leb_spec, "
    "FloatAxioms.ltb_spec, FloatAxioms.mul_spec, FloatAxioms.normfr_mantissa_spec, FloatAxioms.of_uint63_spec, "
    "FloatAxioms.sub_spec (the stdlib's specification of the primitive binary64 operations against SpecFloat); "
    "Uint63.add_spec, Uint63.eqb_correct, Uint63.eqb_refl, Uint63.land_spec, Uint63.leb_spec, Uint63.lor_spec, "
    "Uint63.lsl_spec, Uint63.lsr_spec, Uint63.ltb_spec, Uint63.of_to_Z, Uint63.sub_spec (primitive 63-bit integers); "
    "plus the kernel primitives PrimFloat.* / PrimInt63.* themselves. The theorem is not yet restated in Props/C10.v "
    "because framework.ALLOWED_AXIOMS rejects the two ClassicalDedekindReals axioms: ready patch in "
    ".proposed/C10-quanttime-generic-props.diff",
    "instance discovery: reflective walk from se.SUBFIELD_SERIALIZERS and the module globals of hippolyzer.lib.base.*; "
    "an instance constructed only inside a function body at run time would not be seen",
]

GEN = os.path.join(COQ, "gen", "C10_gen.v")
GEN_MORE = os.path.join(COQ, "gen", "C10_more_gen.v")
_STATE = {}


def f32(x: float) -> float:
    return struct.unpack("<f", struct.pack("<f", x))[0]


def _dedupe(ds, exclude=()):
    out, seen = [], {d.hex() for d in exclude}
    for d in ds:
        if d > 0 and d == d and d != math.inf and d.hex() not in seen:
            seen.add(d.hex())
            out.append(d)
    return out


def durations_for(ctx) -> list:
    """base list (both tiers; the theorem of Props/C10.v, also re-checked by coqchk in the thorough tier)"""
    ds = [2.0 ** k for k in range(-6, 9, 2)]
    ds += [f32(k / 30.0) for k in (1, 7, 31, 899, 1800)]
    ds += [f32(x) for x in (1.0, 2.5, 0.1, 59.966667, 33.0, 8.25)]
    ds += [2.0 ** -149, f32(3.4028234e38), f32(1e-30)]          # extremes of the F32 range
    # durations of the repo's fixture animation(s)
    try:
        import importlib
        tm = importlib.import_module("tests.base.test_serialization")
        from hippolyzer.lib.base.llanim import Animation
        for name in dir(tm):
            cls = getattr(tm, name)
            buf = getattr(cls, "SIMPLE_ANIM", None)
            if isinstance(buf, (bytes, bytearray)):
                ds.append(float(Animation.from_bytes(bytes(buf)).duration))
    except Exception as e:  # noqa
        ctx.notes.append("fixture animation durations not available: %s" % type(e).__name__)
    for _ in range(3):
        ds.append(f32(ctx.rng.uniform(0.01, 60.0)))
    return _dedupe(ds)


def more_durations_for(ctx, base) -> list:
    """thorough tier only: further durations, exhaustive over raws, in gen/C10_more_gen.v (checked by coqc's kernel,
    not part of the closure coqchk re-checks: coqchk has no VM and needs ~14x longer per sweep)"""
    if not ctx.thorough:
        return []
    ds = [2.0 ** k for k in range(-6, 9)]
    ds += [f32(k / 30.0) for k in range(30, 1801, 60)] + [f32(k / 30.0) for k in (2, 15, 29, 45, 100, 1799)]
    ds += [f32(x) for x in (5.0, 3.3333333, 1e-3, 16.5, 37.0, 49.0)] + [2.0 ** -126, f32(1e30)]
    for _ in range(100):
        t = ctx.rng.random()
        if t < 0.7:
            ds.append(f32(ctx.rng.uniform(0.01, 60.0)))
        else:
            ds.append(f32(10.0 ** ctx.rng.uniform(-6, 6)))
    return _dedupe(ds, exclude=base)


def end_durations_for(ctx) -> list:
    """a much larger declared list on which only the end-point clauses are evaluated (no sweep over raws)"""
    ds = [k / 4.0 for k in range(1, 241)]                        # quarter-second grid up to 60 s
    ds += [f32(k / 30.0) for k in range(1, 1801, ctx.pick(7, 1))]  # frame times at 30 fps
    ds += [2.0 ** k for k in range(-149, 128, ctx.pick(9, 1))]
    for _ in range(ctx.pick(300, 20000)):
        t = ctx.rng.random()
        if t < 0.6:
            ds.append(f32(ctx.rng.uniform(0.01, 120.0)))
        elif t < 0.9:
            ds.append(f32(10.0 ** ctx.rng.uniform(-8, 8)))
        else:
            ds.append(struct.unpack("<f", struct.pack("<I", ctx.rng.randrange(1, 0x7F800000)))[0])   # any positive finite F32
    return _dedupe(ds)


# --------------------------------------------------------------------------
# the statement of C10 on the implementation

def _hx(v):
    return v.hex() if isinstance(v, float) else v


def _class_for(inst, clause, info):
    """stable defect-class names; the known ones only for exactly the known pattern"""
    if inst.kind == "terot":
        zr = T.zero_raw(inst)
        if clause == "roundtrip" and info.get("failing") == 1 and info.get("raw") == inst.rmin and info.get("got") == zr:
            return "terot-lower-end-folds-to-zero"
        if clause == "endpoints:encode(lower)==rmin" and info.get("got") == zr:
            return "terot-lower-end-folds-to-zero"
        if clause == "endpoints:encode(upper)==rmax" and info.get("got") == zr:
            return "terot-upper-end-has-no-raw"
        if clause == "endpoints:decode(rmax)==upper":
            n = inst.rmax - inst.rmin + 1
            p = inst.params
            if info.get("got") == _hx((n - 1) * p["step"] * (p["upper"] - p["lower"]) + p["lower"]) and p["step"] == 1.0 / n:
                return "terot-upper-end-has-no-raw"
    if inst.kind == "numpy" and clause == "zero" and info.get("detail") == "no raw decodes to 0.0":
        return "numpy-centred-range-has-no-zero"
    return clause.split(":")[0] + "-fails"


def check_instance(inst, impl, duration=None, clauses=None):
    """Evaluate the clauses of C10 for one instance on the real code.  Returns (violations, evaluations, decoded)."""
    viol = []
    lo, hi = T.declared_range(inst, duration)
    ident = inst.ident() + ("" if duration is None else "@" + duration.hex())

    def add(clause, **info):
        info = {k: _hx(v) for k, v in info.items()}
        v = {"instance": ident, "clause": clause}
        v.update(info)
        v["class"] = _class_for(inst, clause, info)
        viol.append(v)

    def want(c):
        return clauses is None or c in clauses

    decoded = impl.decode_all()
    evals = len(decoded)
    raws = range(inst.rmin, inst.rmax + 1)
    bad_dec = [r for r, v in zip(raws, decoded) if not isinstance(v, float)]
    if bad_dec:
        add("roundtrip", raw=bad_dec[0], got=str(decoded[bad_dec[0] - inst.rmin]), failing=len(bad_dec), detail="decode raised")
        return viol, evals, decoded
    if want("roundtrip"):
        enc = impl.encode_all(decoded)
        evals += len(enc)
        bad = [(r, e) for r, e in zip(raws, enc) if e != r]
        if inst.kind == "terot" and bad and bad[0] == (inst.rmin, T.zero_raw(inst)):
            # the known pattern is reported on its own so that any further failing raw is a separate, new case
            add("roundtrip", raw=bad[0][0], decoded=decoded[0], got=bad[0][1], failing=1)
            bad = bad[1:]
        if bad:
            add("roundtrip", raw=bad[0][0], decoded=decoded[bad[0][0] - inst.rmin], got=bad[0][1], failing=len(bad))
    if want("monotone"):
        for i in range(len(decoded) - 1):
            if not (decoded[i] <= decoded[i + 1]):
                add("monotone", raw=inst.rmin + i, a=decoded[i], b=decoded[i + 1])
                break
    if want("endpoints"):
        if decoded[0].hex() != float(lo).hex():
            add("endpoints:decode(rmin)==lower", got=decoded[0], want=float(lo))
        if decoded[-1].hex() != float(hi).hex():
            add("endpoints:decode(rmax)==upper", got=decoded[-1], want=float(hi))
        e = impl.encode(lo)
        if e != inst.rmin:
            add("endpoints:encode(lower)==rmin", got=e, want=inst.rmin)
        e = impl.encode(hi)
        if e != inst.rmax:
            add("endpoints:encode(upper)==rmax", got=e, want=inst.rmax)
        evals += 2
    centred = T.is_centred(inst) or (inst.kind == "fixed" and inst.params["signed"])
    if want("zero") and centred:
        zeros = [r for r, v in zip(raws, decoded) if v == 0.0]
        if not zeros:
            add("zero", detail="no raw decodes to 0.0", encode_zero=impl.encode(0.0))
        else:
            r0 = impl.encode(0.0)
            rm = impl.encode(-0.0)
            evals += 2
            zm = inst.kind in ("base", "terot") and inst.params["zero_median"]
            if not isinstance(r0, int) or not (inst.rmin <= r0 <= inst.rmax) or decoded[r0 - inst.rmin].hex() != (0.0).hex():
                add("zero", detail="encode(0.0) does not decode to +0.0", got=r0)
            elif zm:
                if rm != r0 - 1 or decoded[r0 - 1 - inst.rmin].hex() != (-0.0).hex():
                    add("zero", detail="-0.0 twin broken", got=rm, want=r0 - 1)
            elif rm != r0:
                add("zero", detail="encode(-0.0) != encode(0.0)", got=rm, want=r0)
    return viol, evals, decoded


def check_endpoints(inst, impl, duration):
    """only the end-point clauses (4 evaluations of the real code)"""
    viol = []
    lo, hi = T.declared_range(inst, duration)
    ident = inst.ident() + ("" if duration is None else "@" + duration.hex())

    def add(clause, **info):
        info = {k: _hx(v) for k, v in info.items()}
        v = {"instance": ident, "clause": clause}
        v.update(info)
        v["class"] = _class_for(inst, clause, info)
        viol.append(v)
    a, b = impl.decode(inst.rmin), impl.decode(inst.rmax)
    if not isinstance(a, float) or a.hex() != float(lo).hex():
        add("endpoints:decode(rmin)==lower", got=a, want=float(lo))
    if not isinstance(b, float) or b.hex() != float(hi).hex():
        add("endpoints:decode(rmax)==upper", got=b, want=float(hi))
    e = impl.encode(lo)
    if e != inst.rmin:
        add("endpoints:encode(lower)==rmin", got=e, want=inst.rmin)
    e = impl.encode(hi)
    if e != inst.rmax:
        add("endpoints:encode(upper)==rmax", got=e, want=inst.rmax)
    return viol, 4


# --------------------------------------------------------------------------
# generate: instances + implementation data -> coq/gen/C10_gen.v

def _prepare(ctx):
    key = (ctx.repo, ctx.tier, ctx.seed)
    if _STATE.get("key") == key:
        return _STATE
    insts = T.collect_instances()
    # choose the model variant for the two codecs that have a proposed repair (fail closed: the chosen
    # variant still has to agree with the implementation on every encode case, both ends included)
    for i in insts:
        if i.kind == "terot":
            i.params["guarded"] = (T.Impl(i).encode(i.params["lower"]) == i.rmin)
        if i.kind == "fixed":
            i.params["saturate"] = (T.Impl(i).encode(i.params["max_val"]) == i.rmax)
    _STATE.clear()
    base = durations_for(ctx)
    _STATE.update({"key": key, "insts": insts, "base_durations": base, "more_durations": more_durations_for(ctx, base),
                   "end_durations": end_durations_for(ctx)})
    _STATE["durations"] = _STATE["base_durations"] + _STATE["more_durations"]
    return _STATE


def generate(ctx):
    t0 = time.time()
    st = _prepare(ctx)
    insts = st["insts"]
    data = {}
    nsamp = ctx.pick(192, 1024)
    for inst in insts:
        if inst.kind == "qtime":
            continue
        impl = T.Impl(inst)
        decoded = impl.decode_all()
        if not all(isinstance(v, float) for v in decoded):
            raise RuntimeError("decode raised for %s" % inst.label())
        n = len(decoded)
        idx = sorted(set(list(range(0, n, max(1, n // nsamp))) + [0, 1, n // 2 - 1, n // 2, n - 2, n - 1]))
        # sampled raws go through the wire level (BufferReader) and must equal the adapter-level sweep
        samples = []
        for i in idx:
            r = inst.rmin + i
            w = impl.decode_wire(r)
            if not isinstance(w, float) or w.hex() != decoded[i].hex():
                raise RuntimeError("wire-level and adapter-level decode differ for %s raw %d: %r vs %r" % (inst.label(), r, w, decoded[i]))
            samples.append((r, decoded[i]))
        vals = T.encode_inputs(inst, decoded, ctx.rng, ctx.pick(80, 1500))
        enc = []
        for v in vals:
            e = impl.encode_wire(v)
            enc.append((v, e if isinstance(e, int) else None))
        d = {"samples": samples, "chk": T.checksum(decoded), "enc": enc, "zero_raw": T.zero_raw(inst)}
        if inst.kind == "terot":
            e = impl.encode(decoded[0])
            d["rt_min_result"] = e if isinstance(e, int) else None
            d["dec_max"] = decoded[-1]
            d["enc_lower"] = impl.encode(inst.params["lower"])
            d["enc_upper"] = impl.encode(inst.params["upper"])
        data[inst.name] = d
    qt = [i for i in insts if i.kind == "qtime"]
    qtime, more = None, None
    if qt:
        inst = qt[0]

        def qdata(durs, every, nrand):
            sums, enc = [], []
            for k, dur in enumerate(durs):
                impl = T.Impl(inst, dur)
                decoded = impl.decode_all()
                if not all(isinstance(v, float) for v in decoded):
                    raise RuntimeError("QuantizedTime decode raised for duration %r" % dur)
                sums.append((dur, T.checksum(decoded)))
                if k % every == 0:
                    vals = T.encode_inputs(inst, decoded, ctx.rng, nrand, duration=dur)
                    cases = []
                    for v in vals:
                        e = impl.encode_wire(v)
                        cases.append((v, e if isinstance(e, int) else None))
                    enc.append((dur, cases))
            return sums, enc
        sums, enc = qdata(st["base_durations"], 5, 20)
        qtime = {"step": inst.params["step"], "durations": st["base_durations"], "sums": sums, "enc": enc,
                 "end_durations": st["end_durations"]}
        sums2, enc2 = qdata(st["more_durations"], 8, 60)
        more = {"durations": st["more_durations"], "sums": sums2, "enc": enc2}
    os.makedirs(os.path.dirname(GEN), exist_ok=True)
    obls = T.emit(GEN, insts, data, qtime)
    obls += T.emit_more(GEN_MORE, more)
    ctx.notes.append("C10 translator: %d distinct quantiser instances (%s), %d QuantizedTime durations, %.1fs"
                     % (len(insts), ", ".join("%s=%d" % (k, sum(1 for i in insts if i.kind == k))
                                              for k in ("base", "terot", "numpy", "fixed", "weight", "qtime")),
                        len(st["durations"]), time.time() - t0))
    for i in insts:
        if i.kind == "fixed" and not i.params.get("saturate"):
            ctx.notes.append("observation (not a clause of C10): %s serialize(%r) raises struct.error - the clamp bound "
                             "max_val = 1 << int_bits is one step above the largest representable value; "
                             "see .proposed/C10-fixedpoint-clamp.diff" % (i.label(), i.params["max_val"]))
    return obls


# --------------------------------------------------------------------------

def _sweep(ctx, stop_at_first=False, skip_known=None):
    st = _prepare(ctx)
    viol, evals, dist, samples = [], 0, {}, []
    n_inst = 0
    for inst in st["insts"]:
        durs = st["durations"] if inst.kind == "qtime" else [None]
        for dur in durs:
            impl = T.Impl(inst, dur)
            v, e, decoded = check_instance(inst, impl, dur)
            evals += e
            n_inst += 1
            dist[inst.kind] = dist.get(inst.kind, 0) + e
            if len(samples) < 12 and dur is None:
                mid = len(decoded) // 3
                samples.append({"instance": inst.ident(), "raw": inst.rmin + mid, "decoded": _hx(decoded[mid]),
                                "re-encoded": impl.encode(decoded[mid])})
            if skip_known is not None:
                v = [x for x in v if not skip_known(x)]
            viol += v
            if stop_at_first and viol:
                return viol, evals, dist, samples, n_inst
        if inst.kind == "qtime":
            seen_cls = set()
            for dur in st["end_durations"]:
                v, e = check_endpoints(inst, T.Impl(inst, dur), dur)
                evals += e
                dist["qtime-endpoints"] = dist.get("qtime-endpoints", 0) + e
                if skip_known is not None:
                    v = [x for x in v if not skip_known(x)]
                # one witness per failing clause is enough (the first duration that shows it)
                v = [x for x in v if x["clause"] not in seen_cls]
                seen_cls.update(x["clause"] for x in v)
                viol += v
                if stop_at_first and viol:
                    return viol, evals, dist, samples, n_inst
    return viol, evals, dist, samples, n_inst


def correspond(ctx):
    st = _prepare(ctx)
    res = CorrResult(
        suite="quantisers: C10 on the implementation, every raw of every instance",
        rule="every distinct quantiser instance found by the translator (QuantizedFloat incl. PackedTERotation, "
             "QuantizedNumPyArray, FixedPoint, VertexWeights) x every raw value of its 8/16-bit wire type, and "
             "QuantizedTime x every raw x each declared duration (plus the end-point clauses alone on a much larger "
             "list of durations): decode, re-encode, compare (round trip), adjacent "
             "decodes ordered (monotone), declared ends and zero of centred ranges decode exactly and encode back. "
             "The model-vs-implementation comparison of the same decodes (checksum over all raws + sampled literals) "
             "and of encode on structured floats is done by Coq in gen/C10_gen.v. non-trivial = one decode or encode "
             "evaluation of the real code on a distinct (instance, raw/float)")
    viol, evals, dist, samples, n_inst = _sweep(ctx)
    res.impl_violations = viol
    res.evaluations = evals
    res.distinct_nontrivial = evals
    res.distribution = dict(dist, instances=n_inst, durations=len(st["durations"]), endpoint_durations=len(st["end_durations"]))
    res.samples = samples
    res.exhaustive = True
    # corpus: minimized regression cases (witnesses of the known defects and of the self-test mutants); a case that
    # fails is an impl-level violation like any other (known classes are matched by the framework)
    cdir = os.path.join(os.path.dirname(os.path.dirname(os.path.dirname(os.path.abspath(__file__)))), "corpus", "C10")
    ncorpus = 0
    if os.path.isdir(cdir):
        import json
        have = {json.dumps(v, sort_keys=True) for v in res.impl_violations}
        for fn in sorted(os.listdir(cdir)):
            if fn.endswith(".json"):
                case = json.load(open(os.path.join(cdir, fn)))["case"]
                fails, detail = replay(ctx, case)
                ncorpus += 1
                if isinstance(detail, str) and detail.startswith("instance ") and detail.endswith("not present"):
                    ctx.notes.append("corpus %s: %s" % (fn, detail))
                if fails and json.dumps(detail, sort_keys=True) not in have:
                    res.impl_violations.append(detail)
    res.distribution["corpus_cases"] = ncorpus
    pv, pev = _purity_probe(ctx, st)
    res.impl_violations.extend(pv)
    res.evaluations += pev
    res.distribution["array_purity_evaluations"] = pev
    cv, cev, ncomp = _compound_sweep(ctx)
    res.impl_violations.extend(cv)
    res.evaluations += cev
    res.distribution["compound_specs"] = ncomp
    res.distribution["compound_evaluations"] = cev
    ctx.notes.append("tuple-valued quantised specs found by reflection (Vector*U8/U16, FixedPointVector3U16, PackedQuat over them): %d; "
                     "raw-tuple round trip checked on the real objects in object and plain-data form (%d evaluations)" % (ncomp, cev))
    return res


def _compound_sweep(ctx, only=None):
    """tuple-valued quantised representations (Vector3U16, Vector4U8, FixedPointVector3U16, PackedQuat over them): decoding any
    raw tuple and re-encoding gives back the same raw integers, in object form and in plain-data form.  By the scalar
    theorems every component is a bit-exact inverse on its own; this sweep is the clause that the tuple layer (coordinate
    classes, PackedQuat) keeps the components apart.  Raw tuples: the product of the wire type's boundary values per
    component plus seeded random tuples.  Returns (violations, evaluations, number of compound specs)."""
    import itertools
    import struct
    import hippolyzer.lib.base.serialization as se
    rng = ctx.rng
    viol, evals = [], 0
    comps = T.collect_compounds()
    for path, spec, fmt, n in comps:
        if only is not None and path != only:
            continue
        lo, hi = {"B": (0, 255), "b": (-128, 127), "H": (0, 65535), "h": (-32768, 32767)}[fmt]
        mid = (lo + hi) // 2
        edge = sorted({lo, lo + 1, mid, mid + 1, hi - 1, hi})
        tuples = list(itertools.product(edge, repeat=n)) if n <= 3 else list(itertools.product((lo, mid, mid + 1, hi), repeat=n))
        tuples += [tuple(rng.randrange(lo, hi + 1) for _ in range(n)) for _ in range(ctx.pick(300, 5000))]
        bad = None
        for raw in tuples:
            data = struct.pack("<%d%s" % (n, fmt), *raw)
            for pod in (False, True):
                evals += 1
                try:
                    reader = se.BufferReader("<", data)
                    reader.pod = pod
                    val = reader.read(spec)
                    w = se.BufferWriter("<")
                    w.write(spec, val)
                    out = bytes(w.copy_buffer())
                    got = list(struct.unpack("<%d%s" % (n, fmt), out)) if len(out) == len(data) else "len %d" % len(out)
                except Exception as e:   # noqa
                    got = "EXC:" + type(e).__name__
                if got != list(raw):
                    bad = {"clause": "decoding any raw tuple of a quantised vector/quaternion field and re-encoding gives back the same integers",
                           "class": "compound-roundtrip", "spec": "%s(%s)" % (type(spec).__name__, fmt), "path": path[:160],
                           "raw": list(raw), "pod": pod, "got": got}
                    break
            if bad:
                break
        if bad:
            viol.append(bad)
    return viol, evals, len(comps)


def _purity_probe(ctx, st):
    """array-valued quantisers: re-encoding the array that decode() returned must not modify it, and encoding it a second time
    gives the same raw integers again (decode/encode are functions of their argument: no in-place arithmetic on the caller's
    array, no state kept between calls).  All raws of the wire type, in the array shapes the mesh code uses."""
    import numpy as np
    viol, evals = [], 0
    for inst in st["insts"]:
        if inst.kind != "numpy":
            continue
        o = inst.obj
        n = inst.rmax - inst.rmin + 1
        elems = int(inst.params.get("elems", 1)) or 1
        for shape in ((n,), (n // elems * elems // elems, elems) if elems > 1 else (n, 1)):
            try:
                count = int(np.prod(shape))
                raw = (np.arange(count, dtype=np.int64) % n + inst.rmin).astype(o.dtype).reshape(shape)
                dec = o.decode(raw.copy(), None)
                keep = np.array(dec, copy=True)
                enc1 = np.array(o.encode(dec, None), copy=True)
                same_after_1 = bool(np.array_equal(np.asarray(dec), keep))
                enc2 = np.array(o.encode(dec, None), copy=True)
                evals += 3 * count
                ok1 = bool(np.array_equal(enc1.reshape(-1).astype(np.int64), raw.reshape(-1).astype(np.int64)))
                ok2 = bool(np.array_equal(enc2.reshape(-1).astype(np.int64), raw.reshape(-1).astype(np.int64)))
                dec2 = o.decode(raw.copy(), None)
                same_decode = bool(np.array_equal(np.asarray(dec2), keep))
            except Exception as e:   # noqa
                viol.append({"clause": "decoding any raw and re-encoding gives back the same integer (array form)", "class": "array-roundtrip-raised",
                             "instance": inst.ident(), "shape": list(shape), "detail": type(e).__name__ + ": " + str(e)[:120]})
                break
            if not (ok1 and ok2 and same_after_1 and same_decode):
                viol.append({"clause": "decoding any raw and re-encoding gives back the same integer - also when the decoded array is "
                                       "encoded a second time; encode() does not modify the array it is given",
                             "class": "array-encode-not-pure", "instance": inst.ident(), "shape": list(shape),
                             "first_encode_ok": ok1, "second_encode_ok": ok2, "decoded_array_unchanged": same_after_1,
                             "decode_repeatable": same_decode})
                break
    return viol, evals


def search(ctx, hints):
    from harness.common import framework as fw
    known = fw.load_findings(PROP_ID)
    for h in hints:
        v = h.get("impl_violation")
        if v and not fw._matches_known(v, known):
            return v
    viol, _, _, _, _ = _sweep(ctx, stop_at_first=True, skip_known=lambda x: fw._matches_known(x, known))
    if viol:
        return viol[0]
    # the property holds on the implementation; say where model and implementation differ
    for h in hints:
        e = h.get("coq_error")
        if e:
            try:
                d = diagnose(ctx, e.get("statement", ""))
                if d:
                    ctx.notes.append("model/implementation disagreement behind %s: %s" % (e.get("statement"), d))
            except Exception as ex:  # noqa
                ctx.notes.append("diagnose failed: %s" % type(ex).__name__)
            break
    return None


def diagnose(ctx, stmt):
    """For a failed generated comparison lemma, let Coq compute the first sample on which the model differs from
    the implementation's recorded result (definitions of the gen file only, all lemmas stripped)."""
    import re
    import subprocess
    m = re.match(r"(inst_\d+)_(decode|encode)_impl$", stmt or "")
    if not m:
        return None
    name, which = m.group(1), m.group(2)
    src = open(GEN).read()
    src = re.sub(r"(?ms)^(?:Lemma|Theorem)\b.*?Qed\.\n", "", src)
    cut = src.find("Definition C10_instances")
    if cut > 0:
        src = src[:cut]
    blocks = re.split(r"(?m)^(?=Definition |\(\* ---)", src)
    src = blocks[0] + "".join(b for b in blocks[1:] if b.startswith("Definition %s " % name) or b.startswith("Definition %s_" % name))
    if which == "decode":
        src += "\nEval vm_compute in (decode_first_bad %s %s_samples).\n" % (name, name)
    else:
        src += "\nEval vm_compute in (encode_first_bad %s %s_enc_cases).\n" % (name, name)
    path = os.path.join(ctx.scratch, "C10_diag.v")
    with open(path, "w") as f:
        f.write(src)
    p = subprocess.run(["coqc", "-Q", "theories", "HV", "-w", "none", "-o", os.path.join(ctx.scratch, "C10_diag.vo"), path],
                       cwd=COQ, timeout=600, stdout=subprocess.PIPE, stderr=subprocess.STDOUT, text=True)
    out = " ".join(p.stdout.split())
    kind = "raw, implementation, model" if which == "decode" else "float, implementation, model"
    return "%s first differing case (%s): %s" % (name, kind, out[-300:])


def replay(ctx, case):
    if case.get("class") in ("array-encode-not-pure", "array-roundtrip-raised"):
        pv, _ = _purity_probe(ctx, _prepare(ctx))
        return (True, pv[0]) if pv else (False, "array encode is pure and repeatable")
    if case.get("class") == "compound-roundtrip":
        cv, _, _ = _compound_sweep(ctx)
        for v in cv:
            if v.get("spec") == case.get("spec"):
                return True, v
        return (bool(cv), cv[0]) if cv else (False, "every compound spec round-trips its raw tuples")
    st = _prepare(ctx)
    ident = case.get("instance", "")
    base, _, dur = ident.partition("@")
    for inst in st["insts"]:
        if inst.ident() == base:
            d = float.fromhex(dur) if dur else None
            if inst.kind == "qtime" and d is None:
                d = 1.0
            clause = case.get("clause", "").split(":")[0]
            if clause == "endpoints":
                viol, _ = check_endpoints(inst, T.Impl(inst, d), d)
                same = [v for v in viol if v["clause"] == case.get("clause")]
                return (True, same[0]) if same else (False, "holds for %s (%s)" % (ident, case.get("clause")))
            viol, _, _ = check_instance(inst, T.Impl(inst, d), d, clauses={clause} if clause else None)
            same = [v for v in viol if v["clause"] == case.get("clause")]
            if "raw" in case and clause == "roundtrip":
                # a pinned raw: evaluate exactly that one
                impl = T.Impl(inst, d)
                v = impl.decode(case["raw"])
                e = impl.encode(v) if isinstance(v, float) else v
                if e == case["raw"]:
                    return False, "encode(decode(%d)) == %d on %s" % (case["raw"], case["raw"], ident)
                hit = [x for x in same if x.get("raw") == case["raw"]]
                if hit:
                    return True, hit[0]
                return True, {"instance": ident, "clause": "roundtrip", "raw": case["raw"], "decoded": _hx(v), "got": e,
                              "class": "roundtrip-fails"}
            if same:
                return True, same[0]
            return False, "holds for %s (%s)" % (ident, case.get("clause"))
    return False, "instance %s not present" % ident
