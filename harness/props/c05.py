"""C05 - proxied circuit: acknowledgements stay truthful under injection, drops, resends.

Model: coq/theories/Circuit/ProxCircuit.v.  Events (tokens, no spaces):
  R:<d>:<pid>:<rel><resent>:<acks>:<kind>   endpoint's packet received and forwarded
                                            (collect_acks + send, handle_proxied_packet's core)
  D:<d>:<pid>:<rel><resent>:<acks>:<kind>   received, taken by an addon (collect_acks + drop_message)
  I:<d>:<rel>:<kind>                        the proxy sends a packet of its own (packet_id None)
  T:<ms>                                    the clock advances, resend_unacked() runs
d = O (viewer->sim) | I (sim->viewer); acks = a.b.c | -; kind = P | A<ids> (PacketAck) | S<n> (StartPingCheck).
The real ProxiedCircuit is driven with datagrams produced by the real serializer and parsed by the
real deserializer; every datagram it hands to the transport is decoded with the real deserializer.
"""
import asyncio
import copy
import datetime
import glob
import json
import logging
import os
from collections import deque

from harness.common.framework import CorrResult, VERIF

PROP_ID = "C05"
COQ_PROPS = "theories/Props/C05.v"
EXTRACT = ("theories/Extract/ExC05.v", "c05_driver.ml")
EXTRACT_Z = True
TRUSTED = [
    "modelled by hand: ProxiedCircuit.prepare_message/_rewrite_packet_ack/_rewrite_start_ping_check/drop_message, "
    "Circuit.send/collect_acks/resend_unacked/send_acks, and the order collect_acks -> (drop_message | send) of "
    "InterceptingLLUDPProxyProtocol.handle_proxied_packet; messages abstracted to (direction, packet id, RELIABLE, RESENT, "
    "appended acks, kind in {PacketAck ids, StartPingCheck OldestUnacked, other}); message bodies, zero-coding and the "
    "UDP framing are C01-C03's subject",
    "time: datetime.now() is replaced by a controlled clock (integer milliseconds); the 0.1 s asyncio.sleep loop of "
    "attempt_resends is replaced by explicit Tick events (the model cannot exhibit timer starvation); "
    "asyncio.Future completion is observed as done()/exception() after each event",
    "messages the proxy injects carry no appended acks of their own (Message.take() clears them); session/region lookup, "
    "addon dispatch and message logging around the core of handle_proxied_packet are not modelled",
    "packet IDs are unbounded integers in the model (no 32-bit wrap-around, as in InjectionTracker); when the real serializer "
    "refuses an out-of-range ID (only reachable with acks for IDs never on the wire) the trace is compared up to that event",
    "model follows the repaired code (/repo 1939bda, _rewrite_packet_ack installs the filtered block list before the emptiness "
    "test); the pre-fix failing history is corpus/C05/01-* (the oracle flags it as class injected-ack-leaked if the defect returns). "
    "'Only IDs the endpoint sent itself' is proved under the hypothesis that the peer acknowledges wire IDs that really "
    "travelled towards it; above-evicted hypotheses are inherited from C04; the retry budget (9 retransmissions, then one "
    "timeout) is proved as a trace theorem for continuations in which nobody acknowledges the packet",
]

VIEWER = ("127.0.0.1", 1)
SIM = ("127.0.0.1", 3)
T0 = datetime.datetime(2020, 1, 1, 0, 0, 0)


class _Clock:
    def __init__(self):
        self.ms = 0

    def now(self):
        return T0 + datetime.timedelta(milliseconds=self.ms)


class _FakeDT:
    """stands in for the `dt` module inside hippolyzer.lib.base.message.circuit"""
    timedelta = datetime.timedelta

    def __init__(self, clock):
        outer = clock

        class _D:
            @staticmethod
            def now():
                return outer.now()
        self.datetime = _D


_ENV = {}


def _env():
    """imports + event loop + patched clock, once per process"""
    if _ENV:
        return _ENV
    try:
        loop = asyncio.get_event_loop_policy().get_event_loop()
    except Exception:
        loop = asyncio.new_event_loop()
        asyncio.set_event_loop(loop)
    import hippolyzer.lib.base.message.circuit as cmod
    from hippolyzer.lib.base.message.message import Block, Message
    from hippolyzer.lib.base.message.msgtypes import PacketFlags
    from hippolyzer.lib.base.message.udpdeserializer import UDPMessageDeserializer
    from hippolyzer.lib.base.message.udpserializer import UDPMessageSerializer
    from hippolyzer.lib.base.network.transport import AbstractUDPTransport, Direction
    from hippolyzer.lib.proxy.circuit import InjectionTracker, ProxiedCircuit
    clock = _Clock()
    cmod.dt = _FakeDT(clock)

    class Transport(AbstractUDPTransport):
        def __init__(self):
            super().__init__()
            self.packets = []
            self.syn = False

        def send_packet(self, packet):
            self.packets.append((packet.data, packet.dst_addr, packet.src_addr, packet.direction, self.syn))
            self.syn = False

        def close(self):
            pass

    _ENV.update(loop=loop, cmod=cmod, Block=Block, Message=Message, PacketFlags=PacketFlags,
                ser=UDPMessageSerializer(), de=UDPMessageDeserializer(), Direction=Direction,
                InjectionTracker=InjectionTracker, ProxiedCircuit=ProxiedCircuit, Transport=Transport, clock=clock)
    return _ENV


def _zl(s):
    return [] if s in ("-", "") else [int(x) for x in s.split(".")]


def _szl(l):
    return ".".join(str(x) for x in l) if l else "-"


class Impl:
    """the real ProxiedCircuit behind the event alphabet"""

    def __init__(self, maxlen, every_ms):
        E = _env()
        self.E = E
        self.transport = E["Transport"]()
        E["clock"].ms = 0
        self.ms = 0
        c = E["ProxiedCircuit"](VIEWER, SIM, self.transport, logging_hook=self._hook)
        c.in_injections = E["InjectionTracker"](0, maxlen=maxlen)
        c.out_injections = E["InjectionTracker"](0, maxlen=maxlen)
        c.resend_every = every_ms / 1000.0
        self.c = c
        self.maxlen = maxlen
        self.every_ms = every_ms
        self.infos = {}      # key -> ReliableResendInfo ever registered and not yet reported done

    def _hook(self, message):
        self.transport.syn = True

    def clone(self):
        E = self.E
        n = Impl.__new__(Impl)
        n.E = E
        n.transport = E["Transport"]()
        n.ms = self.ms
        n.maxlen, n.every_ms = self.maxlen, self.every_ms
        c = E["ProxiedCircuit"](VIEWER, SIM, n.transport, logging_hook=n._hook)
        for name in ("in_injections", "out_injections"):
            t = getattr(self.c, name)
            t2 = object.__new__(type(t))
            for k, v in t.__dict__.items():
                t2.__dict__[k] = deque(v, maxlen=v.maxlen) if isinstance(v, deque) else v
            setattr(c, name, t2)
        c.resend_every = self.c.resend_every
        c.packet_id_base = self.c.packet_id_base
        n.infos = {}
        for k, info in self.c.unacked_reliable.items():
            i2 = type(info)(last_resent=info.last_resent, message=copy.copy(info.message), tries_left=info.tries_left)
            c.unacked_reliable[k] = i2
            n.infos[k] = i2
        n.c = c
        return n

    def _build(self, f):
        E = self.E
        d, pid, fl, acks, kind = f
        PF = E["PacketFlags"]
        flags = 0
        if fl[0] == "1":
            flags |= PF.RELIABLE
        if fl[1] == "1":
            flags |= PF.RESENT
        acks = tuple(_zl(acks))
        if acks:
            flags |= PF.ACK
        direction = E["Direction"].OUT if d == "O" else E["Direction"].IN
        msg = self._kind_msg(kind, int(pid), flags, acks)
        msg.direction = direction
        data = E["ser"].serialize(msg)
        m = E["de"].deserialize(data)       # what handle_proxied_packet does with packet.data
        m.direction = direction
        return m

    def _kind_msg(self, kind, pid, flags, acks):
        E = self.E
        Message, Block = E["Message"], E["Block"]
        if kind[0] == "A":
            m = Message("PacketAck", packet_id=pid, flags=flags, acks=acks)
            m["Packets"] = [Block("Packets", ID=x) for x in _zl(kind[1:])]
            return m
        if kind[0] == "S":
            return Message("StartPingCheck", Block("PingID", PingID=7, OldestUnacked=int(kind[1:])),
                           packet_id=pid, flags=flags, acks=acks)
        return Message("CompletePingCheck", Block("PingID", PingID=7), packet_id=pid, flags=flags, acks=acks)

    def apply(self, tok):
        """returns the observation string of this event (same format as the model driver)"""
        E = self.E
        E["clock"].ms = self.ms
        f = tok.split(":")
        self.transport.packets.clear()
        exc = None
        try:
            if f[0] in ("R", "D"):
                m = self._build(f[1:])
                self.c.collect_acks(m)
                if f[0] == "R":
                    self.c.send(m)
                else:
                    m.queued = True      # what Message.take() does to the original
                    self.c.drop_message(m)
            elif f[0] == "I":
                PF = E["PacketFlags"]
                m = self._kind_msg(f[3], None, PF.RELIABLE if f[2] == "1" else 0, ())
                m.direction = E["Direction"].OUT if f[1] == "O" else E["Direction"].IN
                self.c.send(m)
            elif f[0] == "T":
                self.ms += int(f[1])
                E["clock"].ms = self.ms
                self.c.resend_unacked()
        except Exception as e:     # observation, never a crash
            exc = "EXC:" + type(e).__name__
        out = [self._decode(p) for p in self.transport.packets]
        # completion signals
        sig = []
        for k, info in list(self.infos.items()):
            if info.completed.done():
                d = "O" if k[0] == E["Direction"].OUT else "I"
                sig.append(("X" if info.completed.exception() is not None else "C") + ":%s:%d" % (d, k[1]))
                del self.infos[k]
                if k in self.c.unacked_reliable and self.c.unacked_reliable[k] is info:
                    sig.append("STILL-QUEUED:%s:%d" % (d, k[1]))
        for k, info in self.c.unacked_reliable.items():
            if k not in self.infos:
                self.infos[k] = info
        if exc:
            out.append(exc)
        return out, sorted(sig)

    def _decode(self, p):
        E = self.E
        data, dst, src, direction, syn = p
        PF = E["PacketFlags"]
        try:
            m = E["de"].deserialize(data)
            d = "O" if direction == E["Direction"].OUT else "I"
            want_dst = SIM if d == "O" else VIEWER
            if m.name == "PacketAck":
                kind = "A" + _szl([b["ID"] for b in m["Packets"]])
            elif m.name == "StartPingCheck":
                kind = "S%d" % m["PingID"]["OldestUnacked"]
            else:
                kind = "P"
            fl = int(m.send_flags)
            s = "E:%s:%d:%d%d:%s:%s:%d" % (d, m.packet_id, 1 if fl & PF.RELIABLE else 0, 1 if fl & PF.RESENT else 0,
                                            _szl(m.acks), kind, 1 if syn else 0)
            if bool(fl & PF.ACK) != bool(m.acks):
                s += ":ACKFLAG-MISMATCH"
            if tuple(dst) != want_dst:
                s += ":WRONG-DST"
            return s
        except Exception as e:
            return "UNDECODABLE:" + type(e).__name__

    def state(self):
        c = self.c
        E = self.E

        def trk(t):
            return "%d %d [%s] [%s]" % (t._packet_id_base, t._injection_base, _szl(list(t.injections)), _szl(list(t.dropped)))
        un = " ".join("%s:%d:%d:%d" % ("O" if k[0] == E["Direction"].OUT else "I", k[1],
                                       round((i.last_resent - T0).total_seconds() * 1000), i.tries_left)
                      for k, i in c.unacked_reliable.items())
        return "in " + trk(c.in_injections) + " out " + trk(c.out_injections) + " un " + un + " now %d" % self.ms


def impl_line(per, state):
    return " ".join((" | ".join(" ".join(o + s) for o, s in per) + " || " + state).split())


def norm_model_line(line):
    """sort the signals of each event (their relative order is not observable on futures)"""
    head, _, tail = line.partition(" || ")
    evs = []
    for part in head.split(" | "):
        toks = part.split()
        es = [t for t in toks if t.startswith("E:")]
        ss = sorted(t for t in toks if not t.startswith("E:"))
        evs.append(" ".join(es + ss))
    return " ".join((" | ".join(evs) + " || " + tail).split())


def run_impl(maxlen, every, evs):
    im = Impl(maxlen, every)
    per = [im.apply(t) for t in evs]
    return per, im.state()


# ---------------------------------------------------------------------------------------------
# impl-level oracle: the statement of C05 evaluated on observations of the real circuit

def E_free(J, o):
    n = o
    for p in sorted(J):
        if n < p:
            break
        n += 1
    return n


def rank_free(J, w):
    return w - sum(1 for j in J if j < w)


class Oracle:
    """ghost bookkeeping of what each endpoint sent/saw; checks the clauses of C05 after each event.
    Endpoint 'O' (the viewer) sends in direction O; acks for its packets travel in direction I."""

    def __init__(self, maxlen, every):
        self.maxlen, self.every = maxlen, every
        self.sent = {"O": {}, "I": {}}          # own id -> wire id, per sending direction
        self.rel_dropped = {"O": set(), "I": set()}
        self.injected = {"O": [], "I": []}      # wire IDs the proxy generated per direction
        self.peer_acked = {"O": set(), "I": set()}   # own ids of the endpoint sending in that direction
        self.pending = {}                       # (d, id) -> [last, tries, kind]   reference resend model
        self.finished = set()
        self.now = 0
        self.dead = False
        self.exempt = False

    def copy(self):
        o = Oracle(self.maxlen, self.every)
        o.sent = {k: dict(v) for k, v in self.sent.items()}
        o.rel_dropped = {k: set(v) for k, v in self.rel_dropped.items()}
        o.injected = {k: list(v) for k, v in self.injected.items()}
        o.peer_acked = {k: set(v) for k, v in self.peer_acked.items()}
        o.pending = {k: list(v) for k, v in self.pending.items()}
        o.finished = set(self.finished)
        o.now = self.now
        o.dead = self.dead
        return o

    def max_evicted(self, d, extra=0):
        J = self.injected[d] + [10 ** 9] * extra
        ev = J[:-self.maxlen] if self.maxlen > 0 and len(J) > self.maxlen else ([] if self.maxlen > 0 else J)
        return max(ev) if ev else -10 ** 9

    @staticmethod
    def parse_emit(s):
        f = s.split(":")
        kind = f[5]
        return {"d": f[1], "id": int(f[2]), "rel": f[3][0] == "1", "resent": f[3][1] == "1", "acks": _zl(f[4]),
                "kind": kind[0], "ids": _zl(kind[1:]) if kind[0] == "A" else [], "oldest": int(kind[1:]) if kind[0] == "S" else None,
                "syn": f[6] == "1", "raw": s}

    def check(self, tok, out, sig):
        """returns a violation dict or None"""
        if self.dead:
            return None
        bad = [o for o in out if not o.startswith("E:") or o.count(":") != 6]
        f0 = tok.split(":")
        if f0[0] in ("R", "D"):
            # outside the statement (C04's qualification): IDs at or below an injection that has aged out of the
            # tracker's window - including one pushed out by the ack this very drop injects - and acks for wire
            # IDs the acking side cannot have seen
            d0, rd0 = f0[1], ("I" if f0[1] == "O" else "O")
            ws = _zl(f0[4]) + (_zl(f0[5][1:]) if f0[5][0] == "A" else [])
            mev = self.max_evicted(rd0)
            if f0[0] == "D" and f0[3][0] == "1":
                mev = max(mev, self.max_evicted(rd0, extra=1))
            self.exempt = (any(w <= mev or w not in self.wire_seen(rd0) for w in ws) or int(f0[2]) <= self.max_evicted(d0))
        else:
            self.exempt = False
        if bad:
            if self.exempt:
                self.dead = True      # the serializer refused an out-of-range ID; nothing further is demanded of this trace
                return None
            return {"clause": "the proxy raised or emitted an undecodable/ill-flagged datagram", "class": "exception-or-bad-datagram",
                    "got": bad[0]}
        ems = [self.parse_emit(o) for o in out]
        f = tok.split(":")
        inv = {"O": "I", "I": "O"}
        exp_sig = []
        if f[0] in ("R", "D"):
            d, pid, rel = f[1], int(f[2]), f[3][0] == "1"
            rd = inv[d]
            acks_w = _zl(f[4])
            blocks_w = _zl(f[5][1:]) if f[5][0] == "A" else []
            # receipt of an ack for a proxy-injected reliable packet completes it (first receipt only)
            for w in acks_w + blocks_w:
                if (rd, w) in self.pending:
                    del self.pending[(rd, w)]
                    self.finished.add((rd, w))
                    exp_sig.append("C:%s:%d" % (rd, w))
            exempt = self.exempt
            # which of the peer's acks stand for packets of the endpoint they are meant for
            carried = acks_w + (blocks_w if f[0] == "R" else [])
            real = [w for w in carried if w not in self.injected[rd]]
            for w in acks_w + blocks_w:
                for a, ww in self.sent[rd].items():
                    if ww == w:
                        self.peer_acked[rd].add(a)
            expected = sorted(rank_free(self.injected[rd], w) for w in real)
            fwd_ems = [e for e in ems if e["d"] == d]
            back_ems = [e for e in ems if e["d"] == rd]
            got = sorted(a for e in fwd_ems for a in e["acks"] + e["ids"])
            if not exempt:
                if got != expected:
                    hidden = [w for w in carried if w in self.injected[rd]]
                    if hidden and len(got) > len(expected):
                        shape = ("packetack-all-blocks-injected-with-appended-acks"
                                 if f[0] == "R" and f[5][0] == "A" and blocks_w and all(w in self.injected[rd] for w in blocks_w)
                                 and any(w not in self.injected[rd] for w in acks_w) else "other")
                        return {"clause": "acknowledgements for proxy-injected packets never reach an endpoint",
                                "class": "injected-ack-leaked", "shape": shape, "peer_acks": carried, "injected": hidden, "shown": got, "expected": expected}
                    return {"clause": "every acknowledgement carried by a forwarded packet (or piggy-backed on a dropped one) "
                                      "reaches the endpoint it is meant for exactly once, translated to that endpoint's own ID",
                            "class": "ack-not-delivered-exactly-once", "peer_acks": carried, "shown": got, "expected": expected}
                # truthful: only IDs the endpoint sent itself, really acknowledged by the peer
                for a in got:
                    if a not in self.sent[rd]:
                        return {"clause": "an endpoint is only shown acknowledgements for packet IDs it sent itself",
                                "class": "ack-for-unsent-id", "shown": a, "sent": sorted(self.sent[rd])}
                    if a in self.sent[rd] and a not in self.peer_acked[rd] and a not in self.rel_dropped[rd]:
                        return {"clause": "each shown acknowledgement stands for a packet the other side really acknowledged "
                                          "or the proxy dropped after it was sent reliably", "class": "ack-not-truthful", "shown": a}
            if f[0] == "R":
                if len(fwd_ems) > 1 or back_ems:
                    return {"clause": "a forwarded packet yields at most one datagram, in its own direction", "class": "forward-shape",
                            "got": out}
                only_inj_acks = f[5][0] == "A" and not expected
                if not fwd_ems and not only_inj_acks:
                    return {"clause": "a received packet is forwarded (unless it is a PacketAck consisting only of acks for injected packets)",
                            "class": "packet-not-forwarded"}
                if fwd_ems and only_inj_acks and not exempt:
                    return {"clause": "a PacketAck consisting only of acks for injected packets is not forwarded",
                            "class": "injected-only-packetack-forwarded", "got": out}
                if fwd_ems:
                    e = fwd_ems[0]
                    self.sent[d][pid] = e["id"]
                    if e["rel"] != rel or e["syn"]:
                        return {"clause": "forwarded packet keeps its RELIABLE flag and is not marked synthetic", "class": "forward-shape", "got": out}
                    if not exempt and e["id"] != E_free(self.injected[d], pid):
                        return {"clause": "forwarded packet's wire ID is its C04 translation", "class": "forward-id", "got": e["id"],
                                "expected": E_free(self.injected[d], pid)}
                    if f[5][0] == "S" and not exempt:
                        o = int(f[5][1:])
                        want = min([E_free(self.injected[d], o)] + [k[1] for k in self.pending if k[0] == d])
                        if o > self.max_evicted(d) and e["oldest"] != want:
                            return {"clause": "rewritten OldestUnacked = min(translated ID, the proxy's own unacked IDs in that direction)",
                                    "class": "ping-check-oldest-unacked", "got": e["oldest"], "expected": want}
            else:
                # dropped: reliable => exactly one ack towards the sender, with a fresh injected ID
                if rel:
                    if len(back_ems) != 1 or back_ems[0]["kind"] != "A" or back_ems[0]["ids"] != [pid] or back_ems[0]["acks"]:
                        return {"clause": "a dropped reliable packet is acknowledged to its sender", "class": "drop-not-acked", "got": out}
                    wid = back_ems[0]["id"]
                    if wid in self.wire_seen(rd):
                        return {"clause": "the proxy's own ack uses a fresh packet ID", "class": "drop-ack-id-reused", "id": wid}
                    self.injected[rd].append(wid)
                    self.rel_dropped[d].add(pid)
                elif back_ems:
                    return {"clause": "a dropped unreliable packet is not acknowledged", "class": "drop-acked-unreliable", "got": out}
                if len(fwd_ems) > 1 or (fwd_ems and (fwd_ems[0]["kind"] != "A" or fwd_ems[0]["acks"])):
                    return {"clause": "piggy-backed acks of a dropped packet go on in one PacketAck", "class": "drop-shape", "got": out}
        elif f[0] == "I":
            d, rel = f[1], f[2] == "1"
            if len(ems) != 1 or ems[0]["d"] != d or ems[0]["acks"] or ems[0]["rel"] != rel or ems[0]["resent"]:
                return {"clause": "an injected packet is sent once, as given", "class": "inject-shape", "got": out}
            wid = ems[0]["id"]
            if wid in self.wire_seen(d):
                return {"clause": "an injected packet gets a fresh packet ID", "class": "inject-id-reused", "id": wid}
            self.injected[d].append(wid)
            if rel:
                self.pending[(d, wid)] = [self.now, 10, f[3]]
        elif f[0] == "T":
            self.now += int(f[1])
            exp = []
            for k in list(self.pending):
                last, tries, kind = self.pending[k]
                if self.now - last < self.every:
                    continue
                tries -= 1
                if tries == 0:
                    del self.pending[k]
                    self.finished.add(k)
                    exp_sig.append("X:%s:%d" % k)
                    continue
                self.pending[k] = [self.now, tries, kind]
                exp.append("E:%s:%d:11:-:%s:1" % (k[0], k[1], kind))
            if out != exp:
                late = [e for e in ems if (e["d"], e["id"]) in self.finished]
                return {"clause": "every reliable packet the proxy injects is retransmitted with the same ID at the configured cadence "
                                  "until it is acknowledged or its retry budget is spent, and never afterwards",
                        "class": "resend-after-completion" if late else "resend-cadence", "got": out, "expected": exp}
        if sorted(exp_sig) != sorted(sig):
            return {"clause": "the completion signal of an injected reliable packet fires exactly when it is first acknowledged "
                              "or its retry budget is spent", "class": "completion-signal", "got": sig, "expected": sorted(exp_sig)}
        return None

    def wire_seen(self, d):
        return set(self.sent[d].values()) | set(self.injected[d])


def check_trace(maxlen, every, evs):
    """run the real circuit + oracle on one trace; returns (violation|None, per-event observations, state)"""
    im = Impl(maxlen, every)
    orc = Oracle(maxlen, every)
    per = []
    for i, t in enumerate(evs):
        out, sig = im.apply(t)
        per.append((out, sig))
        v = orc.check(t, out, sig)
        if v is not None:
            v = dict(v)
            v.update({"maxlen": maxlen, "every": every, "events": list(evs[:i + 1])})
            return v, per, im.state()
    return None, per, im.state()


def shrink(v):
    evs = list(v["events"])
    changed = True
    while changed:
        changed = False
        for i in range(len(evs) - 1):
            t = evs[:i] + evs[i + 1:]
            w, _, _ = check_trace(v["maxlen"], v["every"], t)
            if w is not None and w.get("class") == v.get("class") and w.get("shape") == v.get("shape"):
                evs, v, changed = list(w["events"]), w, True
                break
    return v


# ---------------------------------------------------------------------------------------------
# generators

class Ends:
    """what the two endpoints have sent / seen: used to generate well-behaved traffic"""

    def __init__(self):
        self.next = {"O": 1, "I": 1}
        self.seen = {"O": [], "I": []}       # wire IDs that arrived AT the endpoint sending in direction d, not yet acked by it
        self.allseen = {"O": [], "I": []}
        self.sent_rel = {"O": [], "I": []}

    def copy(self):
        e = Ends()
        e.next = dict(self.next)
        e.seen = {k: list(v) for k, v in self.seen.items()}
        e.allseen = {k: list(v) for k, v in self.allseen.items()}
        e.sent_rel = {k: list(v) for k, v in self.sent_rel.items()}
        return e

    def observe(self, out):
        for o in out:
            if o.startswith("E:"):
                f = o.split(":")
                rcv = "I" if f[1] == "O" else "O"     # the endpoint receiving a packet travelling in direction f[1]
                wid = int(f[2])
                if wid not in self.allseen[rcv]:
                    self.seen[rcv].append(wid)
                    self.allseen[rcv].append(wid)


def menu(ends, full):
    """event choices at a node: (label, token, post) for both endpoints and the proxy"""
    out = []
    for d in ("O", "I"):
        n = ends.next[d]
        pend = ends.seen[d]
        out.append(("send-unrel", "R:%s:%d:00:-:P" % (d, n), d))
        out.append(("send-rel", "R:%s:%d:10:-:P" % (d, n), d))
        out.append(("drop-rel", "D:%s:%d:10:%s:P" % (d, n, _szl(pend)), d))
        if pend:
            out.append(("send-acks", "R:%s:%d:00:%s:P" % (d, n, _szl(pend)), d))
            out.append(("packetack", "R:%s:%d:00:-:A%s" % (d, n, _szl(pend)), d))
            out.append(("packetack+acks", "R:%s:%d:00:%s:A%s" % (d, n, _szl(pend[1:] or pend[:1]), _szl(pend[:1])), d))
        out.append(("inject-rel", "I:%s:1:P" % d, None))
        if full:
            out.append(("inject-unrel", "I:%s:0:P" % d, None))
            out.append(("drop-unrel", "D:%s:%d:00:%s:P" % (d, n, _szl(pend)), d))
            out.append(("ping", "R:%s:%d:00:-:S%d" % (d, n, max(1, n - 1)), d))
            if n > 1:
                out.append(("resend", "R:%s:%d:11:-:P" % (d, n - 1), None))
            if ends.allseen[d]:
                out.append(("re-ack", "R:%s:%d:00:%s:P" % (d, n, _szl(ends.allseen[d][:2])), d))
    out.append(("tick-due", "T:3000", None))
    if full:
        out.append(("tick-early", "T:1000", None))
    return out


def advance(ends, tok, sender):
    e = ends.copy()
    f = tok.split(":")
    if sender:
        e.next[sender] += 1
        acked = set(_zl(f[4]) + (_zl(f[5][1:]) if f[5][0] == "A" else []))
        e.seen[sender] = [w for w in e.seen[sender] if w not in acked]
    return e


def random_trace(rng, n, wild):
    """long random walk; `wild` adds acks for IDs never seen, old IDs, gaps"""
    ends = Ends()
    im = Impl(10, 3000)     # only used to learn which wire IDs reach whom
    evs = []
    p_inj = rng.choice((0.1, 0.25, 0.4))
    for _ in range(n):
        r = rng.random()
        if r < p_inj:
            tok = "I:%s:%d:%s" % (rng.choice("OI"), rng.random() < 0.6, "P")
            tok = tok.replace("True", "1").replace("False", "0")
            snd = None
        elif r < p_inj + 0.12:
            tok = "T:%d" % rng.choice((100, 1000, 2999, 3000, 3001, 7000))
            snd = None
        else:
            d = rng.choice("OI")
            nid = ends.next[d]
            pid = nid
            snd = d
            if rng.random() < 0.12 and nid > 1:
                pid = max(1, nid - rng.choice((1, 1, 2, 3)))
                snd = None
            elif wild and rng.random() < 0.05:
                pid = nid + rng.choice((1, 2))
            pend = list(ends.seen[d])
            k = rng.random()
            if k < 0.4 or not pend:
                acks, blocks = [], None
            elif k < 0.65:
                acks, blocks = rng.sample(pend, rng.randrange(1, len(pend) + 1)), None
            elif k < 0.85:
                acks, blocks = [], rng.sample(pend, rng.randrange(1, len(pend) + 1))
            else:
                sp = rng.randrange(0, len(pend) + 1)
                acks, blocks = pend[:sp], pend[sp:]
            if rng.random() < 0.1 and ends.allseen[d]:
                acks = acks + [rng.choice(ends.allseen[d])]
            if wild and rng.random() < 0.1:
                acks = acks + [rng.randrange(0, 40)]
            rel = rng.random() < 0.5
            if blocks is not None:
                kind = "A" + _szl(blocks)
            elif rng.random() < 0.1:
                kind = "S%d" % max(1, nid - rng.randrange(0, 4))
            else:
                kind = "P"
            op = "D" if rng.random() < 0.2 else "R"
            tok = "%s:%s:%d:%d%d:%s:%s" % (op, d, pid, rel, snd is None and pid != nid, _szl(acks), kind)
            if snd and pid > nid:
                ends.next[d] = pid
        out, _ = im.apply(tok)
        ends.observe(out)
        ends = advance(ends, tok, snd)
        evs.append(tok)
    return evs


def structured_traces():
    """retry budget, cadence boundaries, acks arriving between resends (deterministic)"""
    out = []
    for d in "OI":
        rd = "I" if d == "O" else "O"
        for n in (8, 9, 10, 11, 13):
            out.append((10000, 3000, ["I:%s:1:P" % d] + ["T:3000"] * n))
            out.append((10000, 1000, ["I:%s:1:P" % d] + ["T:1000", "T:999", "T:1"] * n))
        for k in (0, 1, 5, 9, 10):
            for ack in ("R:%s:1:00:1:P" % rd, "R:%s:1:00:-:A1" % rd, "D:%s:1:10:1:P" % rd, "D:%s:1:00:-:A1" % rd):
                out.append((10000, 3000, ["I:%s:1:P" % d] + ["T:3000"] * k + [ack] + ["T:3000"] * 3 + [ack.replace(":1:", ":2:", 1), "T:3000"]))
        out.append((10000, 3000, ["I:%s:1:P" % d, "T:1000", "I:%s:1:P" % rd, "T:2000", "I:%s:1:P" % d, "T:1000", "T:2000", "T:1000",
                                  "R:%s:1:00:1:P" % rd, "T:3000", "T:3000", "R:%s:1:00:-:A1.2" % d, "T:3000", "T:6000"]))
        out.append((2, 3000, ["I:%s:1:P" % d] * 4 + ["T:3000", "R:%s:1:00:3.4:P" % rd, "T:3000", "T:3000"]))
    return out


def corpus_cases():
    out = []
    for p in sorted(glob.glob(os.path.join(VERIF, "corpus", "C05", "*.json"))):
        try:
            out.append((os.path.basename(p), json.load(open(p))))
        except Exception:
            pass
    return out


def exhaustive(maxlen, depth, full_depth, visit):
    """DFS over every event sequence of the menu up to `depth` on clones of the real circuit"""
    root = (Impl(maxlen, 3000), Oracle(maxlen, 3000), Ends(), [], [])
    stack = [root]
    while stack:
        im, orc, ends, evs, per = stack.pop()
        if len(evs) >= depth:
            continue
        for label, tok, snd in menu(ends, len(evs) < full_depth):
            im2 = im.clone()
            orc2 = orc.copy()
            out, sig = im2.apply(tok)
            v = orc2.check(tok, out, sig)
            evs2 = evs + [tok]
            per2 = per + [(out, sig)]
            leaf = len(evs2) >= depth or v is not None
            if visit(label, evs2, per2, im2, v, leaf):
                return
            if v is None:
                ends2 = advance(ends, tok, snd)
                ends2.observe(out)
                stack.append((im2, orc2, ends2, evs2, per2))


def _inline_ack_case(d, form):
    """one injected reliable packet in direction d whose ack (form: 'packetack' | 'appended') is delivered from inside the
    transport's send_packet; returns None or (clause, class, detail)"""
    im = Impl(10000, 3000)
    E = im.E
    state = {"busy": False, "resent": 0}
    orig_send = im.transport.send_packet

    def send_packet(packet):
        orig_send(packet)
        try:
            m = E["de"].deserialize(packet.data)
        except Exception:
            return
        if int(m.send_flags) & int(E["PacketFlags"].RESENT):
            state["resent"] += 1
        if m.reliable and not state["busy"] and m.name != "PacketAck":
            state["busy"] = True
            try:
                back = "I" if d == "O" else "O"
                if form == "packetack":
                    a = im._build([back, "900", "00", "", "A%d" % m.packet_id])
                else:
                    a = im._build([back, "900", "00", str(m.packet_id), "C"])
                im.c.collect_acks(a)
            finally:
                state["busy"] = False
    im.transport.send_packet = send_packet
    try:
        im.apply("I:%s:1:C" % d)
        left = list(im.c.unacked_reliable)
        if left:
            return ("the completion signal of an injected reliable packet fires exactly when it is acknowledged - also when the "
                    "acknowledgement arrives before send() has returned", "inline-ack-not-counted", [k[1] for k in left])
        for _ in range(3):
            im.apply("T:3000")
        if state["resent"]:
            return ("an acknowledged injected packet is never retransmitted", "inline-ack-then-retransmitted", state["resent"])
    except Exception as ex:   # noqa
        return ("no exception escapes send/collect_acks", "inline-ack-raised-" + type(ex).__name__, str(ex)[:100])
    return None


def suite_inline_acks(ctx):
    """the far side's acknowledgement of an injected reliable packet may arrive while send() for that very packet is still on the
    stack (an in-process or loopback transport): it counts like any other ack - the completion signal fires, nothing is
    retransmitted.  Impl-level oracle on the real ProxiedCircuit."""
    res = CorrResult(suite="acks for injected packets delivered synchronously from inside the transport's send (impl-level oracle)",
                     rule="a transport that answers every injected RELIABLE packet at once, from inside send_packet, with the peer's ack "
                          "(PacketAck body or appended ack) in both directions; then ticks past the resend interval: no entry stays "
                          "unacked, nothing is retransmitted")
    n = 0
    seen = set()
    for d in ("O", "I"):
        for form in ("packetack", "appended"):
            n += 1
            bad = _inline_ack_case(d, form)
            if bad and bad[1] not in seen:
                seen.add(bad[1])
                res.impl_violations.append({"clause": bad[0], "class": bad[1], "direction": d, "ack_form": form, "detail": bad[2],
                                            "kind": "inline-acks"})
    res.evaluations = n
    res.distinct_nontrivial = n
    return res


def correspond(ctx):
    logging.disable(logging.CRITICAL)
    try:
        out = _correspond(ctx)
        out = list(out) if isinstance(out, (list, tuple)) else [out]
        out.append(suite_inline_acks(ctx))
        return out
    finally:
        logging.disable(logging.NOTSET)


def _correspond(ctx):
    depth = ctx.pick(4, 5)
    res = CorrResult(
        suite="ProxiedCircuit impl vs extracted model + impl-level C05 oracle",
        rule="corpus first; deterministic retry-budget/cadence scenarios (8..13 due ticks after a reliable injection, interval hit at "
             "-1/0 ms, acks arriving after k resends by appended ack / PacketAck / dropped packet); then EVERY event sequence up to length %d over the menu {each endpoint: send next unreliable / reliable, "
             "send with appended acks for everything it has seen, PacketAck for everything seen, PacketAck mixing blocks and appended acks, "
             "reliable packet with piggy-backed acks dropped by the proxy; proxy injects reliable either way; clock passes the resend "
             "interval} (+ unreliable injection/drop, StartPingCheck, endpoint resend, duplicate acks, early tick in the first %d steps), "
             "run on clones of the real ProxiedCircuit(maxlen 10000, and 1 so that eviction is reached) with a controlled clock; every emitted "
             "datagram is decoded by the real deserializer; each leaf trace is also run on the extracted model and the per-event emissions "
             "(direction, wire ID, RELIABLE/RESENT, acks, PacketAck IDs, OldestUnacked, synthetic), completion signals and the final state "
             "(both trackers, unacked table with last-resent and tries, clock) are compared; the C05 clauses are evaluated on the real circuit "
             "after every event; plus seeded random walks of length %d (well-behaved and wild: unseen/old/garbage acks, gaps, resends); "
             "non-trivial = trace with an injection and an acknowledgement" % (depth, 2, ctx.pick(60, 200)))
    lines, impl_obs, keys = [], [], []
    dist = {"corpus": 0, "exhaustive_nodes": 0, "exhaustive_leaves": 0, "random_walks": 0, "labels": {}}
    nontriv = 0

    def add(maxlen, every, evs, per, state):
        for i, (o, _) in enumerate(per):
            if any(x.startswith("EXC:") for x in o):
                # an ID outside the u32 range of the wire format (only reachable with acks for IDs never on the wire):
                # the serializer raises; the model has unbounded IDs.  Compare the prefix before it.
                dist["truncated_at_exception"] = dist.get("truncated_at_exception", 0) + 1
                evs = evs[:i]
                per, state = run_impl(maxlen, every, evs)
                break
        lines.append("%d %d %s" % (maxlen, every, " ".join(evs)))
        impl_obs.append(impl_line(per, state))
        keys.append({"maxlen": maxlen, "every": every, "events": list(evs)})

    per_class = {}

    def note(v):
        if v is not None:
            k = (v.get("class"), v.get("shape"))
            per_class[k] = per_class.get(k, 0) + 1
            if per_class[k] <= 2:
                res.impl_violations.append(v)

    for name, c in corpus_cases():
        v, per, st = check_trace(c["maxlen"], c.get("every", 3000), c["events"])
        note(v)
        per2, st2 = run_impl(c["maxlen"], c.get("every", 3000), c["events"])
        add(c["maxlen"], c.get("every", 3000), c["events"], per2, st2)
        dist["corpus"] += 1
        nontriv += 1

    for maxlen, every, evs in structured_traces():
        v, per, st = check_trace(maxlen, every, evs)
        note(v)
        if v is not None:
            per, st = run_impl(maxlen, every, evs)
        add(maxlen, every, evs, per, st)
        dist["structured"] = dist.get("structured", 0) + 1
        nontriv += 1

    for maxlen in (10000, 1):
        def visit(label, evs, per, im, v, leaf, maxlen=maxlen):
            nonlocal nontriv
            dist["exhaustive_nodes"] += 1
            dist["labels"][label] = dist["labels"].get(label, 0) + 1
            if v is not None:
                v = dict(v)
                v.update({"maxlen": maxlen, "every": 3000, "events": list(evs)})
                note(v)
            if leaf:
                add(maxlen, 3000, evs, per, im.state())
                dist["exhaustive_leaves"] += 1
                s = " ".join(evs)
                if "I:" in s and any(t[0] in "RD" and (t.split(":")[4] != "-" or t.split(":")[5][0] == "A") for t in evs):
                    nontriv += 1
            return False
        exhaustive(maxlen, depth if maxlen != 1 else depth - 1, 2, visit)

    rng = ctx.rng
    for i in range(ctx.pick(300, 3000)):
        maxlen = rng.choice((1, 2, 3, 10000, 10000))
        every = rng.choice((3000, 3000, 1000))
        wild = rng.random() < 0.5
        evs = random_trace(rng, ctx.pick(60, 200), wild)
        if wild or maxlen != 10000:
            per, st = run_impl(maxlen, every, evs)      # model correspondence only: the statement assumes well-behaved endpoints
        else:
            v, per, st = check_trace(maxlen, every, evs)
            note(v)
            if v is not None:
                per, st = run_impl(maxlen, every, evs)
        add(maxlen, every, evs, per, st)
        dist["random_walks"] += 1
        nontriv += 1

    model = ctx.run_driver(lines)
    for mo, io, k in zip(model, impl_obs, keys):
        if norm_model_line(mo) != io and len(res.disagreements) < 20:
            res.disagreements.append(dict(k, model=norm_model_line(mo)[:600], impl=io[:600]))
    shrunk, classes = [], set()
    for v in res.impl_violations:
        if (v.get("class"), v.get("shape")) in classes:
            continue
        w = shrink(v)
        classes.add((v.get("class"), v.get("shape")))
        classes.add((w.get("class"), w.get("shape")))
        shrunk.append(w)
    res.impl_violations = shrunk
    res.evaluations = len(lines) + dist["exhaustive_nodes"]
    res.distinct_nontrivial = nontriv
    dist["oracle_failures_by_class"] = {"%s/%s" % k: n for k, n in per_class.items()}
    res.distribution = dist
    res.exhaustive = False
    pairs = list(zip(lines, impl_obs))
    res.samples = [{"case": l[:300], "impl": o[:400]} for l, o in pairs[:2] + pairs[len(pairs) // 2:len(pairs) // 2 + 2] + pairs[-1:]]
    return res


def search(ctx, hints):
    logging.disable(logging.CRITICAL)
    try:
        for h in hints:
            d = h.get("disagreement")
            if d and "events" in d:
                v, _, _ = check_trace(d["maxlen"], d.get("every", 3000), d["events"])
                if v:
                    return shrink(v)
        for name, c in corpus_cases():
            v, _, _ = check_trace(c["maxlen"], c.get("every", 3000), c["events"])
            if v:
                return shrink(v)
        for maxlen, every, evs in structured_traces():
            v, _, _ = check_trace(maxlen, every, evs)
            if v:
                return shrink(v)
        found = []

        def visit(label, evs, per, im, v, leaf):
            if v is not None:
                v = dict(v)
                v.update({"maxlen": 10000, "every": 3000, "events": list(evs)})
                found.append(v)
                return True
            return False
        exhaustive(10000, 4, 2, visit)
        if found:
            return shrink(found[0])
        rng = ctx.rng
        for i in range(1500):
            evs = random_trace(rng, 80, False)
            v, _, _ = check_trace(10000, 3000, evs)
            if v:
                return shrink(v)
        return None
    finally:
        logging.disable(logging.NOTSET)


def replay(ctx, case):
    logging.disable(logging.CRITICAL)
    try:
        if case.get("kind") == "inline-acks":
            bad = _inline_ack_case(case["direction"], case["ack_form"])
            return (bad is not None), ({"clause": bad[0], "class": bad[1], "detail": bad[2]} if bad else "inline acks are counted")
        v, _, _ = check_trace(case["maxlen"], case.get("every", 3000), case["events"])
        return (v is not None), (v or "all C05 clauses hold on this trace")
    finally:
        logging.disable(logging.NOTSET)
