"""setup_cmd: build the whole Coq development (and generated files) from files on disk."""
import importlib
import os
import pkgutil
import sys

from harness.common import framework as fw
import harness.props as props


def main():
    fw.coq_clean()
    mods = []
    for m in sorted(pkgutil.iter_modules(props.__path__), key=lambda m: m.name):
        try:
            mod = importlib.import_module("harness.props." + m.name)
        except Exception as e:
            print("SETUP: cannot import", m.name, e)
            continue
        mods.append(mod)
        if hasattr(mod, "generate"):
            ctx = fw.Ctx(mod.PROP_ID, "quick", 0)
            try:
                mod.generate(ctx)
            except Exception as e:
                print("SETUP: generate failed for", mod.PROP_ID, e)
            finally:
                ctx.cleanup()
    targets = fw.coq_sources()
    ok, log = fw.coq_build(targets, timeout=3400)
    print(log[-3000:])
    if not ok:
        # not fatal: every check rebuilds (and reports on) its own targets
        print("SETUP: some coq files failed to build; the affected checks will report it themselves")
    for mod in mods:
        if getattr(mod, "EXTRACT", None):
            d_ok, d_log, _ = fw.build_driver(mod.PROP_ID, mod.EXTRACT[0], mod.EXTRACT[1], with_z=getattr(mod, "EXTRACT_Z", False))
            if not d_ok:
                print(d_log[-2000:])
                print("SETUP: driver build failed for", mod.PROP_ID, "(its check will report it)")
    print("SETUP OK: %d coq files, %d property modules" % (len(targets), len(mods)))


if __name__ == "__main__":
    main()
