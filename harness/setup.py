"""setup_cmd: build the whole Coq development (and generated files) from files on disk."""
import importlib
import os
import pkgutil
import sys

from harness.common import framework as fw
import harness.props as props


def main():
    fw.coq_clean()
    mods = []
    for m in sorted(pkgutil.iter_modules(props.__path__), key=lambda m: m.name):
        mod = importlib.import_module("harness.props." + m.name)
        mods.append(mod)
        if hasattr(mod, "generate"):
            ctx = fw.Ctx(mod.PROP_ID, "quick", 0)
            try:
                mod.generate(ctx)
            finally:
                ctx.cleanup()
    targets = fw.coq_sources()
    ok, log = fw.coq_build(targets, timeout=3400)
    print(log[-3000:])
    if not ok:
        print("SETUP: coq build failed")
        sys.exit(1)
    for mod in mods:
        if getattr(mod, "EXTRACT", None):
            d_ok, d_log, _ = fw.build_driver(mod.PROP_ID, mod.EXTRACT[0], mod.EXTRACT[1], with_z=getattr(mod, "EXTRACT_Z", False))
            if not d_ok:
                print(d_log[-2000:])
                print("SETUP: driver build failed for", mod.PROP_ID)
                sys.exit(1)
    print("SETUP OK: %d coq files, %d property modules" % (len(targets), len(mods)))


if __name__ == "__main__":
    main()
