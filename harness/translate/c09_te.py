"""C09 / TextureEntry "exception field" codec: (G) translator of the live layout and (M) correspondence between
the extracted model coq/theories/Spec/TexEntry.v (driver coq/ocaml/c09te_driver.ml, raw fixed-size elements) and the
real templates.TEFaceBitfield / TEExceptionField / TE_SERIALIZER / the two registered TextureEntry subfield serializers.

The model is about the *framing* (bitfields, terminators, optional tail, dict merging, wrappers).  The element
serializers (se.UUID, Color4, F32, quantised floats, bit-field dataclasses) are not modelled: the model carries an
element as its k wire bytes; this harness maps a raw element to the implementation's value with the real element spec
alone (outside any TE code) whenever the two sides are compared."""
from __future__ import annotations

import dataclasses
import itertools
import os
import shutil

from harness.common import framework
from harness.common.framework import CorrResult, COQ
from harness.translate import c09_values

EXTRACT_V = "theories/Extract/ExC09te.v"
DRIVER_ML = "c09te_driver.ml"
GEN_V = os.path.join(COQ, "gen", "C09_te_gen.v")
MAX_REPORT = 4


# =====================================================================================
# implementation side

def _mods():
    import hippolyzer.lib.base.templates as T
    import hippolyzer.lib.base.serialization as se
    return T, se


class RealTE:
    """one TE-shaped serializer of the implementation + what the model needs to know about it"""

    def __init__(self, name, ser, names, specs, layout, greedy=None, u32=None, reg_greedy=None, reg_u32=None):
        self.name = name
        self.ser = ser                 # se.Dataclass(...)
        self.names = names             # field names in template order
        self.specs = specs             # element spec per field
        self.layout = layout           # [(first, optional, size)]
        self.greedy = greedy           # se.TypedBytesGreedy(ser, empty_is_none=True, ...)
        self.u32 = u32                 # se.TypedByteArray(se.U32, ser, empty_is_none=True, ...)
        self.reg_greedy = reg_greedy   # registered subfield serializer classes (live layout only)
        self.reg_u32 = reg_u32
        self.ltext = "/".join("%d,%d,%d" % (int(f), int(o), k) for f, o, k in layout)
        # layout_ok of the model: exactly the head field is `first` (the theorems' hypothesis)
        self.proper = bool(layout) and layout[0][0] and not any(f for f, _, _ in layout[1:])


def live_te() -> RealTE:
    """walk the live TE_SERIALIZER; fail closed on anything that is not the shape the model covers"""
    T, se = _mods()
    ser = T.TE_SERIALIZER
    if type(ser) is not se.Dataclass or ser._data_cls is not T.TextureEntryCollection:
        raise RuntimeError("TE_SERIALIZER is not se.Dataclass(TextureEntryCollection)")
    tmpl = ser.template
    if type(tmpl) is not se.Template or tmpl._skip_missing:
        raise RuntimeError("TE_SERIALIZER.template is not a plain se.Template")
    names, specs, layout = [], [], []
    for name, f in tmpl._template_spec.items():
        if type(f) is not T.TEExceptionField:
            raise RuntimeError("field %s of TextureEntryCollection is a %s, not a TEExceptionField" % (name, type(f).__name__))
        if getattr(f, "OPTIONAL", False):
            raise RuntimeError("TEExceptionField.OPTIONAL is set: Template.serialize would use values.get()")
        size = f._spec.calc_size()
        if not isinstance(size, int) or size <= 0:
            raise RuntimeError("element spec of %s has no fixed positive size (%r)" % (name, size))
        names.append(name)
        specs.append(f._spec)
        layout.append((bool(f._first), bool(f._optional), size))
    g = T.TextureEntrySubfieldSerializer
    u = T.DPTextureEntrySubfieldSerializer
    for cls, kind in ((g, se.TypedBytesGreedy), (u, se.TypedByteArray)):
        t = cls.TEMPLATE
        if type(t) is not kind or t._spec is not ser or not t._empty_is_none or not t._check_trailing_bytes \
                or not cls.EMPTY_IS_NONE or not cls.CHECK_TRAILING_BYTES or cls.ENDIANNESS != "<":
            raise RuntimeError("%s is not the wrapper the model covers" % cls.__name__)
    if u.TEMPLATE._bytes_tmpl._len_spec is not se.U32:
        raise RuntimeError("DATA_PACKER_TE_TEMPLATE length prefix is not U32")
    return RealTE("live", ser, names, specs, layout, greedy=g.TEMPLATE, u32=u.TEMPLATE, reg_greedy=g, reg_u32=u)


def elem_table():
    T, se = _mods()
    from hippolyzer.lib.base.datatypes import UUID
    return {"U8": (se.U8, 1, 0), "U32": (se.U32, 4, 0), "UUID": (se.UUID, 16, UUID.ZERO)}


_SYNTH = {}


def synth_te(shape) -> RealTE:
    """shape: tuple of (first, optional, elem name); built with the real _te_field / se.Dataclass / wrappers"""
    if shape in _SYNTH:
        return _SYNTH[shape]
    T, se = _mods()
    et = elem_table()
    fields, specs, layout, names = [], [], [], []
    for i, (fi, op, en) in enumerate(shape):
        spec, size, dflt = et[en]
        nm = "f%d" % i
        fields.append((nm, dict, T._te_field(spec, first=bool(fi), optional=bool(op), default=dflt)))
        specs.append(spec)
        names.append(nm)
        layout.append((bool(fi), bool(op), size))
    cls = dataclasses.make_dataclass("SynthTE_%d" % len(_SYNTH), fields)
    ser = se.Dataclass(cls)
    te = RealTE("synth:" + "/".join("%d%d%s" % s for s in shape), ser, names, specs, layout,
                greedy=se.TypedBytesGreedy(ser, empty_is_none=True, lazy=True),
                u32=se.TypedByteArray(se.U32, ser, empty_is_none=True, lazy=True))
    _SYNTH[shape] = te
    return te


def _force(v):
    import lazy_object_proxy
    if isinstance(v, lazy_object_proxy.Proxy):
        return v.__wrapped__
    return v


def elem_dec(spec, raw: bytes, pod: bool):
    T, se = _mods()
    r = se.BufferReader("<", raw, pod=pod)
    v = r.read(spec)
    if len(r):
        raise ValueError("element spec left %d bytes" % len(r))
    return v


def elem_enc(spec, v) -> bytes:
    T, se = _mods()
    w = se.BufferWriter("<")
    w.write(spec, v)
    return bytes(w.copy_buffer())


def exc_name(e):
    return "EXC:" + type(e).__name__


def real_decode(te: RealTE, mode: str, payload: bytes, pod: bool):
    """-> ("ERR", exc) | ("N", rest) | ("V", value, rest)   rest = bytes left in the outer reader"""
    T, se = _mods()
    try:
        if mode in ("reg-greedy", "reg-u32"):
            cls = te.reg_greedy if mode == "reg-greedy" else te.reg_u32
            v = _force(cls.deserialize(None, payload, pod=pod))
            rest = b""
        else:
            spec = {"bare": te.ser, "greedy": te.greedy, "u32": te.u32}[mode]
            r = se.BufferReader("<", payload, pod=pod)
            v = _force(r.read(spec))
            rest = bytes(payload[len(payload) - len(r):]) if len(r) else b""
    except Exception as e:          # noqa
        return ("ERR", exc_name(e))
    if v is None:
        return ("N", rest)
    return ("V", v, rest)


def real_encode(te: RealTE, mode: str, value):
    T, se = _mods()
    try:
        if mode in ("reg-greedy", "reg-u32"):
            cls = te.reg_greedy if mode == "reg-greedy" else te.reg_u32
            return ("OK", bytes(cls.serialize(None, value)))
        spec = {"bare": te.ser, "greedy": te.greedy, "u32": te.u32}[mode]
        w = se.BufferWriter("<")
        w.write(spec, value)
        return ("OK", bytes(w.copy_buffer()))
    except Exception as e:          # noqa
        return ("ERR", exc_name(e))


def value_fields(te: RealTE, v):
    """the per-field dicts of a decoded value (dataclass instance in object form, dict in plain-data form)"""
    if isinstance(v, dict):
        return [v[n] for n in te.names]
    return [getattr(v, n) for n in te.names]


def real_struct(te: RealTE, v):
    """[None | (default, [(faces, elem)...])] with the implementation's element values"""
    out = []
    for d in value_fields(te, v):
        if d is None:
            out.append(None)
            continue
        if not isinstance(d, dict) or None not in d or next(iter(d)) is not None:
            raise ValueError("decoded field is not a dict starting with the None key: %r" % (d,))
        items = [(k, x) for k, x in d.items() if k is not None]
        for k, _ in items:
            if not isinstance(k, tuple) or not all(type(i) is int for i in k):
                raise ValueError("decoded key is not a tuple of ints: %r" % (k,))
        out.append((d[None], items))
    return out


def canon_struct(s):
    return tuple(None if f is None else (c09_values.canon(f[0]), tuple((k, c09_values.canon(x)) for k, x in f[1])) for f in s)


# =====================================================================================
# text protocol shared with coq/ocaml/c09te_driver.ml

def hx(b: bytes) -> str:
    return b.hex() if b else "-"


def unhx(s: str) -> bytes:
    return b"" if s == "-" else bytes.fromhex(s)


def faces_text(f) -> str:
    return ".".join(str(i) for i in f) if len(f) else "e"


def faces_parse(s: str):
    return () if s == "e" else tuple(int(w) for w in s.split("."))


def struct_text(s) -> str:
    """s: [None | (raw default, [(faces, raw)...])]"""
    return ";".join("~" if f is None else "|".join([hx(f[0])] + ["%s=%s" % (faces_text(k), hx(x)) for k, x in f[1]]) for f in s)


def struct_parse(t: str):
    out = []
    for ft in t.split(";"):
        if ft == "~":
            out.append(None)
            continue
        parts = ft.split("|")
        items = []
        for it in parts[1:]:
            k, x = it.split("=")
            items.append((faces_parse(k), unhx(x)))
        out.append((unhx(parts[0]), items))
    return out


class Model:
    def __init__(self):
        self.exe = None
        self.bdir = None

    def build(self):
        ok, log, exe = framework.build_driver("C09te", EXTRACT_V, DRIVER_ML)
        self.bdir = os.path.join(COQ, "ocaml", "build", "C09te.%d" % os.getpid())
        if not ok:
            raise RuntimeError("TextureEntry model driver does not build: " + log[-600:])
        self.exe = exe

    def run(self, lines):
        if not lines:
            return []
        out = framework.run_driver(self.exe, lines)
        for l, o in zip(lines, out):
            if o.startswith(("BADLINE", "DRIVER-EXC")):
                raise RuntimeError("driver rejected %r: %s" % (l[:120], o))
        return out

    def close(self):
        if self.bdir:
            shutil.rmtree(self.bdir, ignore_errors=True)


# =====================================================================================
# comparison engine: one payload through decode, re-encode, decode again

DEC_CMD = {"bare": "d", "greedy": "gd", "u32": "ud", "reg-greedy": "gd", "reg-u32": "sd"}
ENC_CMD = {"bare": "e", "greedy": "ge", "u32": "ue", "reg-greedy": "ge", "reg-u32": "se"}


def model_dec_parse(mode, out):
    """-> ("ERR",) | ("N", rest) | ("V", struct, rest) in the shape of real_decode"""
    w = out.split(" ")
    if w[0] == "ERR":
        return ("ERR",)
    if mode == "bare":
        return ("V", struct_parse(w[1]), unhx(w[2]))
    if mode in ("greedy", "reg-greedy", "reg-u32"):
        return ("N", b"") if w[0] == "N" else ("V", struct_parse(w[1]), b"")
    if w[0] == "N":
        return ("N", unhx(w[1]))
    return ("V", struct_parse(w[1]), unhx(w[2]))


class Case:
    __slots__ = ("te", "mode", "payload", "pod", "origin", "real", "model", "norm", "elem_err", "renc_real", "note")

    def __init__(self, te, mode, payload, pod, origin):
        self.te, self.mode, self.payload, self.pod, self.origin = te, mode, payload, pod, origin
        self.real = self.model = self.norm = self.renc_real = None
        self.elem_err = None
        self.note = None

    def describe(self, what, **more):
        d = {"kind": "te", "what": what, "layout": self.te.ltext, "te": self.te.name, "mode": self.mode,
             "payload": self.payload.hex(), "pod": self.pod, "origin": self.origin, "key": "TextureEntry(%s)" % self.te.name}
        d.update(more)
        return d


def normalise_model_struct(te: RealTE, ms, pod: bool):
    """map every raw element e of the model's structure to (canon(dec e), enc(dec e)) with the real element spec only"""
    canon, renc = [], []
    for spec, f in zip(te.specs, ms):
        if f is None:
            canon.append(None)
            renc.append(None)
            continue
        def one(raw):
            v = elem_dec(spec, raw, pod)
            return c09_values.canon(v), elem_enc(spec, v)
        d = one(f[0])
        items = [(k, one(x)) for k, x in f[1]]
        canon.append((d[0], tuple((k, x[0]) for k, x in items)))
        renc.append((d[1], [(k, x[1]) for k, x in items]))
    return tuple(canon), renc


def mode_allows_rest(mode):
    return mode in ("bare", "u32")


def run_decode_cases(model: Model, cases, res: CorrResult, counts, stats, check_clauses=True):
    """model vs implementation on decode + re-encode of every case; C09's one-pass clauses on the implementation"""
    # phase 1: decode on both sides
    lines = ["%s %s %s" % (DEC_CMD[c.mode], c.te.ltext, hx(c.payload)) for c in cases]
    outs = model.run(lines)
    enc_jobs = []
    for c, o in zip(cases, outs):
        res.evaluations += 1
        c.model = model_dec_parse(c.mode, o)
        c.real = real_decode(c.te, c.mode, c.payload, c.pod)
        stats["decode:" + (c.real[1] if c.real[0] == "ERR" else c.real[0])] = stats.get("decode:" + (c.real[1] if c.real[0] == "ERR" else c.real[0]), 0) + 1
        m_acc, r_acc = c.model[0] != "ERR", c.real[0] != "ERR"
        if m_acc and c.model[0] == "V":
            try:
                c.norm = normalise_model_struct(c.te, c.model[1], c.pod)
            except Exception as e:      # noqa: the element spec itself refuses these bytes
                c.elem_err = exc_name(e)
                m_acc = False
        if m_acc != r_acc:
            report(res, counts, c.describe("accept/reject differ", model=o[:200], impl=repr(c.real)[:200], elem=c.elem_err), dis=True)
            continue
        if not r_acc:
            continue
        res.distinct_nontrivial += 1
        if c.model[0] != c.real[0]:
            report(res, counts, c.describe("None vs value differ", model=o[:200], impl=repr(c.real)[:200]), dis=True)
            continue
        if c.model[-1] != c.real[-1]:
            report(res, counts, c.describe("bytes left over differ", model=o[:200], impl_rest=c.real[-1].hex()), dis=True)
            continue
        if c.real[0] == "V":
            try:
                rs = canon_struct(real_struct(c.te, c.real[1]))
            except Exception as e:      # noqa
                report(res, counts, c.describe("decoded value has an unexpected shape", detail=str(e)[:200]), dis=True)
                continue
            if rs != c.norm[0]:
                report(res, counts, c.describe("decoded structure differs", model=o[:300], impl=repr(rs)[:300]), dis=True)
                continue
        # re-encode what was decoded
        c.renc_real = real_encode(c.te, c.mode, c.real[1] if c.real[0] == "V" else None)
        enc_jobs.append(c)
    # phase 2: the model re-encodes the structure whose elements went through the real element codec once
    lines = []
    for c in enc_jobs:
        st = "N" if c.model[0] == "N" else struct_text(c.norm[1])
        lines.append("%s %s %s" % (ENC_CMD[c.mode], c.te.ltext, st))
    outs = model.run(lines)
    again = []
    for c, o in zip(enc_jobs, outs):
        res.evaluations += 1
        m = ("ERR",) if o == "ERR" else ("OK", unhx(o))
        if m[0] != c.renc_real[0] or (m[0] == "OK" and m[1] != c.renc_real[1]):
            report(res, counts, c.describe("re-encoding differs", model=o[:300],
                                           impl=c.renc_real[1].hex()[:300] if c.renc_real[0] == "OK" else c.renc_real[1]), dis=True)
            continue
        if not check_clauses or not c.te.proper:
            continue
        # C09 clauses on the implementation alone
        if c.renc_real[0] != "OK":
            report(res, counts, c.describe("accepted payload re-encodes", clause="accepted payload re-encodes", detail=c.renc_real[1],
                                           **{"class": "te:accepted-payload-does-not-re-encode"}))
            continue
        b1 = c.renc_real[1]
        if c.origin.startswith("generated") and c.real[-1] == b"" and b1 != c.payload:
            report(res, counts, c.describe("own output survives byte-for-byte", clause="own output survives byte-for-byte",
                                           detail=b1.hex()[:200], **{"class": "te:own-output-changes"}))
            continue
        r1 = real_decode(c.te, c.mode, b1, c.pod)
        bad = None
        if r1[0] == "ERR":
            bad = ("re-encoded payload is accepted", r1[1])
        elif r1[0] != c.real[0] or r1[-1] != b"":
            bad = ("re-encoded payload decodes to the same value", repr(r1)[:160])
        elif r1[0] == "V" and c09_values.canon(r1[1]) != c09_values.canon(c.real[1]):
            bad = ("re-encoded payload decodes to the same value", repr(r1[1])[:160])
        else:
            b2 = real_encode(c.te, c.mode, r1[1] if r1[0] == "V" else None)
            if b2 != ("OK", b1):
                bad = ("fixed point after one pass", repr(b2)[:160])
        if bad:
            report(res, counts, c.describe(bad[0], clause=bad[0], detail=bad[1], reencoded=b1.hex(),
                                           **{"class": classify(c, b1)}))
        elif b1 != c.payload:
            stats["decoder normalised the payload"] = stats.get("decoder normalised the payload", 0) + 1
            again.append(Case(c.te, c.mode, b1, c.pod, "reencoded"))
    return again


def classify(c: Case, b1: bytes):
    """root cause of a failed one-pass clause: an element codec that is not idempotent is the element's defect
    (C10: PackedTERotation raw -32768), anything else is the TE framing"""
    try:
        if c.model and c.model[0] == "V":
            for name, spec, f in zip(c.te.names, c.te.specs, c.model[1]):
                if f is None:
                    continue
                for raw in [f[0]] + [x for _, x in f[1]]:
                    v = elem_dec(spec, raw, c.pod)
                    raw1 = elem_enc(spec, v)
                    if c09_values.canon(elem_dec(spec, raw1, c.pod)) != c09_values.canon(v):
                        if name == "Rotation" and raw == b"\x00\x80":
                            return "te-rotation-raw-min"
                        return "te:element-codec-not-idempotent:%s:%s" % (name, raw.hex())
    except Exception:       # noqa
        pass
    return "te:one-pass-clause"


def report(res, counts, case, dis=False):
    k = (case["what"], case.get("te"), dis)
    counts[k] = counts.get(k, 0) + 1
    if counts[k] <= MAX_REPORT:
        (res.disagreements if dis else res.impl_violations).append(case)


# =====================================================================================
# object-form values: serialize on both sides, domain of the round-trip theorem on the implementation

class ObjCase:
    __slots__ = ("te", "raw", "origin", "value", "real", "skip")

    def __init__(self, te, raw, origin):
        """raw: per field  None | "EMPTY" ({}) | ("NODEFAULT", items) | (raw default, [(faces, raw)...], none_pos)"""
        self.te, self.raw, self.origin = te, raw, origin

    def describe(self, what, **more):
        d = {"kind": "te-value", "what": what, "layout": self.te.ltext, "te": self.te.name, "origin": self.origin,
             "value": repr(self.raw), "key": "TextureEntry(%s)" % self.te.name}
        d.update(more)
        return d


def build_value(te: RealTE, raw):
    """the implementation's object-form value for a raw description (elements through the real element spec)"""
    kw = {}
    in_model = True
    ms = []
    for name, spec, f in zip(te.names, te.specs, raw):
        if f is None:
            kw[name] = None
            ms.append(None)
        elif f == "EMPTY":
            kw[name] = {}
            ms.append(None)
        else:
            d, items, none_pos = f
            vals = [(k, elem_dec(spec, x, False)) for k, x in items]
            pairs = list(vals)
            if d is not None:
                dv = elem_dec(spec, d, False)
                pairs.insert(min(none_pos, len(pairs)), (None, dv))
                d = elem_enc(spec, dv)
            else:
                in_model = False        # no vals[None]: KeyError in the implementation, no counterpart in the model
            kw[name] = dict(pairs)
            # the model's element is what the real element spec writes for the value (F32 signalling NaNs are quieted, ...)
            ms.append((d, [(k, elem_enc(spec, v)) for k, v in vals]))
    return te.ser._data_cls(**kw), (ms if in_model else None)


def run_object_cases(model: Model, cases, res: CorrResult, counts, stats):
    """serialize on both sides; where the model's round-trip domain holds, the implementation must round-trip"""
    jobs = []
    for c in cases:
        res.evaluations += 1
        try:
            value, ms = build_value(c.te, c.raw)
        except Exception as e:      # noqa: the generator produced element bytes the element spec refuses
            stats["value not constructible"] = stats.get("value not constructible", 0) + 1
            continue
        c.value = value
        c.real = real_encode(c.te, "bare", value)
        if ms is None:
            if c.real[0] != "ERR":
                report(res, counts, c.describe("dict without None key is serialized", impl=c.real[1].hex()[:200]), dis=True)
            else:
                stats["no vals[None]: " + c.real[1]] = stats.get("no vals[None]: " + c.real[1], 0) + 1
            continue
        jobs.append((c, ms))
    lines = []
    for c, ms in jobs:
        st = struct_text(ms)
        lines.append("e %s %s" % (c.te.ltext, st))
        lines.append("ok %s %s" % (c.te.ltext, st))
    outs = model.run(lines)
    produced = []
    for i, (c, ms) in enumerate(jobs):
        eo, ok = outs[2 * i], outs[2 * i + 1].split(" ")
        m = ("ERR",) if eo == "ERR" else ("OK", unhx(eo))
        stats["serialize:" + (c.real[1] if c.real[0] == "ERR" else "OK")] = stats.get("serialize:" + (c.real[1] if c.real[0] == "ERR" else "OK"), 0) + 1
        if m[0] != c.real[0] or (m[0] == "OK" and m[1] != c.real[1]):
            report(res, counts, c.describe("serialized bytes differ", model=eo[:300],
                                           impl=c.real[1].hex()[:300] if c.real[0] == "OK" else c.real[1]), dis=True)
            continue
        if c.real[0] != "OK":
            continue
        res.distinct_nontrivial += 1
        in_dom = ok == ["1", "1"]
        stats["in round-trip domain" if in_dom else "outside round-trip domain"] = \
            stats.get("in round-trip domain" if in_dom else "outside round-trip domain", 0) + 1
        produced.append((c, c.real[1], in_dom))
        if in_dom:
            # the theorem's conclusion, on the implementation: decode(serialize(v)) == v, nothing left
            r = real_decode(c.te, "bare", c.real[1], False)
            good = False
            if r[0] == "V" and r[-1] == b"":
                try:
                    want = []
                    for f in ms:
                        want.append(None if f is None else (f[0], [(k, x) for k, x in f[1]]))
                    got = real_struct(c.te, r[1])
                    # compare through the element codec: canon(dec raw) on the model side
                    wantc = tuple(None if f is None else (c09_values.canon(elem_dec(s, f[0], False)),
                                                          tuple((k, c09_values.canon(elem_dec(s, x, False))) for k, x in f[1]))
                                  for s, f in zip(c.te.specs, want))
                    good = canon_struct(got) == wantc
                except Exception:       # noqa
                    good = False
            if not good:
                report(res, counts, c.describe("value in the round-trip domain does not round-trip",
                                               clause="own output decodes to the value that was serialized",
                                               payload=c.real[1].hex(), impl=repr(r)[:200], **{"class": "te:domain-value-lost"}))
    return produced


# =====================================================================================
# generators

VAL_POOL = {1: [b"\x00", b"\x01", b"\x80", b"\xff"],
            4: [bytes(4), b"\x01\x00\x00\x00", b"\x00\x00\x00\x80", b"\xff" * 4],
            16: [bytes(16), bytes(range(16)), b"\x80" * 16, b"\xff" * 16]}
FACE_POOL_FULL = [(0,), (6,), (7,), (8,), (0, 7), (6, 7), (1, 8), (0, 1, 2, 3, 4, 5, 6), tuple(range(9)), (), (2, 1), (3, 3)]
FACE_POOL_5 = [(0,), (8,), (0, 7), (), (7, 0)]
FACE_POOL_3 = [(8,), (0, 7), ()]
FACE_POOL_2 = [(8,), (0, 7)]


def exc_lists(pool, maxn):
    out = [()]
    for n in range(1, maxn + 1):
        out += list(itertools.permutations(pool, n))
    return out


class Counter:
    def __init__(self):
        self.i = 0

    def raw(self, size):
        self.i += 1
        return VAL_POOL[size][(self.i * 7 + self.i // 4) % 4]


def field_raws(size, keylists, cnt, absent=True, empty=False):
    out = []
    if absent:
        out.append(None)
    if empty:
        out.append("EMPTY")
    for keys in keylists:
        out.append((cnt.raw(size), [(k, cnt.raw(size)) for k in keys], 0))
    return out


def small_scope_objects(ctx):
    """exhaustive small scope of object-form values (see the suite's rule)"""
    et = elem_table()
    names = ("U8", "U32", "UUID")
    cnt = Counter()
    cases = []
    # one field
    kl1 = exc_lists(FACE_POOL_FULL, 2)
    for en in names:
        for op in (0, 1):
            for fi in (1, 0):
                te = synth_te(((fi, op, en),))
                for f in field_raws(et[en][1], kl1, cnt, empty=True):
                    cases.append(ObjCase(te, [f], "small-1"))
    # two fields
    pool = FACE_POOL_3 if ctx.thorough else FACE_POOL_2
    kl2 = exc_lists(pool, 2)
    shapes2 = [((1, 0, a), (0, op, b)) for a in names for b in names for op in (0, 1)]
    shapes2 += [((f0, o0, "U8"), (f1, o1, "U8")) for f0 in (0, 1) for o0 in (0, 1) for f1 in (0, 1) for o1 in (0, 1)]
    for shape in dict.fromkeys(shapes2):
        te = synth_te(shape)
        fr = [field_raws(et[s[2]][1], kl2, cnt) for s in shape]
        for combo in itertools.product(*fr):
            cases.append(ObjCase(te, list(combo), "small-2"))
    # three fields
    kl3 = [(), ((8,),), ((0, 7),)]
    shapes3 = [((1, 0, p[0]), (0, 0, p[1]), (0, op, p[2])) for p in itertools.permutations(names) for op in (0, 1)]
    shapes3 += [((1, o0, "U8"), (0, o1, "U8"), (0, o2, "U8")) for o0 in (0, 1) for o1 in (0, 1) for o2 in (0, 1)]
    for shape in dict.fromkeys(shapes3):
        te = synth_te(shape)
        fr = [field_raws(et[s[2]][1], kl3, cnt) for s in shape]
        for combo in itertools.product(*fr):
            cases.append(ObjCase(te, list(combo), "small-3"))
    # irregular dicts: None key not first, missing None key
    te = synth_te(((1, 0, "U8"), (0, 1, "U32")))
    for none_pos in (1, 2):
        cases.append(ObjCase(te, [(b"\x07", [((1,), b"\x00"), ((8,), b"\x09")], none_pos), (bytes(4), [((2,), b"\x01\x00\x00\x00")], 1)], "none-key-late"))
    cases.append(ObjCase(te, [(None, [((1,), b"\x00")], 0), None], "no-none-key"))
    cases.append(ObjCase(te, [(b"\x07", [], 0), (None, [((1,), bytes(4))], 0)], "no-none-key"))
    return cases


def exhaustive_payloads(ctx):
    """every byte string over a framing-relevant alphabet, up to a length, for two small layouts"""
    alpha = (0x00, 0x01, 0x02, 0x80, 0x81, 0xFF)
    maxlen = ctx.pick(4, 5)
    tes = [synth_te(((1, 0, "U8"), (0, 1, "U8"))), synth_te(((1, 0, "U8"), (0, 0, "U8"), (0, 1, "U8")))]
    out = []
    for te in tes:
        for n in range(0, maxlen + 1):
            for t in itertools.product(alpha, repeat=n):
                out.append((te, bytes(t)))
    return out


def random_faces(rng):
    r = rng.random()
    if r < 0.55:
        n = rng.choice((1, 1, 1, 2, 2, 3, 5))
        return tuple(sorted(rng.sample(range(0, 45), n)))
    if r < 0.7:
        return tuple(sorted(rng.sample(range(0, 16), rng.randrange(1, 9))))
    if r < 0.8:
        return tuple(sorted(set(rng.choice((6, 7, 13, 14, 20, 21, 27, 28, 34, 35, 41, 42, 44, 45, 48, 49, 62, 63, 64)) for _ in range(rng.randrange(1, 4)))))
    if r < 0.86:
        return tuple(rng.randrange(0, 20) for _ in range(rng.randrange(1, 5)))       # unsorted / repeated
    if r < 0.9:
        return (rng.choice((70, 127, 128, 200, 255, 256, 300, 1000)),)
    if r < 0.93:
        return ()
    return tuple(range(rng.randrange(1, 45)))


def random_elem(rng, size):
    r = rng.random()
    if r < 0.2:
        return bytes(size)
    if r < 0.3:
        return b"\xff" * size
    if r < 0.4:
        return bytes([0] + [rng.randrange(256) for _ in range(size - 1)])
    return bytes(rng.randrange(256) for _ in range(size))


def random_object(rng, te: RealTE, wild=0.15):
    raw = []
    n = len(te.layout)
    n_present = n if rng.random() < 0.5 else rng.choice((n - 1, n - 1, n - 2, rng.randrange(0, n + 1)))
    for i, (fi, op, size) in enumerate(te.layout):
        if i >= n_present and (op or rng.random() < wild):
            raw.append(rng.choice((None, "EMPTY")))
            continue
        keys = []
        for _ in range(rng.choice((0, 0, 1, 1, 2, 3, 4))):
            f = random_faces(rng)
            if f not in keys:
                keys.append(f)
        raw.append((random_elem(rng, size), [(k, random_elem(rng, size)) for k in keys], 0))
    return raw


def mutate(rng, b: bytes) -> bytes:
    r = rng.random()
    ba = bytearray(b)
    if r < 0.3 and ba:
        for _ in range(rng.choice((1, 1, 2, 4))):
            ba[rng.randrange(len(ba))] ^= 1 << rng.randrange(8)
    elif r < 0.5 and ba:
        ba[rng.randrange(len(ba))] = rng.choice((0, 0, 1, 0x7F, 0x80, 0x81, 0xFF))
    elif r < 0.65 and ba:
        del ba[rng.randrange(len(ba)):]
    elif r < 0.78:
        ba += bytes(rng.choice((0, 0, 1, 0x80, rng.randrange(256))) for _ in range(rng.choice((1, 1, 2, 4, 17))))
    elif r < 0.9 and ba:
        i = rng.randrange(len(ba))
        del ba[i:i + rng.choice((1, 2, 4))]
    else:
        i = rng.randrange(len(ba) + 1)
        ba[i:i] = bytes(rng.choice((0, 0x80, 0x81, rng.randrange(256))) for _ in range(rng.choice((1, 2, 4))))
    return bytes(ba)


# =====================================================================================
# suites

def suite_bitfield(ctx, model: Model):
    T, se = _mods()
    res = CorrResult(suite="TextureEntry face bitfield: model vs TEFaceBitfield",
                     rule="serialize: every subset of faces 0..8 as a sorted tuple (the empty one included), unsorted / repeated "
                          "tuples, faces at the 7-bit group boundaries up to 1000, seeded random tuples; deserialize: every byte "
                          "string of length <= 1, of length 2 (quick: all first bytes x 24 second bytes; thorough: all 65 536), "
                          "seeded random strings of 3..8 bytes biased to continuation bytes, each also with trailing bytes; "
                          "compared: bytes written / (tuple, bytes left) / exception; impl-level clause: a canonical non-empty "
                          "tuple decodes back to itself from its own bytes, which never start with 00; non-trivial = accepted",
                     exhaustive=False)
    rng = ctx.rng
    counts, stats = {}, {}
    faces = [tuple(i for i in range(9) if m >> i & 1) for m in range(512)]
    faces += [(2, 1), (3, 3), (0, 0, 0), (8, 0), (6, 7, 13, 14), (20,), (21,), (44,), (45,), (62, 63), (64,), (127,), (128,), (300,), (1000,),
              tuple(range(45)), tuple(range(64))]
    for _ in range(ctx.pick(300, 5000)):
        faces.append(random_faces(rng))
    outs = model.run(["be " + faces_text(f) for f in faces])
    face_samples = [{"faces": list(f), "model_bytes": o} for f, o in list(zip(faces, outs))[255:259]]
    for f, o in zip(faces, outs):
        res.evaluations += 1
        w = se.BufferWriter("<")
        try:
            T.TEFaceBitfield.serialize(f, w)
            b = bytes(w.copy_buffer())
        except Exception as e:      # noqa
            b = None
        if b is None or hx(b) != o:
            report(res, counts, {"kind": "te-bitfield", "what": "serialize differs", "faces": list(f), "model": o,
                                 "impl": None if b is None else b.hex(), "te": "bitfield", "key": "TEFaceBitfield"}, dis=True)
            continue
        res.distinct_nontrivial += 1
        canonical = len(f) > 0 and all(a < c for a, c in zip(f, f[1:]))
        if canonical:
            try:
                r = se.BufferReader("<", b)
                back = T.TEFaceBitfield.deserialize(r)
                good = back == f and not len(r) and b[0] != 0
            except Exception:       # noqa
                good = False
            if not good:
                report(res, counts, {"kind": "te-bitfield", "what": "canonical tuple does not round-trip", "faces": list(f),
                                     "clause": "face tuple round-trips", "class": "te:bitfield-lossy", "te": "bitfield",
                                     "key": "TEFaceBitfield", "payload": b.hex()})
    second = range(256) if ctx.thorough else (0, 1, 2, 3, 0x10, 0x3F, 0x40, 0x41, 0x7E, 0x7F, 0x80, 0x81, 0x82, 0xBF, 0xC0, 0xC1,
                                              0xFE, 0xFF, 0x55, 0xAA, 0x08, 0x88, 0x20, 0xA0)
    payloads = [b""] + [bytes((a,)) for a in range(256)] + [bytes((a, c)) for a in range(256) for c in second]
    for _ in range(ctx.pick(1500, 40000)):
        n = rng.randrange(3, 9)
        payloads.append(bytes(rng.choice((0x80, 0x81, 0xFF, 0x80 | rng.randrange(128), rng.randrange(256))) for _ in range(n)))
    outs = model.run(["bd " + hx(p) for p in payloads])
    for p, o in zip(payloads, outs):
        res.evaluations += 1
        try:
            r = se.BufferReader("<", p)
            f = T.TEFaceBitfield.deserialize(r)
            impl = "%s %s" % (faces_text(f), hx(bytes(p[len(p) - len(r):]) if len(r) else b""))
            res.distinct_nontrivial += 1
        except Exception as e:      # noqa
            impl = "ERR"
            stats[exc_name(e)] = stats.get(exc_name(e), 0) + 1
        if impl != o:
            report(res, counts, {"kind": "te-bitfield", "what": "deserialize differs", "payload": p.hex(), "model": o, "impl": impl,
                                 "te": "bitfield", "key": "TEFaceBitfield"}, dis=True)
    res.distribution = dict(stats)
    res.samples = face_samples
    return res


def suite_small(ctx, model: Model):
    res = CorrResult(suite="TextureEntry small scope: model vs real TEExceptionField / se.Dataclass / wrappers",
                     rule="synthetic entries built with the real _te_field / se.Dataclass / TypedBytesGreedy / TypedByteArray(U32) over "
                          "the real element specs U8 (1 byte), U32 (4), UUID (16). Object-form values, exhaustive: 1 field x {element} x "
                          "{optional} x {first} x (absent, {}, 0..2 exceptions keyed by ordered pairs from 12 face tuples incl. faces > 7, "
                          "the empty tuple, an unsorted and a repeated one); 2 fields x 9 element pairs x {optional tail} + all 16 flag "
                          "combinations over U8,U8 (improper layouts too) x (absent, 0..2 exceptions from 2 (thorough 3) tuples) per field; "
                          "3 fields: 6 element orders x {optional tail} + 8 optional patterns over U8^3 x (absent, 0..1 exception) per "
                          "field; element bytes cycle through 00.., 01.., 80.., ff.. (so defaults and values start with 00 regularly); "
                          "dicts with the None key late / missing. Compared: serialize bytes or exception, the model's round-trip "
                          "domain flag (where it holds the implementation must decode its own output to the same value). Every produced "
                          "payload (quick: through the wrappers for every fourth 1- and 2-field one), every proper prefix of the short ones, and EVERY byte string up to length 4 (thorough 5) over "
                          "{00,01,02,80,81,ff} for two layouts then go through decode in object and plain-data form, bare and through both "
                          "wrappers: accept/reject, None/value, bytes left, decoded structure (keys in dict order; elements compared as "
                          "canon(real element spec applied to the model's raw element)), re-encoding byte-for-byte, and C09's one-pass "
                          "clauses on the implementation; non-trivial = accepted",
                     exhaustive=True)
    counts, stats = {}, {}
    objs = small_scope_objects(ctx)
    produced = run_object_cases(model, objs, res, counts, stats)
    cases, seen = [], set()

    def add(te, mode, payload, origin):
        for pod in (False, True):
            k = (te.name, mode, payload, pod)
            if k not in seen:
                seen.add(k)
                cases.append(Case(te, mode, payload, pod, origin))

    for j, (c, b, in_dom) in enumerate(produced):
        origin = "generated" if in_dom else "produced-outside-domain"
        add(c.te, "bare", b, origin)
        n = len(b)
        if ctx.thorough or c.origin == "small-3" or j % 4 == 0:
            add(c.te, "greedy", b, origin)
            add(c.te, "u32", n.to_bytes(4, "little") + b, origin)
        if n <= 26 and (c.origin == "small-3" or (c.origin == "small-1" and (ctx.thorough or c.te.layout[0][2] == 1))):
            for i in range(n):
                add(c.te, "bare", b[:i], "prefix")
    for te, p in exhaustive_payloads(ctx):
        add(te, "bare", p, "exhaustive-bytes")
        if ctx.thorough or len(te.layout) == 2:
            add(te, "greedy", p, "exhaustive-bytes")
    # wrapper framing: prefix larger / smaller than the blob, trailing bytes, empty blob
    te = synth_te(((1, 0, "U8"), (0, 1, "U8")))
    for p in (b"", b"\x00", b"\x00\x00\x00", bytes(4), bytes(5), b"\x01\x00\x00\x00\x07", b"\x01\x00\x00\x00\x07\x09", b"\x02\x00\x00\x00\x07",
              b"\x03\x00\x00\x00\x07\x00\x09", b"\x03\x00\x00\x00\x07\x00\x09\x00", b"\x00\x00\x00\x01\x07", b"\xff\xff\xff\xff\x07"):
        add(te, "u32", p, "u32-framing")
    stats["payload cases"] = len(cases)
    again = run_decode_cases(model, cases, res, counts, stats)
    run_decode_cases(model, again, res, counts, stats)
    res.distribution = {k: v for k, v in sorted(stats.items())}
    res.samples = [{"layout": c.te.ltext, "payload": c.payload.hex(), "mode": c.mode} for c in cases[:3]]
    return res


REFUTATION_WITNESSES = [
    # (name in TexEntryProofs.v, shape, object-form raw value or payload)
    ("field_rt_empty_key_refuted", ((1, 0, "U8"),), [(b"\x07", [((), b"\x03")], 0)]),
    ("bitfield_order_refuted", ((1, 0, "U8"),), [(b"\x07", [((2, 1), b"\x03")], 0)]),
    ("field_rt_same_set_refuted", ((1, 0, "U8"),), [(b"\x07", [((1, 2), b"\x04"), ((4,), b"\x05"), ((2, 1), b"\x06")], 0)]),
    ("te_rt_absent_middle_refuted", ((1, 0, "U8"), (0, 1, "U8"), (0, 1, "U8")), [(b"\x07", [], 0), None, (b"\x09", [], 0)]),
    ("te_rt_first_flag_refuted", ((1, 0, "U8"), (1, 0, "U8")), [(b"\x07", [], 0), (b"\x09", [], 0)]),
]


def suite_live(ctx, model: Model, live: RealTE):
    res = CorrResult(suite="TextureEntry live layout: model vs TE_SERIALIZER and the two registered subfield serializers",
                     rule="layout (first/optional flags, element sizes) read from the live TE_SERIALIZER each run; seeded random "
                          "object-form values (0..4 exceptions per field, face tuples over 0..44 incl. group boundaries, > 44, unsorted / "
                          "repeated, the empty tuple; absent tail, absent non-optional fields, {} ; element bytes random incl. all-zero, "
                          "all-ff, leading 00) -> serialize on both sides, round-trip on the implementation where the model's domain "
                          "holds; produced payloads, truncations at every field boundary and at random positions, seeded mutations "
                          "(bit flips, 00/80/81/ff overwrites, insertions, deletions, appended bytes), the refutation witnesses of "
                          "TexEntryProofs.v on the real code: decode in object and plain-data form through TE_SERIALIZER, "
                          "TextureEntrySubfieldSerializer (ObjectUpdate.ObjectData.TextureEntry ...) and DPTextureEntrySubfieldSerializer "
                          "(ImprovedTerseObjectUpdate): accept/reject, None/value, bytes left, decoded structure, re-encoding, C09's "
                          "one-pass clauses; non-trivial = accepted")
    rng = ctx.rng
    counts, stats = {}, {}
    T, se = _mods()
    objs = []
    for i in range(ctx.pick(110, 1200)):
        objs.append(ObjCase(live, random_object(rng, live), "random"))
    # the class default and a value made by from_tes
    objs.append(ObjCase(live, [(elem_enc(s, elem_dec(s, bytes(k), False)), [], 0) for s, (_, _, k) in zip(live.specs, live.layout)], "zeros"))
    produced = run_object_cases(model, objs, res, counts, stats)
    cases, seen = [], set()

    def add(mode, payload, origin, te=live):
        for pod in (False, True):
            k = (te.name, mode, payload, pod)
            if k not in seen:
                seen.add(k)
                cases.append(Case(te, mode, payload, pod, origin))

    try:
        dflt = real_encode(live, "bare", T.TextureEntryCollection())
        if dflt[0] == "OK":
            produced.append((None, dflt[1], True))
    except Exception:       # noqa
        pass
    n_mut = ctx.pick(2, 4)
    for c, b, in_dom in produced:
        origin = "generated" if in_dom else "produced-outside-domain"
        add("bare", b, origin)
        add("reg-greedy", b, origin)
        add("reg-u32", len(b).to_bytes(4, "little") + b, origin)
        for _ in range(n_mut):
            m = mutate(rng, b)
            add(rng.choice(("bare", "reg-greedy")), m, "mutated")
            m = mutate(rng, b)
            add("reg-u32", len(m).to_bytes(4, "little") + m, "mutated")
        add("reg-u32", mutate(rng, len(b).to_bytes(4, "little") + b), "mutated-framing")
        for _ in range(2):
            add("bare", b[:rng.randrange(len(b) + 1)], "truncated")
    # truncation at every position of a few payloads
    for c, b, in_dom in produced[:ctx.pick(2, 12)]:
        for i in range(len(b) + 1):
            add("reg-greedy", b[:i], "truncated")
    for n in (0, 1, 16, 17, 21, 62, 63, 64, 80):
        add("reg-greedy", bytes(n), "zeros")
        add("reg-u32", n.to_bytes(4, "little") + bytes(n), "zeros")
        add("reg-greedy", bytes(rng.randrange(256) for _ in range(n)), "random")
    stats["payload cases"] = len(cases)
    again = run_decode_cases(model, cases, res, counts, stats)
    run_decode_cases(model, again, res, counts, stats)
    # refutation witnesses on the real code
    wit = []
    for name, shape, raw in REFUTATION_WITNESSES:
        wit.append(ObjCase(synth_te(shape), raw, "witness:" + name))
    wres = CorrResult(suite="w")
    wcounts, wstats = {}, {}
    wprod = run_object_cases(model, wit, wres, wcounts, wstats)
    reproduced = 0
    for c, b, in_dom in wprod:
        r = real_decode(c.te, "bare", b, False)
        same = False
        if r[0] == "V" and r[-1] == b"":
            try:
                _, ms = build_value(c.te, c.raw)
                got = canon_struct(real_struct(c.te, r[1]))
                want = tuple(None if f is None else (c09_values.canon(elem_dec(s, f[0], False)),
                                                     tuple((k, c09_values.canon(elem_dec(s, x, False))) for k, x in f[1]))
                             for s, f in zip(c.te.specs, ms))
                same = got == want
            except Exception:       # noqa
                same = False
        if not same and not in_dom:
            reproduced += 1
    res.evaluations += wres.evaluations
    res.disagreements += wres.disagreements
    wcases = []
    for c, b, in_dom in wprod:
        wcases.append(Case(c.te, "bare", b, False, "witness"))
    for name, te_shape, p in (("field_rt_nonzero_rest_refuted", ((1, 0, "U8"),), b"\x07\x02\x08\x05\x09"),
                              ("bitfield_noncanonical_accepted", ((1, 0, "U8"), (0, 1, "U8")), b"\x07\x80\x00\x09"),
                              ("te_decode_normalises", ((1, 0, "U8"), (0, 1, "U8")), b"\x07\x02\x08\x02\x09\x00"),
                              ("te_rt_trailing_refuted", ((1, 0, "U8"),), b"\x07\x01\x02")):
        wcases.append(Case(synth_te(te_shape), "bare", p, False, "witness"))
    run_decode_cases(model, wcases, res, counts, stats)
    ctx.notes.append("TextureEntry: %d/%d object-form refutation witnesses of TexEntryProofs.v (empty key, unsorted key, same-set keys, "
                     "absent middle field, second `first` field) reproduce on the real code exactly as the model predicts (the value is "
                     "serialized without an error and does not decode back); the payload witnesses (non-NUL byte after a field, 80 00 "
                     "terminator, repeated bitfield, trailing bytes) decode identically on both sides" % (reproduced, len(wit)))
    res.distribution = {k: v for k, v in sorted(stats.items())}
    res.samples = [{"layout": live.ltext, "payload": c.payload.hex()[:160], "mode": c.mode} for c in cases[:3]]
    return res


# =====================================================================================
# ExtraParams: DictAdapter(Collection(U8, EnumSwitch(IntEnum(ExtraParamType, U16), {t: TypedByteArray(U32, tmpl)})))

class LiveExtraParams:
    def __init__(self):
        T, se = _mods()
        c = T.EXTRA_PARAM_COLLECTION
        if type(c) is not se.DictAdapter or type(c._child_spec) is not se.Collection or c._child_spec._len_spec is not se.U8:
            raise RuntimeError("EXTRA_PARAM_COLLECTION is not DictAdapter(Collection(U8, ..))")
        es = c._child_spec._entry_ser
        if type(es) is not se.EnumSwitch or type(es._enum_spec) is not se.IntEnum or es._enum_spec._child_spec is not se.U16 \
                or es._enum_spec.enum_cls is not T.ExtraParamType:
            raise RuntimeError("ExtraParams entry serializer is not EnumSwitch(IntEnum(ExtraParamType, U16), ..)")
        for t, ch in es._choice_specs.items():
            if type(ch) is not se.TypedByteArray or ch._bytes_tmpl._len_spec is not se.U32 or ch._empty_is_none:
                raise RuntimeError("ExtraParams choice %r is not TypedByteArray(U32, template)" % (t,))
        S = T.ObjectUpdateExtraParamsSerializer
        if S.TEMPLATE is not c or not S.EMPTY_IS_NONE or not S.CHECK_TRAILING_BYTES or S.ENDIANNESS != "<":
            raise RuntimeError("ObjectUpdateExtraParamsSerializer is not the wrapper the model covers")
        self.coll, self.entry, self.ser, self.enum = c, es, S, T.ExtraParamType
        self.choices = {int(t): ch for t, ch in es._choice_specs.items()}

    def key_int(self, k):
        if isinstance(k, str):
            return int(self.enum[k])
        return int(k)

    def blob_dec(self, t, blob, pod):
        return elem_dec(self.choices[t], len(blob).to_bytes(4, "little") + blob, pod)

    def blob_enc(self, t, v):
        return elem_enc(self.choices[t], v)[4:]

    def decode(self, payload, pod):
        try:
            v = self.ser.deserialize(None, payload, pod=pod)
        except Exception as e:      # noqa
            return ("ERR", exc_name(e))
        return ("N",) if v is None else ("V", v)

    def encode(self, v):
        try:
            return ("OK", bytes(self.ser.serialize(None, v)))
        except Exception as e:      # noqa
            return ("ERR", exc_name(e))


def dict_text(d):
    return ",".join("%d:%s" % (k, hx(b)) for k, b in d) if d else "{}"


def dict_parse(t):
    if t == "{}":
        return []
    return [(int(e.split(":")[0]), unhx(e.split(":")[1])) for e in t.split(",")]


def xp_check_payload(model, X, payloads, res, counts, stats):
    """[(payload, pod, origin)] through model and implementation: accept/reject, dict order, values, re-encoding, one-pass clauses"""
    outs = model.run(["xd " + hx(p) for p, _, _ in payloads])
    wouts = model.run(["xw " + hx(p) for p, _, _ in payloads])
    jobs = []
    for (p, pod, origin), o, wo in zip(payloads, outs, wouts):
        res.evaluations += 1
        base = {"kind": "te-xp", "payload": p.hex(), "pod": pod, "origin": origin, "key": "ObjectUpdate.ObjectData.ExtraParams", "te": "extraparams"}
        r = X.decode(p, pod)
        stats["decode:" + (r[1] if r[0] == "ERR" else r[0])] = stats.get("decode:" + (r[1] if r[0] == "ERR" else r[0]), 0) + 1
        w = o.split(" ")
        m_acc = w[0] != "ERR"
        norm = None
        if w[0] == "V":
            try:
                md = dict_parse(w[1])
                # the implementation decodes EVERY entry on the wire, also those a later entry with the same type overwrites:
                # the entry codec (a parameter of the model) must accept each of them
                for k, b in dict_parse(wo.split(" ")[1]):
                    X.blob_dec(k, b, pod)
                vals = [(k, X.blob_dec(k, b, pod)) for k, b in md]
                norm = ([(k, c09_values.canon(v)) for k, v in vals], [(k, X.blob_enc(k, v)) for k, v in vals])
            except Exception as e:      # noqa: unknown type / blob the sub-template refuses
                m_acc = False
        if m_acc != (r[0] != "ERR"):
            report(res, counts, dict(base, what="accept/reject differ", model=o[:200], impl=repr(r)[:200]), dis=True)
            continue
        if r[0] == "ERR":
            continue
        res.distinct_nontrivial += 1
        if (w[0] == "N") != (r[0] == "N"):
            report(res, counts, dict(base, what="None vs value differ", model=o[:200], impl=repr(r)[:200]), dis=True)
            continue
        if r[0] == "V":
            try:
                got = [(X.key_int(k), c09_values.canon(v)) for k, v in r[1].items()]
            except Exception as e:      # noqa
                got = "EXC " + str(e)
            if got != norm[0]:
                report(res, counts, dict(base, what="decoded dict differs", model=o[:300], impl=repr(got)[:300]), dis=True)
                continue
        jobs.append((p, pod, origin, r, w[0], norm, base))
    outs = model.run(["xe " + ("N" if k == "N" else dict_text(norm[1])) for _, _, _, _, k, norm, _ in jobs])
    for (p, pod, origin, r, k, norm, base), o in zip(jobs, outs):
        res.evaluations += 1
        b1 = X.encode(None if r[0] == "N" else r[1])
        m = ("ERR",) if o == "ERR" else ("OK", unhx(o))
        if m[0] != b1[0] or (m[0] == "OK" and m[1] != b1[1]):
            report(res, counts, dict(base, what="re-encoding differs", model=o[:300], impl=b1[1].hex()[:300] if b1[0] == "OK" else b1[1]), dis=True)
            continue
        bad = None
        if b1[0] != "OK":
            bad = ("accepted payload re-encodes", b1[1])
        else:
            if origin == "generated" and b1[1] != p:
                bad = ("own output survives byte-for-byte", b1[1].hex()[:160])
            r1 = X.decode(b1[1], pod)
            if bad is None and r1[0] == "ERR":
                bad = ("re-encoded payload is accepted", r1[1])
            elif bad is None and (r1[0] != r[0] or (r1[0] == "V" and c09_values.canon(r1[1]) != c09_values.canon(r[1]))):
                bad = ("re-encoded payload decodes to the same value", repr(r1)[:160])
            elif bad is None and X.encode(None if r1[0] == "N" else r1[1]) != b1:
                bad = ("fixed point after one pass", "")
        if bad:
            cls = "xp:one-pass-clause"
            try:        # an entry whose sub-template is not idempotent is that template's defect, not the dict framing's
                for (kk, cv), (_, blob1) in zip(norm[0], norm[1]):
                    if c09_values.canon(X.blob_dec(kk, blob1, pod)) != cv:
                        cls = "xp:entry-template-not-idempotent:%d" % kk
            except Exception:       # noqa
                pass
            report(res, counts, dict(base, what=bad[0], clause=bad[0], detail=bad[1], **{"class": cls}))
        elif b1[1] != p:
            stats["decoder normalised the payload"] = stats.get("decoder normalised the payload", 0) + 1


def suite_extraparams(ctx, model: Model):
    res = CorrResult(suite="ExtraParams dict framing: model vs EXTRA_PARAM_COLLECTION / ObjectUpdateExtraParamsSerializer",
                     rule="model Spec/ExtraParamsModel.v (count byte, entries as (U16 type, U32 length, blob), dict() with overwrite-in-place, "
                          "tuple(dict.items()), None <-> b\"\"); per registered ExtraParamType a few values generated from its sub-template "
                          "and serialized by the real choice spec (blob); object form: dicts over every ordered selection of <= 3 distinct "
                          "types (thorough 4) and pair sequences that repeat a key -> serialize on both sides, round trip on the "
                          "implementation where the model's domain (raw_dict_ok) holds; wire form: count byte + every ordered sequence "
                          "of <= 3 entries WITH repetition over a pool of entries incl. same type / different value, wrong counts (+-1), an "
                          "unknown type, empty blobs, every prefix of the short ones, seeded mutations, every byte string of length <= 1; "
                          "object and plain-data form through the registered serializer: accept/reject, None/value, dict order and "
                          "values (blobs compared through the real choice spec applied outside the dict code), re-encoding, C09's "
                          "one-pass clauses; non-trivial = accepted")
    rng = ctx.rng
    counts, stats = {}, {}
    X = LiveExtraParams()
    gen = c09_values.Gen(rng)
    pool = []       # (type int, blob)
    for t, ch in sorted(X.choices.items()):
        got = 0
        for _ in range(12):
            if got >= ctx.pick(2, 4):
                break
            try:
                v = gen.value(ch._spec, {})
                blob = X.blob_enc(t, v)
                blob = X.blob_enc(t, X.blob_dec(t, blob, False))      # a fixed point of the sub-template
                if X.blob_enc(t, X.blob_dec(t, blob, False)) != blob:
                    continue
            except Exception:       # noqa
                continue
            if (t, blob) not in pool:
                pool.append((t, blob))
                got += 1
    stats["entry pool"] = len(pool)
    types = sorted({t for t, _ in pool})
    # ---- object form
    objs = []
    maxn = ctx.pick(3, 4)
    first = {}
    for t, b in pool:
        first.setdefault(t, b)
    for n in range(0, maxn + 1):
        for sel in itertools.permutations(types[:ctx.pick(5, 8)], n):
            objs.append(("dict", [(t, first[t]) for t in sel]))
    for _ in range(ctx.pick(60, 1500)):
        n = rng.randrange(1, 6)
        objs.append(("pairs", [rng.choice(pool) for _ in range(n)]))
    objs.append(("dict", [(t, first[t]) for t in types]))
    lines, keep = [], []
    for kind, ents in objs:
        res.evaluations += 1
        try:
            pairs = [(X.enum(t), X.blob_dec(t, b, False)) for t, b in ents]
        except Exception:       # noqa
            continue
        value = dict(pairs) if kind == "dict" else pairs
        keep.append((kind, ents, X.encode(value)))
        lines.append("xe " + dict_text(ents))
        lines.append("xo " + dict_text(ents))
    outs = model.run(lines)
    payloads = []
    for i, (kind, ents, real) in enumerate(keep):
        eo, ok = outs[2 * i], outs[2 * i + 1]
        m = ("ERR",) if eo == "ERR" else ("OK", unhx(eo))
        base = {"kind": "te-xp-value", "value": repr(ents), "form": kind, "key": "ObjectUpdate.ObjectData.ExtraParams", "te": "extraparams"}
        if m[0] != real[0] or (m[0] == "OK" and m[1] != real[1]):
            report(res, counts, dict(base, what="serialized bytes differ", model=eo[:300], impl=real[1].hex()[:300] if real[0] == "OK" else real[1]), dis=True)
            continue
        if real[0] != "OK":
            continue
        res.distinct_nontrivial += 1
        in_dom = ok == "1"
        stats["in round-trip domain" if in_dom else "outside round-trip domain (repeated key)"] = \
            stats.get("in round-trip domain" if in_dom else "outside round-trip domain (repeated key)", 0) + 1
        if in_dom:
            r = X.decode(real[1], False)
            want = [(t, c09_values.canon(X.blob_dec(t, b, False))) for t, b in ents]
            if r[0] != "V" or [(X.key_int(k), c09_values.canon(v)) for k, v in r[1].items()] != want:
                report(res, counts, dict(base, what="value in the round-trip domain does not round-trip", payload=real[1].hex(),
                                         clause="own output decodes to the value that was serialized", **{"class": "xp:domain-value-lost"}))
        for pod in (False, True):
            payloads.append((real[1], pod, "generated" if in_dom else "produced-outside-domain"))
    # ---- wire form
    def entry_bytes(t, b):
        return t.to_bytes(2, "little") + len(b).to_bytes(4, "little") + b
    small = pool[:ctx.pick(6, 10)]
    same = [e for e in pool if sum(1 for x in pool if x[0] == e[0]) > 1][:4]
    wpool = list(dict.fromkeys(small + same))[:ctx.pick(7, 12)]
    wire = []
    for n in range(0, 4):
        for seq in itertools.product(wpool, repeat=n):
            body = b"".join(entry_bytes(t, b) for t, b in seq)
            wire.append((bytes((n,)) + body, "wire"))
            if n and len(seq) == len({t for t, _ in seq}) + 1 or n <= 1:
                wire.append((bytes((n + 1,)) + body, "wire-count+1"))
                if n:
                    wire.append((bytes((n - 1,)) + body, "wire-count-1"))
    t0, b0 = pool[0]
    wire += [(b"\x01" + entry_bytes(5, b""), "unknown-type"), (b"\x01" + entry_bytes(t0, b""), "empty-blob"),
             (b"\x02" + entry_bytes(t0, b0) + entry_bytes(0xFFFF, b"\x00"), "unknown-type"),
             (b"\x01" + entry_bytes(t0, b0 + b"\x00"), "blob-too-long"), (b"\x01" + entry_bytes(t0, b0[:-1]), "blob-too-short")]
    wire += [(bytes((a,)), "one-byte") for a in range(256)] + [(b"", "empty")]
    shorts = [w for w, o in wire if o == "wire" and len(w) <= 60][:ctx.pick(12, 80)]
    for w in shorts:
        for i in range(len(w)):
            wire.append((w[:i], "prefix"))
    valid = [w for w, o in wire if o == "wire" and len(w) > 1]
    for _ in range(ctx.pick(300, 6000)):
        wire.append((mutate(rng, rng.choice(valid)), "mutated"))
    seen = set()
    for w, o in wire:
        if w in seen:
            continue
        seen.add(w)
        for pod in (False, True):
            payloads.append((w, pod, o))
    stats["payload cases"] = len(payloads)
    xp_check_payload(model, X, payloads, res, counts, stats)
    res.distribution = {k: v for k, v in sorted(stats.items())}
    res.samples = [{"payload": p.hex()[:120], "origin": o} for p, _, o in payloads[:3]]
    return res


# =====================================================================================
# (G) generated file

def coq_bytes(b: bytes) -> str:
    return "[" + "; ".join(str(x) for x in b) + "]"


def coq_struct(s) -> str:
    fs = []
    for f in s:
        if f is None:
            fs.append("None")
        else:
            fs.append("Some (%s, [%s])" % (coq_bytes(f[0]), "; ".join("([%s], %s)" % ("; ".join(str(i) for i in k), coq_bytes(x)) for k, x in f[1])))
    return "[" + ";\n     ".join(fs) + "]"


def emit(ctx) -> list:
    """gen/C09_te_gen.v: the live layout, its well-formedness, the round-trip / fixed-point theorems instantiated at it, and a
    table of live payloads (decoded by the implementation) that the model must decode and re-encode identically inside Coq"""
    live = live_te()
    rng = ctx.rng
    rows = []
    tries = 0
    while len(rows) < ctx.pick(24, 200) and tries < 4000:
        tries += 1
        raw = random_object(rng, live, wild=0.0)
        try:
            value, ms = build_value(live, raw)
        except Exception:       # noqa
            continue
        if ms is None:
            continue
        enc = real_encode(live, "bare", value)
        if enc[0] != "OK":
            continue
        dec = real_decode(live, "bare", enc[1], False)
        if dec[0] != "V" or dec[-1] != b"":
            continue
        try:
            rs = real_struct(live, dec[1])
            st = [None if f is None else (elem_enc(s, f[0]), [(k, elem_enc(s, x)) for k, x in f[1]]) for s, f in zip(live.specs, rs)]
        except Exception:       # noqa
            continue
        # only rows whose element bytes survive the element codec unchanged can be stated on raw elements
        if real_encode(live, "bare", dec[1]) != ("OK", enc[1]):
            continue
        again = real_decode(live, "bare", enc[1], False)
        flat = b"".join(b"" if f is None else f[0] + b"".join(x for _, x in f[1]) for f in st)
        if len(flat) == 0:
            continue
        rows.append((enc[1], st))
    out = ["(* GENERATED by harness/translate/c09_te.py from the live TE_SERIALIZER of the repo under test; rewritten every run. *)",
           "From Coq Require Import NArith List Bool.",
           "From HV Require Import Spec.TexEntry Spec.TexEntryProofs.",
           "Import ListNotations.", "Open Scope N_scope.", "",
           "(* %s *)" % ", ".join("%s:%s" % (n, type(s).__name__) for n, s in zip(live.names, live.specs)),
           "Definition te_live_layout : list (bool * bool * nat) :=\n  [%s]." % "; ".join(
               "(%s, %s, %d%%nat)" % ("true" if f else "false", "true" if o else "false", k) for f, o, k in live.layout),
           "",
           "Example C09_te_live_layout_ok : raw_layout_okb te_live_layout = true.\nProof. vm_compute. reflexivity. Qed.",
           "",
           "Theorem C09_te_live_roundtrip : forall vs, raw_te_ok te_live_layout vs = true ->\n"
           "  exists b, enc_te (raw_layout te_live_layout) vs = Some b /\\ dec_te (raw_layout te_live_layout) b = Some (vs, []).\n"
           "Proof. exact (fun vs => raw_te_rt te_live_layout vs C09_te_live_layout_ok). Qed.",
           "",
           "Theorem C09_te_live_fixed_point : forall bs vs r, dec_te (raw_layout te_live_layout) bs = Some (vs, r) ->\n"
           "  exists b', enc_te (raw_layout te_live_layout) vs = Some b' /\\ dec_te (raw_layout te_live_layout) b' = Some (vs, []).\n"
           "Proof. exact (fun bs vs r => raw_te_fixed_point te_live_layout bs vs r C09_te_live_layout_ok). Qed.",
           "",
           "Definition te_live_table : list (bytes * list (option (fval bytes))) :=\n  [%s]." % ";\n   ".join(
               "(%s,\n    %s)" % (coq_bytes(b), coq_struct(st)) for b, st in rows),
           "",
           "Example C09_te_live_table_agrees :\n"
           "  map (fun r => dec_te (raw_layout te_live_layout) (fst r)) te_live_table = map (fun r => Some (snd r, [])) te_live_table\n"
           "  /\\ map (fun r => enc_te (raw_layout te_live_layout) (snd r)) te_live_table = map (fun r => Some (fst r)) te_live_table\n"
           "  /\\ forallb (fun r => raw_te_ok te_live_layout (snd r)) te_live_table = true.\n"
           "Proof. vm_compute. repeat split; reflexivity. Qed.", ""]
    os.makedirs(os.path.dirname(GEN_V), exist_ok=True)
    with open(GEN_V, "w") as f:
        f.write("\n".join(out))
    ctx.notes.append("TextureEntry live layout (first,optional,size): %s; %d live payload rows in gen/C09_te_gen.v" % (live.ltext, len(rows)))
    return [{"name": "C09_te_live_layout_ok", "detail": "live TE_SERIALIZER: exactly the head field is `first`, element sizes fixed and positive (%s)" % live.ltext},
            {"name": "C09_te_live_roundtrip / C09_te_live_fixed_point", "detail": "te_rt / te_fixed_point instantiated at the live layout"},
            {"name": "C09_te_live_table_agrees", "detail": "%d payloads serialized and decoded by the live TE_SERIALIZER: the model decodes them to the same "
                                                           "structure, re-encodes them to the same bytes and places them in its round-trip domain (vm_compute)" % len(rows)}]


# =====================================================================================
# entry points used by harness/props/c09.py

def _improper(ltext):
    if not ltext:
        return False
    fs = [f.split(",") for f in ltext.split("/")]
    return not (fs[0][0] == "1" and all(f[0] == "0" for f in fs[1:]))


def correspond_te(ctx):
    import time
    t0 = time.time()
    model = Model()
    try:
        model.build()
    except Exception as e:      # noqa
        r = CorrResult(suite="TextureEntry: extracted model", rule="driver build")
        r.disagreements.append({"kind": "te", "what": "model driver does not build", "detail": str(e)[-600:], "key": "TextureEntry"})
        return [r]
    try:
        live = live_te()
        t1 = time.time()
        out = [suite_bitfield(ctx, model), suite_small(ctx, model), suite_live(ctx, model, live), suite_extraparams(ctx, model)]
        for r in out:       # report the most convincing / smallest case first: proper layouts, short payloads
            r.disagreements.sort(key=lambda d: (_improper(d.get("layout")), len(str(d.get("payload", d.get("value", ""))))))
            r.impl_violations.sort(key=lambda d: (_improper(d.get("layout")), len(str(d.get("payload", d.get("value", ""))))))
        ctx.notes.append("TextureEntry suites: driver build %.1fs, correspondence %.1fs" % (t1 - t0, time.time() - t1))
        return out
    finally:
        model.close()


def _te_by_layout(name, ltext):
    if name == "live":
        return live_te()
    if name.startswith("synth:"):
        shape = tuple((int(s[0]), int(s[1]), s[2:]) for s in name[len("synth:"):].split("/"))
        return synth_te(shape)
    raise ValueError("unknown TE %r" % name)


def replay(ctx, case):
    """re-run one stored case (kind te / te-bitfield / te-value) through model and implementation"""
    model = Model()
    model.build()
    try:
        res = CorrResult(suite="replay")
        counts, stats = {}, {}
        kind = case.get("kind")
        if kind == "te":
            te = _te_by_layout(case["te"], case.get("layout"))
            c = Case(te, case["mode"], bytes.fromhex(case["payload"]), bool(case["pod"]), case.get("origin", "replay"))
            again = run_decode_cases(model, [c], res, counts, stats)
            run_decode_cases(model, again, res, counts, stats)
        elif kind == "te-value":
            import ast
            te = _te_by_layout(case["te"], case.get("layout"))
            c = ObjCase(te, ast.literal_eval(case["value"]), case.get("origin", "replay"))
            prod = run_object_cases(model, [c], res, counts, stats)
            cs = [Case(te, "bare", b, pod, "generated" if d else "produced-outside-domain") for _, b, d in prod for pod in (False, True)]
            run_decode_cases(model, cs, res, counts, stats)
        elif kind == "te-bitfield":
            T, se = _mods()
            if "faces" in case:
                f = tuple(case["faces"])
                o = model.run(["be " + faces_text(f)])[0]
                w = se.BufferWriter("<")
                try:
                    T.TEFaceBitfield.serialize(f, w)
                    b = bytes(w.copy_buffer())
                    r = se.BufferReader("<", b)
                    back = T.TEFaceBitfield.deserialize(r)
                except Exception as e:      # noqa
                    return True, "implementation raised %s" % exc_name(e)
                canonical = len(f) > 0 and all(a < c for a, c in zip(f, f[1:]))
                if hx(b) != o:
                    return True, "serialize(%r) = %s, model %s" % (f, b.hex(), o)
                if canonical and (back != f or len(r)):
                    return True, "serialize(%r) = %s decodes to %r" % (f, b.hex(), back)
                return False, "agrees"
            p = bytes.fromhex(case["payload"])
            o = model.run(["bd " + hx(p)])[0]
            try:
                r = se.BufferReader("<", p)
                f = T.TEFaceBitfield.deserialize(r)
                impl = "%s %s" % (faces_text(f), hx(bytes(p[len(p) - len(r):]) if len(r) else b""))
            except Exception:       # noqa
                impl = "ERR"
            return (impl != o), "implementation: %s, model: %s" % (impl, o)
        elif kind == "te-xp":
            X = LiveExtraParams()
            xp_check_payload(model, X, [(bytes.fromhex(case["payload"]), bool(case["pod"]), case.get("origin", "replay"))], res, counts, stats)
        elif kind == "te-xp-value":
            import ast
            X = LiveExtraParams()
            ents = ast.literal_eval(case["value"])
            pairs = [(X.enum(t), X.blob_dec(t, b, False)) for t, b in ents]
            real = X.encode(dict(pairs) if case.get("form") == "dict" else pairs)
            o = model.run(["xe " + dict_text(ents)])[0]
            m = ("ERR",) if o == "ERR" else ("OK", unhx(o))
            if m[0] != real[0] or (m[0] == "OK" and m[1] != real[1]):
                return True, "serialize: model %s, implementation %s" % (o[:200], real[1].hex()[:200] if real[0] == "OK" else real[1])
            if real[0] == "OK":
                xp_check_payload(model, X, [(real[1], pod, "generated" if len({t for t, _ in ents}) == len(ents) else "produced-outside-domain")
                                            for pod in (False, True)], res, counts, stats)
        else:
            return False, "unknown TE case kind"
        bad = res.disagreements + res.impl_violations
        if bad:
            b = bad[0]
            return True, "%s: model %s / implementation %s %s" % (b.get("what"), str(b.get("model"))[:200], str(b.get("impl"))[:200], str(b.get("detail", ""))[:120])
        return False, "model and implementation agree, clauses hold"
    finally:
        model.close()
